"""C04 — genomic-model predictions are linear, label-preserving and self-consistent; rrBLUP fit.

Case kinds
  lin      one model (additive, optionally with dominance effects) + one phased genotype:
           gebv / gegv / predict / score / var_A / var_G / var_a / bulmer through every entry point
           (phased matrix, unphased projection, raw dosage array, TrueBreedingValue, the base-class
           code path), under a taxon permutation and a marker partition
  alleles  the twelve favourable / deleterious / neutral allele functions
  gs       gauss_seidel(A, b, atol, maxiter) called directly, few sweeps (functional correspondence)
  ml0      rrBLUP_ML0(y, Z, gsmaxiter = 1..4) with the ML ridge recorded as oracle input
  fit      rrBLUPModel0.fit_numpy / fit: wrapper correspondence + the four fitted-model clauses
  requery  ONE additive (and one dominance) model object is queried on every prediction / statistics /
           allele entry point, then mutated through the public setters (u_a, u_d, beta, u_misc, trait)
           and queried again after every assignment; model and Spec are recomputed from the NEW
           parameters, and predict(Xstar rows) must equal gebv / gegv on the same object
  refit    a fitted rrBLUP object is queried, then `fit_numpy` is called THROUGH THAT OBJECT with new data
           (other size, other markers); the second model must be the fit of the new data alone, the first
           must be untouched and share no array with the second, also after assigning to the setters
  big      sizes past internal constants: more than 1024 markers (not a multiple of 1024) or more than 1024 taxa,
           integer (int8) and float dosage arrays, phased / unphased / raw, statistics on those values

Round 4 additions inside the existing kinds (all optional keys, old replay files still load):
  lin      opts.cls (the additive model is a DenseAdditiveLinearGenomicModel or an rrBLUPModel0 built directly),
           opts.layout (raw arrays / coefficient matrices Fortran-ordered, strided views, negative strides,
           read-only, int8, float64), opts.pt (TrueBreedingValue.estimate with a phenotype object: ndarray,
           DataFrame, BreedingValueMatrix in another taxon order / with other labels), opts.bv (score() with a
           BreedingValueMatrix whose location / scale are NOT the from_numpy ones: raw values with location 0 and
           scale 1, reference-scaled, assigned after construction, scalar arguments), opts.direct (the *_numpy
           entry points and the base-class code paths called directly; dominance model with u_d = None);
           magnitudes: one trait with effects of order 2^-17 / 2^-20 (genic variance <= 1e-8 but positive) next to
           ordinary traits, a fixed locus with effect 2^24 (large common offset of all GEBVs), responses
           2^24 + small; `exact` views (q <= 2 fixed effects, dyadic data): float result must equal the rational
  alleles  effects of order 2^-40 (non-zero: not neutral), 130-300 taxa (counts > 127 / > 255), dtype arguments,
           the inheriting classes (rrBLUPModel0, dominance model)
  fit      responses with a large common offset (2^20 + k/64), 33-70 records through an int8 genotype matrix,
           integer arrays, BreedingValueMatrix phenotypes with explicit location / scale
  requery  in-place edits of the coefficient arrays (no setter call), in-place edits of the genotype objects,
           (deep)copies that are then mutated, returned arrays that are then mutated
"""
import contextlib
import copy
import json
from fractions import Fraction

import numpy

from .. import canon, compat
from ..core import Prop

compat.install()

ATOL = 1e-08          # default gsatol of rrBLUP_ML0
RELTOL = Fraction(1, 10 ** 6)


class _M:
    pass


_mods_cache = None


def _mods():
    global _mods_cache
    if _mods_cache is None:
        compat.import_pybrops()
        m = _M()
        import pybrops.model.gmod.DenseLinearGenomicModel as lin
        import pybrops.model.gmod.DenseAdditiveLinearGenomicModel as add
        import pybrops.model.gmod.DenseAdditiveDominanceLinearGenomicModel as dom
        import pybrops.model.gmod.rrBLUPModel0 as rr
        import pybrops.popgen.gmat.DenseGenotypeMatrix as gm
        import pybrops.popgen.gmat.DensePhasedGenotypeMatrix as pgm
        import pybrops.breed.prot.bv.TrueBreedingValue as tbv
        m.lin, m.add, m.dom, m.rr, m.gm, m.pgm, m.tbv = lin, add, dom, rr, gm, pgm, tbv
        m.LIN = lin.DenseLinearGenomicModel
        m.ADD = add.DenseAdditiveLinearGenomicModel
        m.DOM = dom.DenseAdditiveDominanceLinearGenomicModel
        m.RR = rr.rrBLUPModel0
        m.GM = gm.DenseGenotypeMatrix
        m.PGM = pgm.DensePhasedGenotypeMatrix
        m.TBV = tbv.TrueBreedingValue
        import pybrops.popgen.bvmat.DenseBreedingValueMatrix as bvm
        m.BVM = bvm.DenseBreedingValueMatrix
        _mods_cache = m
    return _mods_cache


def _f(x):
    return float(Fraction(x))


def _farr(rows, ncol=None):
    a = numpy.array([[_f(v) for v in r] for r in rows], dtype=float)
    if a.ndim != 2:
        a = a.reshape(len(rows), ncol if ncol is not None else 0)
    return a


def _bv(b):
    """observable content of a breeding value matrix: raw values and labels"""
    return {"mat": canon.enc(b.unscale()),
            "taxa": None if b.taxa is None else [str(x) for x in b.taxa],
            "grp": None if b.taxa_grp is None else [int(x) for x in b.taxa_grp],
            "trait": None if b.trait is None else [str(x) for x in b.trait]}


def _fsum(mats):
    """exact entrywise sum of encoded matrices"""
    acc = None
    for m in mats:
        d = canon.dec(m)
        acc = d if acc is None else [[a + b for a, b in zip(r, s)] for r, s in zip(acc, d)]
    return canon.enc(acc)


def _take(lst, idx):
    return None if lst is None else [lst[i] for i in idx]


def _gperm(g, idx):
    return [[ph[i] for i in idx] for ph in g]


def _gcols(g, cols):
    return [[[row[j] for j in cols] for row in ph] for ph in g]


class C04(Prop):
    PID = "C04"
    MODULE = "PybropsModel.Props.C04"
    N_QUICK = 260
    N_THOROUGH = 2400
    CORRESPONDENCE = "functional (predictions, statistics, allele functions, Gauss-Seidel sweeps, fit wrapper) + relational (fitted model vs its penalised criterion with the ridge chosen by the ML step)"
    RULE = ("lin: ploidy 1-4, 1-9 taxa x 1-7 markers x 1-3 traits x 1-3 fixed effects, phased 0/1 genotypes with "
            "forced fixed loci and heterozygotes, integer/half-integer effects with exact zeros and both signs, "
            "unsorted unique taxa names and group labels (also groups without names), a random taxon permutation and a "
            "2-3 part marker split; 22 %: one trait in units of 2^-17 / 2^-20 / 2^-30 (genic variance <= 1e-8, > 0); 14 %: a "
            "fixed locus with effect +-2^24 / 3*2^24 and responses sharing the offset (+ intercept 25000); 15 %: effects that "
            "sum to exactly 0 over markers; options: class (additive model / rrBLUPModel0 built directly), memory layout "
            "(Fortran, strided, negative strides, read-only, int8, float64), TrueBreedingValue with phenotype objects "
            "(ndarray, DataFrame, BreedingValueMatrix in another taxon order / other labels), score() through a "
            "BreedingValueMatrix with explicit location/scale (constructor arrays, scalars, defaults = raw values, "
            "re-assigned), the *_numpy and base-class entry points, models returned by to/from_pandas_dict, copy, "
            "deepcopy (judged with their own coefficients), dominance model with u_d = None; "
            "big: 1030-2050 markers x 2-3 taxa or 1030-1100 taxa x 1-2 markers, int8 and float dosage arrays; "
            "alleles: effects in {-,0,+} per (marker, trait) incl. +-2^-40 and -0.0, loci fixed at 0 / fixed at ploidy / "
            "polymorphic, population sizes incl. 49/98/103/107 and 130/200/300, dtype arguments, inheriting classes; "
            "gs: symmetric dyadic A with positive diagonal, 0-5 sweeps, atol in {1e-8, 0, 1/4}; ml0/fit: integer genotypes "
            "with monomorphic and duplicated columns, n <= p and n > p, noiseless / noisy / constant responses, responses "
            "2^20 + k/64, 33-70 records through an int8 (phased or unphased) matrix, BreedingValueMatrix phenotypes with "
            "explicit location/scale, gsatol in {default, 0, 1/4, 1/1024}; requery: 1-4 steps on one model object: "
            "assignments through the public setters u_a / u_d / beta / u_misc / trait, in-place edits of the coefficient "
            "arrays, in-place edits of the genotype objects, copies that are mutated, returned arrays that are mutated; "
            "every entry point re-queried after each.  Non-trivial = lin/big case with >= 2 taxa "
            "carrying different dosage rows and a non-zero effect; alleles case with a polymorphic marker and a "
            "non-zero effect; gs case with >= 2 unknowns and >= 1 sweep; ml0/fit case with >= 2 polymorphic markers; refit case whose "
            "second data set differs and has a polymorphic marker; requery case "
            "with >= 2 distinct dosage rows and a step other than a trait renaming")
    TRUSTED = [
        "scipy Nelder-Mead ML step and numpy.linalg.eigh of rrBLUP_ML0: entered as an oracle (the ridge varE/varU "
        "the implementation chose is recorded and handed to the Spec / model); only ridge > 0 is used "
        "(ml_ridge_positive: exp/exp > 0)",
        "DenseBreedingValueMatrix.from_numpy / unscale (values are observed through unscale(); their round trip is C15)",
        "numpy matmul / sum / var / where as modelled in Model/GenomicModel.lean",
        "pandas round trip of to_pandas_dict / from_pandas_dict only through the coefficients the loaded model reports",
        "numpy.linalg.solve in the repaired rrBLUP_ML0 (direct-solve fallback): entered through its contract A x = b for "
        "the symmetric positive definite A = Z'Z + ridge I; the model runs with an exact Gauss-Jordan solver "
        "(exact_solver_meets_contract) and the contract is re-checked on the implementation's own solution on every "
        "ml0 case that takes the fallback (residual <= 1e-9 (|A|_inf |u|_inf + |b|_inf)) and, through the "
        "normal-equation clause of the Spec, on every fit / refit case",
    ]
    ASSUMPTIONS = [
        "effects, intercepts, covariates and responses are integers or dyadic rationals: float results are compared "
        "with the exact rational value at rel 1e-9 (abs 1e-12); plain numpy outputs (gebv_numpy, gegv_numpy, predict_numpy) "
        "at rel 2^-45, abs 2^-70 (every intermediate is representable: a few ulps)",
        "a raw numpy dosage array handed to the dominance model is diploid {0,1,2} (documented in predict(); the "
        "ndarray branch has no ploidy argument and uses D = (gtobj == 1))",
        "score: responses are not constant per trait (SST != 0)",
        "normal-equation clause: residual <= max(1e-6 * max(1, |Z'y_c|_inf), 2 * gsatol * max_i sum_j |A_ij|) "
        "(second term = the bound the repaired code tests itself)",
    ]

    # ------------------------------------------------------------------ generation helpers
    @staticmethod
    def _eff(rng, nrow, t, zeros=True):
        pool = [-3, -2, -1, -1, 1, 1, 2, 3, Fraction(1, 2), Fraction(-3, 2), Fraction(5, 4)]
        if zeros:
            pool = pool + [0, 0, 0]
        return [[rng.choice(pool) for _ in range(t)] for _ in range(nrow)]

    @staticmethod
    def _geno(rng, ploidy, n, p):
        g = [[[rng.randint(0, 1) for _ in range(p)] for _ in range(n)] for _ in range(ploidy)]
        for j in range(p):
            r = rng.random()
            if r < 0.12:
                for ph in g:
                    for row in ph:
                        row[j] = 0
            elif r < 0.24:
                for ph in g:
                    for row in ph:
                        row[j] = 1
        return g

    TINY = (Fraction(1, 2 ** 17), Fraction(1, 2 ** 20), Fraction(1, 2 ** 30))
    BIGEFF = 2 ** 24

    def _lin_case(self, rng):
        ploidy = rng.choice([1, 2, 2, 2, 2, 3, 4])
        n = rng.choice([1, 2, 3, 4, 5, 6, 9])
        p = rng.choice([1, 2, 3, 4, 5, 7])
        t = rng.choice([1, 2, 2, 3])
        q = rng.choice([1, 1, 2, 3])
        g = self._geno(rng, ploidy, n, p)
        names = ["tx%02d" % i for i in range(n)]
        rng.shuffle(names)
        grp = [rng.randint(1, 4) for _ in range(n)]
        labelled = rng.random() < 0.85
        perm = list(range(n))
        rng.shuffle(perm)
        cuts = sorted(rng.sample(range(1, p), min(p - 1, rng.choice([1, 1, 2])))) if p > 1 else []
        X = [[1] + [rng.choice([0, 1, 2, Fraction(1, 2)]) for _ in range(q - 1)] for _ in range(n)]
        Y = [[rng.choice([-2, -1, 0, 1, 2, 3, Fraction(7, 2)]) for _ in range(t)] for _ in range(n)]
        for k in range(t):      # SST != 0 whenever there are >= 2 taxa
            if n >= 2 and len({row[k] for row in Y}) == 1:
                Y[0][k] = Y[0][k] + 1
        beta = self._eff(rng, q, t)
        ua = self._eff(rng, p, t)
        ud = self._eff(rng, p, t) if rng.random() < 0.6 else None
        # ---- magnitudes (class 2): a trait in very small units next to ordinary ones; a large common offset
        mag = rng.random()
        if mag < 0.22:
            k = rng.randrange(t)
            f = rng.choice(self.TINY)
            for row in ua:
                row[k] = Fraction(row[k]) * f
            if all(Fraction(row[k]) == 0 for row in ua):
                ua[rng.randrange(p)][k] = f
            if ud is not None and rng.random() < 0.5:
                for row in ud:
                    row[k] = Fraction(row[k]) * f
        elif mag < 0.36 and n >= 2:
            k = rng.randrange(t)
            j0 = rng.randrange(p)
            for ph in g:                      # locus fixed for the counted allele in every taxon
                for row in ph:
                    row[j0] = 1
            ua[j0][k] = self.BIGEFF * rng.choice([1, -1, 3])
            if ud is not None:
                ud[j0][k] = Fraction(ud[j0][k])
            off = ploidy * Fraction(ua[j0][k])
            for row in Y:                     # responses share the offset: SSE and SST stay of order 1
                row[k] = Fraction(row[k]) + off
            if rng.random() < 0.5:
                beta[0][k] = Fraction(beta[0][k]) + 25000
                for row in Y:
                    row[k] = row[k] + 25000
        # ---- exact cancellation (ties): effects that sum to exactly zero over markers / traits (never together with
        #      the large offset: a column mixing 1e7 and 1 loses the small entries to the rounding of from_numpy/unscale)
        offset_case = 0.22 <= mag < 0.36 and n >= 2
        if rng.random() < 0.15 and p >= 2 and not offset_case:
            for mat in ([ud] if ud is not None else []) + ([ua] if rng.random() < 0.5 else []):
                for k in range(t):
                    tot = sum(Fraction(mat[j][k]) for j in range(p - 1))
                    mat[p - 1][k] = -tot
                if all(Fraction(v) == 0 for r in mat for v in r):
                    mat[0][0], mat[1][0] = 2, -2
        opts = {}
        if rng.random() < 0.3:
            opts["cls"] = "RR"
        if rng.random() < 0.45:
            opts["layout"] = rng.choice(["F", "strided", "neg", "ro", "int8", "float"])
        if rng.random() < 0.4:
            opts["pt"] = rng.choice(["ndarray", "df", "bvm_perm", "bvm_perm", "bvm_relabel"])
        if rng.random() < 0.4:
            opts["direct"] = True
        if rng.random() < 0.15:
            opts["trait_none"] = True            # optional field absent: a model without trait names
        if rng.random() < 0.45:
            how = rng.choice(["ctor", "ctor", "scalar", "assign", "raw"])
            if how == "raw":
                loc, sc = [0] * t, [1] * t
            elif how == "scalar":
                loc = [rng.choice([0, 3, Fraction(-5, 2), 48])] * t
                sc = [rng.choice([1, 2, Fraction(1, 2), 4])] * t
            else:
                loc = [rng.choice([0, 3, Fraction(-5, 2), 48, -7]) for _ in range(t)]
                sc = [rng.choice([1, 2, Fraction(1, 2), 4, Fraction(1, 4)]) for _ in range(t)]
            # the stored (standardised) values are chosen so that the raw values are exactly the responses
            mat = [[(Fraction(Y[i][k]) - Fraction(loc[k])) / Fraction(sc[k]) for k in range(t)] for i in range(n)]
            opts["bv"] = {"how": how, "mat": canon.enc(mat), "loc": canon.enc(loc), "scale": canon.enc(sc)}
        c = {"kind": "lin", "ploidy": ploidy, "g": g, "t": t,
             "beta": canon.enc(beta), "ua": canon.enc(ua),
             "ud": canon.enc(ud) if ud is not None else None,
             "taxa": names if labelled else None,
             "grp": grp if (labelled and rng.random() < 0.8) or (not labelled and rng.random() < 0.4) else None,
             "perm": perm, "cuts": cuts, "X": canon.enc(X), "Y": canon.enc(Y), "opts": opts}
        return c

    def _big_case(self, rng, which=None):
        """sizes past internal constants (chunk lengths, 8-bit accumulators)"""
        which = which or rng.choice(["p", "p", "n"])
        if which == "p":
            n, p, t = rng.choice([2, 3]), rng.choice([1030, 1100, 2050]), rng.choice([1, 2])
        elif which == "n":
            n, p, t = rng.choice([1030, 1100]), rng.choice([1, 2]), 1
        elif which == "p-small":
            n, p, t = 2, 1030, 1
        else:
            n, p, t = 1030, 1, 1
        g = [[[rng.randint(0, 1) for _ in range(p)] for _ in range(n)] for _ in range(2)]
        ua = [[rng.choice([-3, -2, -1, 1, 1, 2, 3, Fraction(1, 2), 0]) for _ in range(t)] for _ in range(p)]
        for k in range(t):
            ua[p - 1][k] = rng.choice([1, -2, 3])          # the last markers always matter
        ud = [[rng.choice([-1, 0, 1, 2]) for _ in range(t)] for _ in range(p)] if rng.random() < 0.5 else None
        return {"kind": "big", "ploidy": 2, "g": g, "t": t, "beta": canon.enc([[rng.choice([0, 2, -5])] * t]),
                "ua": canon.enc(ua), "ud": canon.enc(ud) if ud is not None else None,
                "taxa": ["b%04d" % i for i in range(n)], "grp": None}

    def _alleles_case(self, rng):
        ploidy = rng.choice([1, 2, 2, 2, 3, 4])
        r = rng.random()
        if r < 0.2:
            n = rng.choice([1, 2, 3, 5, 8, 49, 98, 103, 107])
        elif r < 0.27:
            n = rng.choice([130, 200, 300])          # counts beyond 127 / 255
        else:
            n = rng.randint(1, 8)
        p = rng.randint(1, 6) if n < 130 else rng.randint(1, 3)
        t = rng.choice([1, 2, 3])
        g = self._geno(rng, ploidy, n, p)
        pool = [-2, -1, Fraction(-1, 2), 0, 0, Fraction(1, 4), 1, 3]
        if rng.random() < 0.35:                       # non-zero effects far below any tolerance: not neutral
            pool = pool + [Fraction(1, 2 ** 40), Fraction(-1, 2 ** 40), Fraction(1, 2 ** 20), Fraction(-3, 2 ** 30)]
        ua = [[rng.choice(pool) for _ in range(t)] for _ in range(p)]
        c = {"kind": "alleles", "ploidy": ploidy, "g": g, "ua": canon.enc(ua)}
        opts = {}
        if rng.random() < 0.4:
            opts["cls"] = rng.choice(["RR", "DOM"])
        if rng.random() < 0.5:
            opts["dtype"] = {"count": rng.choice(["int64", "int32", "int16"]),
                             "flag": rng.choice(["bool", "int", "int8", "float64"])}
        if rng.random() < 0.3:
            opts["negzero"] = True          # exact zeros stored as -0.0: still zero, still neutral
        if opts:
            c["opts"] = opts
        return c

    def _gs_case(self, rng):
        n = rng.choice([1, 2, 2, 3, 3, 4, 5])
        B = [[rng.choice([-2, -1, 0, 1, 2, Fraction(1, 2)]) for _ in range(n)] for _ in range(n)]
        A = [[0] * n for _ in range(n)]
        for i in range(n):
            for j in range(i + 1, n):
                A[i][j] = A[j][i] = B[i][j]
        dd = rng.random() < 0.6      # diagonally dominant or merely positive diagonal
        for i in range(n):
            off = sum(abs(Fraction(A[i][j])) for j in range(n) if j != i)
            A[i][i] = (off + rng.choice([1, 2, Fraction(1, 2)])) if dd else rng.choice([1, 2, 4, Fraction(1, 2)])
        b = [rng.choice([-3, -1, 0, 1, 2, 5, Fraction(3, 2)]) for _ in range(n)]
        atol = rng.choice([Fraction(ATOL), Fraction(ATOL), Fraction(0), Fraction(1, 4)])
        return {"kind": "gs", "A": canon.enc(A), "b": canon.enc(b), "atol": canon.enc(atol),
                "maxiter": rng.choice([0, 1, 1, 2, 3, 4, 5])}

    @staticmethod
    def _train(rng, n, p, t, mono=True, dup=True, allpoly=False):
        Z = [[rng.randint(0, 2) for _ in range(p)] for _ in range(n)]
        for j in range(p):
            r = rng.random()
            if mono and not allpoly and r < 0.18:
                v = rng.randint(0, 2)
                for row in Z:
                    row[j] = v
            elif dup and j > 0 and r < 0.28:
                src = rng.randrange(j)
                for row in Z:
                    row[j] = row[src]
        def poly(j):
            return any(row[j] != Z[0][j] for row in Z)
        need = range(p) if allpoly else [0]
        for j in need:
            if not poly(j):
                Z[0][j] = (Z[0][j] + 1) % 3
                if n >= 2 and Z[1][j] == Z[0][j]:
                    Z[1][j] = (Z[1][j] + 1) % 3
        Y = []
        cols = []
        for k in range(t):
            u = [rng.choice([-2, -1, 0, 1, 2, 3]) for _ in range(p)]
            style = rng.random()
            noise = 0 if style < 0.35 else rng.choice([Fraction(1, 2), 1, 2])
            col = [sum(z * w for z, w in zip(row, u)) + 5 + noise * rng.randint(-3, 3) for row in Z]
            if style > 0.95:
                col = [Fraction(3)] * n
            cols.append(col)
        Y = [[cols[k][i] for k in range(t)] for i in range(n)]
        return Z, Y

    def _ml0_case(self, rng):
        p = rng.choice([1, 2, 3, 4])
        n = rng.choice([2, 3, 4, 6, 8])
        Z, Y = self._train(rng, n, p, 1, allpoly=True)
        c = {"kind": "ml0", "Z": Z, "y": canon.enc([r[0] for r in Y]), "maxiter": rng.choice([1, 2, 3, 4])}
        r = rng.random()
        if r < 0.12:        # the rarely used solver options: tolerance 0 ("iterate as far as possible"); few sweeps keep the
            c["gsatol"] = 0  # exact rational model cheap (the 1000-sweep instance is in the corpus)
        elif r < 0.2:
            c["gsatol"] = canon.enc(rng.choice([Fraction(1, 4), Fraction(1, 1024)]))
        return c

    def _fit_case(self, rng):
        p = rng.choice([1, 2, 3, 4, 5, 6, 8])
        n = rng.choice([2, 3, 4, 5, 6, 7, 9, 12, 14])
        t = rng.choice([1, 1, 2])
        via = rng.choice(["fit_numpy", "fit_numpy", "fit", "fit_bvm"])
        opts = {}
        if via == "fit" and rng.random() < 0.3:      # many records through an int8 matrix (sums beyond 127)
            n = rng.choice([33, 40, 64, 70])
            p = rng.choice([1, 2, 3])
        Z, Y = self._train(rng, n, p, t, dup=(n < 30))
        if rng.random() < 0.25:                       # large common offset of the responses
            off = rng.choice([2 ** 20 + Fraction(1, 64), 25000 + Fraction(33, 64), -(2 ** 18) - Fraction(5, 64)])
            k = rng.randrange(t)
            for row in Y:
                row[k] = Fraction(row[k]) + off
        if via == "fit_numpy" and rng.random() < 0.4:
            opts["layout"] = rng.choice(["F", "int", "strided"])
        if via == "fit" and rng.random() < 0.4:
            opts["phased"] = True
        if via == "fit_bvm" and rng.random() < 0.6:
            how = rng.choice(["ctor", "scalar", "assign", "raw"])
            if how == "raw":
                loc, sc = [0] * t, [1] * t
            elif how == "scalar":
                loc, sc = [rng.choice([0, 3, 48])] * t, [rng.choice([1, 2, Fraction(1, 2)])] * t
            else:
                loc = [rng.choice([0, 3, Fraction(-5, 2), 48]) for _ in range(t)]
                sc = [rng.choice([1, 2, Fraction(1, 2), 4]) for _ in range(t)]
            mat = [[(Fraction(Y[i][k]) - Fraction(loc[k])) / Fraction(sc[k]) for k in range(t)] for i in range(n)]
            opts["bv"] = {"how": how, "mat": canon.enc(mat), "loc": canon.enc(loc), "scale": canon.enc(sc)}
        c = {"kind": "fit", "Z": Z, "Y": canon.enc(Y), "via": via}
        if opts:
            c["opts"] = opts
        return c

    def _refit_case(self, rng):
        t = rng.choice([1, 1, 2])
        Z1, Y1 = self._train(rng, rng.choice([3, 4, 6, 8]), rng.choice([1, 2, 3, 4]), t)
        same = rng.random() < 0.5       # same shapes: the case in which a stale cache goes unnoticed by shape checks
        n2 = len(Z1) if same else rng.choice([3, 5, 7])
        p2 = len(Z1[0]) if same else rng.choice([1, 2, 3, 5])
        Z2, Y2 = self._train(rng, n2, p2, t)
        return {"kind": "refit", "Z1": Z1, "Y1": canon.enc(Y1), "Z2": Z2, "Y2": canon.enc(Y2)}

    def _requery_case(self, rng):
        ploidy = rng.choice([1, 2, 2, 2, 3, 4])
        n = rng.choice([2, 3, 4, 5])
        p = rng.choice([1, 2, 3, 4])
        t = rng.choice([1, 2, 2])
        q = rng.choice([1, 2, 3])
        pm = rng.choice([0, 0, 0, 1, 2])
        g = self._geno(rng, ploidy, n, p)
        names = ["tx%02d" % i for i in range(n)]
        rng.shuffle(names)
        X = [[1] + [rng.choice([0, 1, 2, Fraction(1, 2)]) for _ in range(q - 1)] for _ in range(n)]
        Y = [[rng.choice([-2, -1, 0, 1, 2, 3, Fraction(7, 2)]) for _ in range(t)] for _ in range(n)]
        for k in range(t):
            if len({row[k] for row in Y}) == 1:
                Y[0][k] = Y[0][k] + 1
        has_d = rng.random() < 0.6
        setters = ["u_a", "u_a", "beta", "trait"] + (["u_d"] if has_d else []) + (["u_misc"] if pm else [])
        # round 4: edits that do not go through a setter, and aliasing probes
        setters += ["u_a_inplace", "u_a_inplace", "beta_inplace", "geno_flip", "copy_mutate", "out_mutate"]
        setters += ["u_d_inplace"] if has_d else []
        steps = []
        for _ in range(rng.choice([1, 2, 2, 3, 4])):
            w = rng.choice(setters)
            if w == "trait":
                steps.append({"set": "trait", "value": ["new%d_%d" % (len(steps), k) for k in range(t)]})
            elif w in ("u_a_inplace", "u_d_inplace", "beta_inplace"):
                rows = q if w == "beta_inplace" else p
                steps.append({"set": w, "j": rng.randrange(rows), "k": rng.randrange(t),
                              "value": canon.enc(rng.choice([-4, 5, Fraction(7, 2), Fraction(-9, 4), 6]))})
            elif w == "geno_flip":
                steps.append({"set": w, "ph": rng.randrange(ploidy), "i": rng.randrange(n), "j": rng.randrange(p)})
            elif w in ("copy_mutate", "out_mutate"):
                steps.append({"set": w})
            else:
                rows = {"u_a": p, "u_d": p, "beta": q, "u_misc": pm}[w]
                steps.append({"set": w, "value": canon.enc(self._eff(rng, rows, t, zeros=(w != "u_a")))})
        return {"kind": "requery", "ploidy": ploidy, "g": g, "t": t,
                "beta": canon.enc(self._eff(rng, q, t)), "ua": canon.enc(self._eff(rng, p, t)),
                "ud": canon.enc(self._eff(rng, p, t)) if has_d else None,
                "um": canon.enc(self._eff(rng, pm, t)) if pm else None,
                "Zm": canon.enc([[rng.choice([0, 1, 2, Fraction(1, 2)]) for _ in range(pm)] for _ in range(n)]) if pm else None,
                "taxa": names, "grp": [rng.randint(1, 3) for _ in range(n)],
                "X": canon.enc(X), "Y": canon.enc(Y), "steps": steps}

    def corpus(self):
        return [
            # every entry point, labels unsorted, exact zeros, an all-zero trait column
            {"kind": "lin", "ploidy": 2, "t": 2,
             "g": [[[0, 1, 1], [1, 1, 0], [0, 0, 0]], [[1, 1, 0], [1, 0, 0], [0, 0, 1]]],
             "beta": [[1, 2], [3, 0], ["1/2", 1]], "ua": [[1, 0], [0, 0], [-2, 0]], "ud": [[1, 0], [0, 1], ["1/2", 0]],
             "taxa": ["c", "a", "b"], "grp": [3, 1, 2], "perm": [2, 0, 1], "cuts": [1],
             "X": [[1, 0, 0], [1, 1, 0], [1, 0, 1]], "Y": [[1, 2], [3, 5], [2, 2]]},
            # tetraploid, single taxon, single marker, additive only, unlabeled
            {"kind": "lin", "ploidy": 4, "t": 1, "g": [[[1]], [[1]], [[0]], [[1]]],
             "beta": [[2]], "ua": [[3]], "ud": None, "taxa": None, "grp": None, "perm": [0], "cuts": [],
             "X": [[1]], "Y": [[1]]},
            # all loci fixed: var_a = 0 -> bulmer NaN
            {"kind": "lin", "ploidy": 2, "t": 1, "g": [[[1, 0], [1, 0]], [[1, 0], [1, 0]]],
             "beta": [[0]], "ua": [[1], [2]], "ud": [[1], [1]], "taxa": ["x", "y"], "grp": None, "perm": [1, 0],
             "cuts": [1], "X": [[1], [1]], "Y": [[0], [1]]},
            {"kind": "alleles", "ploidy": 2, "g": [[[0, 1, 1, 0], [0, 1, 0, 1]], [[0, 1, 1, 1], [0, 1, 0, 0]]],
             "ua": [[1, -1, 0], [1, -1, 0], [2, 0, "-1/2"], [0, 0, 0]]},
            {"kind": "alleles", "ploidy": 1, "g": [[[1] for _ in range(49)]], "ua": [[1, -1]]},
            {"kind": "gs", "A": [[4, 1], [1, 3]], "b": [1, 2], "atol": canon.enc(Fraction(ATOL)), "maxiter": 3},
            {"kind": "gs", "A": [[1, 2], [2, 1]], "b": [1, 1], "atol": canon.enc(Fraction(ATOL)), "maxiter": 4},
            {"kind": "gs", "A": [[2]], "b": [3], "atol": 0, "maxiter": 5},
            {"kind": "ml0", "Z": [[0, 1], [1, 1], [2, 0], [1, 2]], "y": [1, 2, 4, 3], "maxiter": 2},
            # well determined, well conditioned
            {"kind": "fit", "via": "fit_numpy", "Z": [[0, 1, 2], [1, 1, 2], [2, 0, 2], [1, 2, 2], [0, 0, 2], [2, 2, 2]],
             "Y": [[1, 0], [2, 3], [4, 1], [3, 1], [0, 2], [5, "1/2"]]},
            # more markers than records
            {"kind": "fit", "via": "fit_numpy", "Z": [[0, 1, 2, 0], [1, 1, 0, 2], [2, 0, 1, 1]], "Y": [[1], [2], [4]]},
            # constant response
            {"kind": "fit", "via": "fit_numpy", "Z": [[0, 1], [1, 1], [2, 0], [1, 2]], "Y": [[3], [3], [3], [3]]},
            # evaluate, assign new marker effects / intercepts / dominance effects / trait names, evaluate again
            {"kind": "requery", "ploidy": 2, "t": 1, "g": [[[0, 1], [1, 1], [0, 0]], [[1, 1], [1, 0], [0, 0]]],
             "beta": [[1], [2]], "ua": [[1], [-2]], "ud": [[1], [0]], "um": None, "Zm": None,
             "taxa": ["c", "a", "b"], "grp": [3, 1, 2], "X": [[1, 0], [1, 1], [1, 2]], "Y": [[1], [3], [2]],
             "steps": [{"set": "u_a", "value": [[-3], [1]]}, {"set": "beta", "value": [[5], [0]]},
                       {"set": "u_d", "value": [[0], [2]]}, {"set": "trait", "value": ["yield"]}]},
            # with miscellaneous random effects (predict_numpy / score_numpy only)
            {"kind": "requery", "ploidy": 2, "t": 2, "g": [[[0, 1], [1, 1]], [[1, 0], [1, 0]]],
             "beta": [[1, 0]], "ua": [[1, 2], [-2, 0]], "ud": None, "um": [[1, 1]], "Zm": [[1], [2]],
             "taxa": ["b", "a"], "grp": [1, 1], "X": [[1], [1]], "Y": [[1, 0], [3, 2]],
             "steps": [{"set": "u_misc", "value": [[-2, 3]]}, {"set": "u_a", "value": [[0, 1], [4, -1]]}]},
            # refit through a fitted object: same shapes, different data (monomorphic column moves)
            {"kind": "refit", "Z1": [[0, 1, 2], [1, 1, 2], [2, 0, 2], [1, 2, 2]], "Y1": [[1], [2], [4], [3]],
             "Z2": [[1, 1, 0], [1, 0, 2], [1, 2, 1], [1, 1, 1]], "Y2": [[5], [1], [0], [2]]},
        ] + self._round4_cases() + self._finding_cases()

    def _round4_cases(self):
        """one deterministic case per input class added in round 4 (so that the self-test never depends on the PRNG)"""
        import random
        T17 = "1/131072"

        def bv(how, Y, loc, sc):
            mat = [[(Fraction(canon.dec(Y[i][k])) - Fraction(canon.dec(loc[k]))) / Fraction(canon.dec(sc[k]))
                    for k in range(len(loc))] for i in range(len(Y))]
            return {"how": how, "mat": canon.enc(mat), "loc": loc, "scale": sc}
        cases = [
            # a trait expressed in very small units next to an ordinary one: var_a = 4*(2^-17)^2*(...) <= 1e-8 but > 0;
            # every *_numpy / base-class entry point; rrBLUPModel0 as the class
            {"kind": "lin", "ploidy": 2, "t": 2,
             "g": [[[0, 1, 1], [1, 1, 0], [0, 0, 1], [1, 0, 1]], [[1, 1, 0], [1, 0, 0], [0, 1, 1], [0, 0, 1]]],
             "beta": [[1, 2], [3, "1/2"]], "ua": [[1, T17], [-2, "3/131072"], ["1/2", "-1/131072"]],
             "ud": [[1, T17], [0, 0], ["1/2", 1]],
             "taxa": ["d", "a", "c", "b"], "grp": [3, 1, 2, 1], "perm": [2, 0, 3, 1], "cuts": [1],
             "X": [[1, 0], [1, 1], [1, 2], [1, "1/2"]], "Y": [[1, 2], [3, 5], [2, 2], [0, 1]],
             "opts": {"cls": "RR", "direct": True, "pt": "bvm_perm", "layout": "F",
                      "bv": bv("raw", [[1, 2], [3, 5], [2, 2], [0, 1]], [0, 0], [1, 1])}},
            # large common offset: a locus fixed in every taxon with effect 3 * 2^24, intercept + 25000;
            # reference-scaled breeding value matrix (location / scale of another panel); phenotypes with other labels
            {"kind": "lin", "ploidy": 2, "t": 1,
             "g": [[[1, 1, 0], [1, 0, 0], [1, 1, 1]], [[1, 0, 1], [1, 0, 0], [1, 1, 0]]],
             "beta": [[25001]], "ua": [[50331648], [1], [-2]], "ud": None,
             "taxa": ["z", "x", "y"], "grp": None, "perm": [1, 2, 0], "cuts": [1, 2],
             "X": [[1], [1], [1]], "Y": [[100688297], [100688295], [100688298]],
             "opts": {"direct": True, "pt": "bvm_relabel", "layout": "strided",
                      "bv": bv("ctor", [[100688297], [100688295], [100688298]], [48], [2])}},
            # location / scale assigned after construction, tetraploid, read-only inputs, DataFrame phenotypes
            {"kind": "lin", "ploidy": 4, "t": 2,
             "g": [[[0, 1], [1, 1], [0, 0]], [[1, 1], [1, 0], [0, 0]], [[0, 1], [1, 1], [0, 1]], [[1, 0], [1, 1], [0, 0]]],
             "beta": [[1, 0]], "ua": [[1, -1], ["3/2", 2]], "ud": [[1, 0], ["-1/2", 3]],
             "taxa": None, "grp": None, "perm": [0, 2, 1], "cuts": [1],
             "X": [[1], [1], [1]], "Y": [[3, 1], [5, 0], [1, 7]],
             "opts": {"pt": "df", "layout": "ro", "direct": True,
                      "bv": bv("assign", [[3, 1], [5, 0], [1, 7]], [0, 0], [2, "1/4"])}},
            # negative strides, int8 raw arrays, scalar location / scale
            {"kind": "lin", "ploidy": 2, "t": 2, "g": [[[0, 1], [1, 1]], [[1, 1], [0, 0]]],
             "beta": [[0, 1], [2, 2], [1, 0]], "ua": [[1, 2], [-1, "1/2"]], "ud": None,
             "taxa": ["q", "p"], "grp": [2, 2], "perm": [1, 0], "cuts": [],
             "X": [[1, 0, 1], [1, 2, 0]], "Y": [[7, 3], [1, 9]],
             "opts": {"layout": "neg", "pt": "ndarray", "trait_none": True,
                      "bv": bv("scalar", [[7, 3], [1, 9]], [3, 3], [2, 2])}},
            {"kind": "lin", "ploidy": 2, "t": 1, "g": [[[0, 1], [1, 1], [1, 0]], [[1, 1], [0, 0], [0, 0]]],
             "beta": [[2]], "ua": [[1], [-3]], "ud": [[2], [1]],
             "taxa": ["q", "p", "r"], "grp": [2, 1, 2], "perm": [1, 0, 2], "cuts": [1],
             "X": [[1], [1], [1]], "Y": [[0], [1], [5]], "opts": {"layout": "int8", "direct": True}},
            # dominance effects that cancel exactly (sum 0 over markers and traits) but are not zero; tetraploid
            {"kind": "lin", "ploidy": 4, "t": 2,
             "g": [[[0, 1], [1, 1], [0, 0]], [[1, 1], [1, 0], [0, 0]], [[0, 1], [1, 1], [0, 1]], [[1, 0], [1, 1], [0, 0]]],
             "beta": [[1, 0]], "ua": [[1, -1], [-1, 1]], "ud": [[2, -3], [-2, 3]],
             "taxa": ["m", "k", "l"], "grp": [1, 2, 1], "perm": [2, 0, 1], "cuts": [1],
             "X": [[1], [1], [1]], "Y": [[3, 1], [5, 0], [1, 7]], "opts": {"direct": True}},
            # three identical polymorphic markers (perfect LD), as many records as markers
            {"kind": "fit", "via": "fit_numpy", "Z": [[0, 0, 0], [1, 1, 1], [2, 2, 2]], "Y": [[1], [2], [4]]},
            # alleles: effects of order 2^-40 are not neutral; 200 diploid taxa (counts up to 400); dtype arguments
            {"kind": "alleles", "ploidy": 2, "g": [[[0, 1, 1, 0], [0, 1, 0, 1]], [[0, 1, 1, 1], [0, 1, 0, 0]]],
             "ua": [["1/1099511627776", "-1/1099511627776"], ["-1/1099511627776", 0], ["1/1048576", 1], [0, "-3/1073741824"]],
             "opts": {"cls": "DOM", "dtype": {"count": "int16", "flag": "int8"}, "negzero": True}},
            {"kind": "alleles", "ploidy": 2,
             "g": [[[(i * 7 + j) % 3 % 2 for j in range(2)] for i in range(200)],
                   [[1 if j == 0 else (i % 5 == 0) * 1 for j in range(2)] for i in range(200)]],
             "ua": [[1, -1, 0], [-2, "1/2", 0]], "opts": {"cls": "RR", "dtype": {"count": "int32", "flag": "float64"}}},
            # fit: responses 2^20 + k/64, 40 records through an int8 matrix, breeding value matrix with explicit scaling
            {"kind": "fit", "via": "fit", "Z": [[0 if i % 4 == 0 else 2, (i * 5 + 3) % 3] for i in range(64)],
             "Y": [[canon.enc(2 ** 20 + Fraction(1, 64) + (0 if i % 4 == 0 else 2) * 2 - ((i * 5 + 3) % 3) + Fraction(i % 4, 2))]
                   for i in range(64)]},
            {"kind": "fit", "via": "fit_bvm", "Z": [[0, 1, 2], [1, 1, 2], [2, 0, 2], [1, 2, 2], [0, 0, 2], [2, 2, 2]],
             "Y": [[1, 0], [2, 3], [4, 1], [3, 1], [0, 2], [5, "1/2"]],
             "opts": {"bv": bv("ctor", [[1, 0], [2, 3], [4, 1], [3, 1], [0, 2], [5, "1/2"]], [2, 0], [1, "1/4"])}},
            {"kind": "fit", "via": "fit_numpy", "Z": [[0, 1], [1, 1], [2, 0], [1, 2], [0, 0]],
             "Y": [["1600033/64"], ["1600161/64"], ["1600289/64"], ["1600097/64"], ["1599969/64"]], "opts": {"layout": "int"}},
            {"kind": "fit", "via": "fit", "Z": [[0, 1, 2], [1, 1, 2], [2, 0, 2], [1, 2, 2], [0, 0, 2]],
             "Y": [[1], [2], [4], [4], [0]], "opts": {"phased": True}},
            # in-place edits, genotype edits, copies and returned arrays that are mutated
            {"kind": "requery", "ploidy": 2, "t": 2, "g": [[[0, 1], [1, 1], [0, 0]], [[1, 1], [1, 0], [0, 0]]],
             "beta": [[1, 0], [2, 1]], "ua": [[1, 2], [-2, 1]], "ud": [[1, 0], [0, 3]], "um": None, "Zm": None,
             "taxa": ["c", "a", "b"], "grp": [3, 1, 2], "X": [[1, 0], [1, 1], [1, 2]], "Y": [[1, 0], [3, 2], [2, 5]],
             "steps": [{"set": "out_mutate"}, {"set": "u_a_inplace", "j": 1, "k": 0, "value": 5},
                       {"set": "copy_mutate"}, {"set": "geno_flip", "ph": 1, "i": 2, "j": 0},
                       {"set": "beta_inplace", "j": 1, "k": 1, "value": "-9/4"},
                       {"set": "u_d_inplace", "j": 0, "k": 1, "value": 6}]},
        ]
        rng = random.Random(20240930)
        cases.append(self._big_case(rng, "p-small"))
        cases.append(self._big_case(rng, "n-small"))
        return cases

    @staticmethod
    def _finding_cases():
        """regression cases of the repaired defects: n > p training sets on which gauss_seidel stops at maxiter = 1000
        far from the solution (D22: now the direct solution is returned); gsatol = 0 (D22b: the first loop test used to
        be false, no sweep was performed, all effects were 0)"""
        return [
            {"kind": "ml0", "Z": [[0, 1], [1, 1], [2, 0], [1, 2], [0, 0], [2, 2]], "y": [1, 2, 4, 3, 0, 5],
             "maxiter": 1000, "gsatol": 0},
            # two identical markers, three records: 1000 sweeps cover 4 % of the way to the solution
            {"kind": "fit", "via": "fit_numpy", "Z": [[1, 1], [0, 0], [1, 1]], "Y": [[4], [5], [4]]},
            # full column rank, 6 records x 5 markers, cond(Z'Z) ~ 1e3: relative residual 3.5e-4, error in u 0.13
            {"kind": "fit", "via": "fit_numpy",
             "Z": [[2, 1, 0, 2, 1], [1, 2, 0, 1, 0], [2, 0, 0, 1, 2], [2, 2, 0, 2, 1], [2, 1, 2, 1, 0], [1, 0, 1, 1, 0]],
             "Y": [[-3], [8], [-5], [-2], [6], [6]]},
        ]

    def generate(self, rng, n, tier):
        out = []
        for _ in range(n):
            r = rng.random()
            if r < 0.36:
                out.append(self._lin_case(rng))
            elif r < 0.56:
                out.append(self._alleles_case(rng))
            elif r < 0.70:
                out.append(self._gs_case(rng))
            elif r < 0.78:
                out.append(self._ml0_case(rng))
            elif r < 0.87:
                out.append(self._requery_case(rng))
            elif r < 0.91:
                out.append(self._refit_case(rng))
            elif r < 0.916 and tier == "thorough":       # quick tier: the two corpus cases only (cost)
                out.append(self._big_case(rng))
            else:
                out.append(self._fit_case(rng))
        return out

    # ------------------------------------------------------------------ implementation
    def _mk_geno(self, m, g, taxa, grp, ploidy):
        arr = numpy.array(g, dtype="int8").reshape(ploidy, len(g[0]), -1)
        tx = None if taxa is None else numpy.array(taxa, dtype=object)
        gp = None if grp is None else numpy.array(grp, dtype=int)
        pg = m.PGM(arr.copy(), taxa=tx, taxa_grp=gp)
        ug = m.GM(arr.sum(0, dtype="int8"), taxa=tx, taxa_grp=gp, ploidy=ploidy)
        raw = arr.sum(0, dtype="int64")
        return pg, ug, raw

    @staticmethod
    def _layout(a, how):
        """the same values in another memory layout / dtype (class 4: argument forms)"""
        if a is None or how is None:
            return a
        if how == "F":
            return numpy.asfortranarray(a)
        if how == "strided":
            big = numpy.full((a.shape[0] * 2 + 1, a.shape[1] * 2 + 1), 7, dtype=a.dtype)
            big[1::2, 1::2] = a
            return big[1::2, 1::2]
        if how == "neg":
            return numpy.ascontiguousarray(a[::-1, ::-1])[::-1, ::-1]
        if how == "ro":
            b = a.copy()
            b.setflags(write=False)
            return b
        return a

    def _mk_bvm(self, m, bv, Y, taxa, grp, trait):
        """a breeding value matrix holding the responses Y with the location / scale the case prescribes"""
        tx = None if taxa is None else numpy.array(taxa, dtype=object)
        gp = None if grp is None else numpy.array(grp, dtype=int)
        if bv is None:
            return m.BVM.from_numpy(Y.copy(), taxa=tx, taxa_grp=gp, trait=trait)
        t = Y.shape[1]
        mat = _farr(bv["mat"], t)
        loc = numpy.array([_f(v) for v in bv["loc"]], dtype=float)
        sc = numpy.array([_f(v) for v in bv["scale"]], dtype=float)
        how = bv["how"]
        if how == "raw":          # the constructor defaults: raw values, location 0, scale 1
            return m.BVM(mat, taxa=tx, taxa_grp=gp, trait=trait)
        if how == "scalar":
            return m.BVM(mat, location=float(loc[0]), scale=float(sc[0]), taxa=tx, taxa_grp=gp, trait=trait)
        if how == "assign":       # built from other data, then re-assigned through the public setters
            b = m.BVM.from_numpy(Y[::-1, :] * 3.0 + 1.0, taxa=tx, taxa_grp=gp, trait=trait)
            b.mat = mat
            b.location = loc
            b.scale = sc
            return b
        return m.BVM(mat, location=loc, scale=sc, taxa=tx, taxa_grp=gp, trait=trait)

    def _run_lin(self, case):
        m = _mods()
        ploidy, t = case["ploidy"], case["t"]
        opts = case.get("opts") or {}
        lay = opts.get("layout")
        g = case["g"]
        n, p = len(g[0]), len(case["ua"])
        L = self._layout
        beta = L(_farr(case["beta"], t), lay)
        ua = L(_farr(case["ua"], t), lay)
        ud = None if case["ud"] is None else L(_farr(case["ud"], t), lay)
        trait = None if opts.get("trait_none") else numpy.array(["trait%d" % k for k in range(t)], dtype=object)
        X = L(_farr(case["X"], beta.shape[0]), lay)
        Y = L(_farr(case["Y"], t), lay)
        pg, ug, raw = self._mk_geno(m, g, case["taxa"], case["grp"], ploidy)
        if lay == "F":
            pg = m.PGM(numpy.asfortranarray(pg.mat), taxa=pg.taxa, taxa_grp=pg.taxa_grp)
            ug = m.GM(numpy.asfortranarray(ug.mat), taxa=ug.taxa, taxa_grp=ug.taxa_grp, ploidy=ploidy)
        if lay == "int8":
            raw = raw.astype("int8")
        elif lay == "float":
            raw = raw.astype(float)
        else:
            raw = L(raw, lay)
        snap = (pg.mat.copy(), ug.mat.copy(), raw.copy(), beta.copy(), ua.copy(), X.copy(), Y.copy())
        ADDC = m.RR if opts.get("cls") == "RR" else m.ADD
        add = ADDC(beta=beta, u_misc=None, u_a=ua, trait=trait)
        perm = case["perm"]
        pgp, ugp, rawp = self._mk_geno(m, _gperm(g, perm), _take(case["taxa"], perm), _take(case["grp"], perm), ploidy)
        obs = {"views": {}, "stats": {}}
        V = obs["views"]
        V["gebv_phased"] = _bv(add.gebv(pg))
        V["gebv_unphased"] = _bv(add.gebv(ug))
        V["gebv_raw"] = _bv(add.gebv(raw))
        V["gebv_tbv"] = _bv(m.TBV(add).estimate(None, pg))
        V["gebv_baseclass"] = _bv(m.LIN.gebv(add, pg))
        V["gegv_additive"] = _bv(add.gegv(ug))
        V["gebv_perm"] = _bv(add.gebv(pgp))
        V["gebv_numpy"] = {"mat": canon.enc(add.gebv_numpy(raw.astype(float)))}
        V["predict_phased"] = _bv(add.predict(X, pg))
        V["predict_raw"] = _bv(add.predict(X, raw))
        V["predict_perm"] = _bv(add.predict(X[perm, :], ugp))
        # TrueBreedingValue.estimate with phenotype records: the rows are still the genotype input's
        pt = opts.get("pt")
        if pt is not None:
            if pt == "ndarray":
                ptobj = Y.copy()
            elif pt == "df":
                import pandas
                ptobj = pandas.DataFrame({"taxa": ["r%d" % i for i in range(n)][::-1],
                                          **{"y%d" % k: Y[:, k] for k in range(t)}})
            else:
                order = list(range(n))[::-1] if n > 1 else [0]
                if perm != list(range(n)) and pt == "bvm_perm":
                    order = perm
                names = case["taxa"] if case["taxa"] is not None else ["tx%02d" % i for i in range(n)]
                if pt == "bvm_relabel":
                    names = ["other%02d" % i for i in range(n)]
                pgrp = case["grp"] if case["grp"] is not None else list(range(10, 10 + n))
                ptobj = m.BVM.from_numpy(Y[order, :].copy(), taxa=numpy.array(_take(names, order), dtype=object),
                                         taxa_grp=numpy.array(_take(pgrp, order), dtype=int), trait=trait)
            V["gebv_tbv_pt"] = _bv(m.TBV(add).estimate(ptobj, pg))
            V["gebv_tbv_pt_unphased"] = _bv(m.TBV(add).estimate(ptobj, ug))
        # marker partition through the public API: one sub-model per block, intercept in the first only
        bounds = [0] + list(case["cuts"]) + [p]
        parts = []
        for bi in range(len(bounds) - 1):
            a, b = bounds[bi], bounds[bi + 1]
            sub = m.ADD(beta=beta if bi == 0 else numpy.zeros_like(beta), u_misc=None, u_a=ua[a:b, :].copy(), trait=trait)
            gsub = m.GM(ug.mat[:, a:b].copy(), taxa=ug.taxa, taxa_grp=ug.taxa_grp, ploidy=ploidy)
            parts.append(_bv(sub.gebv(gsub)))
        V["gebv_parts"] = {"mat": _fsum([x["mat"] for x in parts]), "taxa": parts[0]["taxa"], "grp": parts[0]["grp"],
                           "trait": parts[0]["trait"]}
        S = obs["stats"]
        S["var_A"] = canon.enc(add.var_A(pg))
        S["var_G_add"] = canon.enc(add.var_G(ug))
        S["var_A_raw"] = canon.enc(add.var_A(raw))
        S["var_a"] = canon.enc(add.var_a(pg))
        S["var_a_raw"] = canon.enc(add.var_a(raw, ploidy))
        S["var_a_baseclass"] = canon.enc(m.LIN.var_a(add, ug))
        S["afreq"] = canon.enc(pg.afreq())
        S["bulmer"] = canon.enc(add.bulmer(pg))
        S["bulmer_raw"] = canon.enc(add.bulmer(raw, ploidy))
        S["score"] = canon.enc(add.score(Y, X, pg))
        S["score_raw"] = canon.enc(add.score(Y, X, raw))
        bvm = self._mk_bvm(m, opts.get("bv"), Y, case["taxa"], case["grp"], trait)
        S["score_bvm"] = canon.enc(add.score(bvm, X, pg))
        S["score_bvm_raw"] = canon.enc(add.score(bvm, X, raw))
        obs["bvm"] = {"mat": canon.enc(bvm.mat), "loc": canon.enc(bvm.location), "scale": canon.enc(bvm.scale)}
        obs["bvm_holds_Y"] = self._cl(canon.enc(bvm.unscale()), case["Y"])
        A = raw.astype(float)
        if opts.get("direct"):
            pfreq = pg.afreq()
            V["gebv_numpy_int8"] = {"mat": canon.enc(add.gebv_numpy(raw.astype("int8")))}
            V["gegv_numpy_add"] = {"mat": canon.enc(add.gegv_numpy(A))}
            V["predict_numpy"] = {"mat": canon.enc(add.predict_numpy(X, A))}
            V["predict_baseclass"] = _bv(m.LIN.predict(add, X, pg))
            S["var_A_numpy"] = canon.enc(add.var_A_numpy(A))
            S["var_G_numpy"] = canon.enc(add.var_G_numpy(A))
            S["var_a_numpy"] = canon.enc(add.var_a_numpy(pfreq, ploidy))
            S["bulmer_numpy"] = canon.enc(add.bulmer_numpy(A, pfreq, ploidy))
            S["score_numpy"] = canon.enc(add.score_numpy(Y, X, A))
            S["score_baseclass"] = canon.enc(m.LIN.score(add, Y, X, pg))
            S["score_baseclass_bvm"] = canon.enc(m.LIN.score(add, bvm, X, ug))
            S["var_A_baseclass"] = canon.enc(m.LIN.var_A(add, pg))
            S["var_G_baseclass"] = canon.enc(m.LIN.var_G(add, ug))
            S["bulmer_baseclass"] = canon.enc(m.LIN.bulmer(add, pg))
            S["bulmer_numpy_baseclass"] = canon.enc(m.LIN.bulmer_numpy(add, A, pfreq, ploidy))
            V["gebv_numpy_baseclass"] = {"mat": canon.enc(m.LIN.gebv_numpy(add, A))}
            V["predict_numpy_baseclass"] = {"mat": canon.enc(m.LIN.predict_numpy(add, X, A))}
            S["var_a_numpy_baseclass"] = canon.enc(m.LIN.var_a_numpy(add, pfreq, ploidy))
            S["score_numpy_baseclass"] = canon.enc(m.LIN.score_numpy(add, Y, X, A))
            S["var_A_numpy_baseclass"] = canon.enc(m.LIN.var_A_numpy(add, A))
            V["gebv_tbv_raw"] = _bv(m.TBV(add).estimate(Y, raw))
            # models produced by the factories / copies: judged with THEIR OWN coefficients
            fac = []
            for tag, mk in (("pandas", lambda o: type(o).from_pandas_dict(o.to_pandas_dict())),
                            ("copy", lambda o: o.copy()), ("deepcopy", lambda o: copy.deepcopy(o))):
                o2 = mk(add)
                fac.append({"name": "gebv_" + tag, "mode": "gebv", "beta": canon.enc(o2.beta), "ua": canon.enc(o2.u_a),
                            "ud": None, "view": _bv(o2.gebv(pg))})
            obs["factory"] = fac
            # a dominance model without dominance effects (u_d = None -> zeros) is the additive model
            dz = m.DOM(beta=beta, u_misc=None, u_a=ua, u_d=None, trait=trait)
            V["gegv_ud_none"] = _bv(dz.gegv(pg))
            S["var_G_ud_none"] = canon.enc(dz.var_G(ug))
        if ud is not None:
            dom = m.DOM(beta=beta, u_misc=None, u_a=ua, u_d=ud, trait=trait)
            V["gegv_phased"] = _bv(dom.gegv(pg))
            V["gegv_unphased"] = _bv(dom.gegv(ug))
            if ploidy == 2:
                V["gegv_raw"] = _bv(dom.gegv(raw))
                V["predict_dom_raw"] = _bv(dom.predict(X, raw))
                S["var_G_raw"] = canon.enc(dom.var_G(raw))
                S["score_dom_raw"] = canon.enc(dom.score(Y, X, raw))
            V["gegv_perm"] = _bv(dom.gegv(ugp))
            V["gebv_dom"] = _bv(dom.gebv(pg))
            V["predict_dom"] = _bv(dom.predict(X, pg))
            parts = []
            for bi in range(len(bounds) - 1):
                a, b = bounds[bi], bounds[bi + 1]
                sub = m.DOM(beta=beta if bi == 0 else numpy.zeros_like(beta), u_misc=None, u_a=ua[a:b, :].copy(),
                            u_d=ud[a:b, :].copy(), trait=trait)
                gsub = m.PGM(pg.mat[:, :, a:b].copy(), taxa=pg.taxa, taxa_grp=pg.taxa_grp)
                parts.append(_bv(sub.gegv(gsub)))
            V["gegv_parts"] = {"mat": _fsum([x["mat"] for x in parts]), "taxa": parts[0]["taxa"],
                               "grp": parts[0]["grp"], "trait": parts[0]["trait"]}
            S["var_G"] = canon.enc(dom.var_G(pg))
            S["var_G_unphased"] = canon.enc(dom.var_G(ug))
            S["var_A_dom"] = canon.enc(dom.var_A(pg))
            S["score_dom"] = canon.enc(dom.score(Y, X, ug))
            S["score_dom_bvm"] = canon.enc(dom.score(bvm, X, pg))
            S["var_a_dom"] = canon.enc(dom.var_a(pg))
            S["bulmer_dom"] = canon.enc(dom.bulmer(ug))
            if opts.get("direct"):
                D = numpy.logical_and(raw != 0, raw != ploidy).astype(float)
                Zd = numpy.concatenate([A, D], axis=1)
                V["predict_numpy_dom"] = {"mat": canon.enc(dom.predict_numpy(X, Zd))}
                S["var_G_numpy_dom"] = canon.enc(dom.var_G_numpy(Zd))
                S["score_numpy_dom"] = canon.enc(dom.score_numpy(Y, X, Zd))
                S["bulmer_numpy_dom"] = canon.enc(dom.bulmer_numpy(A, pg.afreq(), ploidy))
                for tag, mk in (("pandas", lambda o: type(o).from_pandas_dict(o.to_pandas_dict())),
                                ("deepcopy", lambda o: o.deepcopy())):
                    o2 = mk(dom)
                    obs["factory"].append({"name": "gegv_" + tag, "mode": "gegv", "beta": canon.enc(o2.beta),
                                           "ua": canon.enc(o2.u_a), "ud": canon.enc(o2.u_d), "view": _bv(o2.gegv(ug))})
        obs["inputs_untouched"] = bool((snap[0] == pg.mat).all() and (snap[1] == ug.mat).all()
                                       and (snap[2] == raw).all() and (snap[3] == beta).all() and (snap[4] == ua).all()
                                       and (snap[5] == X).all() and (snap[6] == Y).all())
        obs["trait"] = None if trait is None else [str(x) for x in trait]
        return obs

    def _run_big(self, case):
        m = _mods()
        t = case["t"]
        g = case["g"]
        n, p = len(g[0]), len(case["ua"])
        beta = _farr(case["beta"], t)
        ua = _farr(case["ua"], t)
        trait = numpy.array(["trait%d" % k for k in range(t)], dtype=object)
        pg, ug, raw = self._mk_geno(m, g, case["taxa"], case["grp"], 2)
        raw8 = raw.astype("int8")
        A = raw.astype(float)
        X = numpy.ones((n, 1))
        add = m.ADD(beta=beta, u_misc=None, u_a=ua, trait=trait)
        V, S = {}, {}
        V["gebv_phased"] = _bv(add.gebv(pg))
        V["gebv_unphased"] = _bv(add.gebv(ug))
        V["gebv_raw"] = _bv(add.gebv(raw8))
        V["gebv_raw_float"] = _bv(add.gebv(A))
        V["gebv_numpy_int8"] = {"mat": canon.enc(add.gebv_numpy(raw8))}
        V["gebv_numpy"] = {"mat": canon.enc(add.gebv_numpy(A))}
        V["predict_phased"] = _bv(add.predict(X, pg))
        S["var_A"] = canon.enc(add.var_A(pg))
        S["var_A_raw"] = canon.enc(add.var_A(raw8))
        S["var_a"] = canon.enc(add.var_a(pg))
        S["bulmer"] = canon.enc(add.bulmer(ug))
        S["var_a_raw"] = canon.enc(add.var_a(raw8, 2))          # column sums of an int8 array beyond 127
        S["bulmer_raw"] = canon.enc(add.bulmer(raw8, 2))
        if case["ud"] is not None:
            dom = m.DOM(beta=beta, u_misc=None, u_a=ua, u_d=_farr(case["ud"], t), trait=trait)
            V["gegv_phased"] = _bv(dom.gegv(pg))
            V["gegv_raw"] = _bv(dom.gegv(raw8))
            S["var_G"] = canon.enc(dom.var_G(ug))
        return {"views": V, "stats": S, "trait": [str(x) for x in trait], "inputs_untouched": True}

    _ALLELE_FNS = ("facount fafreq faavail fafixed fapoly nafixed napoly dacount dafreq daavail dafixed dapoly").split()

    _FLAG_FNS = ("faavail", "fafixed", "fapoly", "nafixed", "napoly", "daavail", "dafixed", "dapoly")

    def _run_alleles(self, case):
        m = _mods()
        ploidy = case["ploidy"]
        opts = case.get("opts") or {}
        ua = _farr(case["ua"], len(case["ua"][0]))
        if opts.get("negzero"):
            ua[ua == 0.0] = -0.0
        beta = numpy.zeros((1, ua.shape[1]))
        cls = opts.get("cls")
        if cls == "RR":
            add = m.RR(beta=beta, u_misc=None, u_a=ua, trait=None)
        elif cls == "DOM":
            add = m.DOM(beta=beta, u_misc=None, u_a=ua, u_d=None, trait=None)
        else:
            add = m.ADD(beta=beta, u_misc=None, u_a=ua, trait=None)
        pg, ug, _ = self._mk_geno(m, case["g"], None, None, ploidy)
        obs = {"phased": {}, "unphased": {}}
        for fn in self._ALLELE_FNS:
            obs["phased"][fn] = canon.enc(getattr(add, fn)(pg))
            obs["unphased"][fn] = canon.enc(getattr(add, fn)(ug))
        dt = opts.get("dtype")
        if dt:
            d = {}
            for fn in self._ALLELE_FNS:
                if fn in ("facount", "dacount"):
                    out = getattr(add, fn)(pg, dtype=dt["count"])
                    d[fn] = canon.enc(out.astype("int64"))
                elif fn in self._FLAG_FNS:
                    out = getattr(add, fn)(ug, dtype=bool if dt["flag"] == "bool" else dt["flag"])
                    d[fn] = canon.enc(out != 0)
                else:
                    d[fn] = canon.enc(getattr(add, fn)(pg, dtype="float64"))
            obs["dtyped"] = d
        return obs

    def _run_gs(self, case):
        m = _mods()
        A = _farr(case["A"], len(case["b"]))
        b = numpy.array([_f(v) for v in case["b"]], dtype=float)
        x = m.rr.gauss_seidel(A, b, _f(case["atol"]), case["maxiter"])
        return {"x": canon.enc(x)}

    def _run_ml0(self, case):
        m = _mods()
        Z = numpy.array(case["Z"], dtype=float)
        y = numpy.array([_f(v) for v in case["y"]], dtype=float)
        kw = {} if "gsatol" not in case else {"gsatol": _f(case["gsatol"])}
        out = m.rr.rrBLUP_ML0(y, Z, gsmaxiter=case["maxiter"], **kw)
        ridge = m.rr.rrBLUP_ML0_calc_ridge(out["varE"], out["varU"])
        return {"betahat": canon.enc(out["betahat"]), "uhat": canon.enc(out["uhat"]), "ridge": canon.enc(ridge),
                "yhat": canon.enc(out["yhat"])}

    def _run_fit(self, case):
        m = _mods()
        opts = case.get("opts") or {}
        Z = numpy.array(case["Z"], dtype=float)
        t = len(case["Y"][0])
        Y = _farr(case["Y"], t)
        lay = opts.get("layout")
        if lay == "int":
            Z = numpy.array(case["Z"], dtype="int64")
        else:
            Z = self._layout(Z, lay)
            Y = self._layout(Y, lay)
        snap = (Z.copy(), Y.copy())
        rec = []
        inner = m.rr.rrBLUP_ML0

        def recorder(*a, **k):
            out = inner(*a, **k)
            rec.append({"ridge": canon.enc(m.rr.rrBLUP_ML0_calc_ridge(out["varE"], out["varU"])),
                        "uhat": canon.enc(out["uhat"])})
            return out
        m.rr.rrBLUP_ML0 = recorder
        try:
            if case.get("via") == "fit":
                Zi = numpy.array(case["Z"], dtype="int8")
                if opts.get("phased"):       # a phased matrix with the same dosages
                    gmat = m.PGM(numpy.stack([(Zi >= 1).astype("int8"), (Zi >= 2).astype("int8")]))
                else:
                    gmat = m.GM(Zi, ploidy=2)
                mod = m.RR.fit(Y, None, gmat)
            elif case.get("via") == "fit_bvm":     # phenotypes handed over as a breeding value matrix
                gmat = m.GM(numpy.array(case["Z"], dtype="int8"), ploidy=2)
                bvm = self._mk_bvm(m, opts.get("bv"), Y, None, None, None)
                mod = m.RR.fit(bvm, None, gmat)
            else:
                mod = m.RR.fit_numpy(Y, None, Z)
        finally:
            m.rr.rrBLUP_ML0 = inner
        return {"beta": canon.enc(mod.beta), "u_a": canon.enc(mod.u_a), "ridges": [r["ridge"] for r in rec],
                "sols": [r["uhat"] for r in rec], "class": type(mod).__name__,
                "training_data_untouched": bool((snap[0] == Z).all() and (snap[1] == Y).all())}

    def _fit_recorded(self, m, caller, Y, Z):
        rec = []
        inner = m.rr.rrBLUP_ML0

        def recorder(*a, **k):
            out = inner(*a, **k)
            rec.append({"ridge": canon.enc(m.rr.rrBLUP_ML0_calc_ridge(out["varE"], out["varU"])),
                        "uhat": canon.enc(out["uhat"])})
            return out
        m.rr.rrBLUP_ML0 = recorder
        try:
            mod = caller.fit_numpy(Y, None, Z)
        finally:
            m.rr.rrBLUP_ML0 = inner
        return mod, [r["ridge"] for r in rec], [r["uhat"] for r in rec]

    def _run_refit(self, case):
        m = _mods()
        t = len(case["Y1"][0])
        Z1 = numpy.array(case["Z1"], dtype=float)
        Z2 = numpy.array(case["Z2"], dtype=float)
        Y1, Y2 = _farr(case["Y1"], t), _farr(case["Y2"], t)
        snap = (Z1.copy(), Y1.copy())
        m1, rid1, sol1 = self._fit_recorded(m, m.RR, Y1, Z1)
        first = {"beta": canon.enc(m1.beta), "u_a": canon.enc(m1.u_a), "ridges": rid1, "sols": sol1}
        g1 = m.GM(numpy.array(case["Z1"], dtype="int8"), ploidy=2)
        g2 = m.GM(numpy.array(case["Z2"], dtype="int8"), ploidy=2)
        gebv1_before = canon.enc(m1.gebv(g1).unscale())
        m2, rid2, sol2 = self._fit_recorded(m, m1, Y2, Z2)          # refit THROUGH the fitted object
        second = {"beta": canon.enc(m2.beta), "u_a": canon.enc(m2.u_a), "ridges": rid2, "sols": sol2,
                  "class": type(m2).__name__}
        obs = {"first": first, "second": second,
               "first_after": {"beta": canon.enc(m1.beta), "u_a": canon.enc(m1.u_a)},
               "gebv1_before": gebv1_before, "gebv1_after": canon.enc(m1.gebv(g1).unscale()),
               "gebv2": canon.enc(m2.gebv(g2).unscale()),
               "predict2": canon.enc(m2.predict(numpy.ones((Z2.shape[0], 1)), g2).unscale()),
               "distinct_objects": m2 is not m1,
               "shares_memory": bool(numpy.shares_memory(m1.u_a, m2.u_a) or numpy.shares_memory(m1.beta, m2.beta)),
               "training_data_untouched": bool((snap[0] == Z1).all() and (snap[1] == Y1).all())}
        # assigning to the first object must not leak into the second
        m1.u_a = numpy.full_like(m1.u_a, 7.0)
        m1.beta = numpy.full_like(m1.beta, -3.0)
        obs["second_after_setters"] = {"beta": canon.enc(m2.beta), "u_a": canon.enc(m2.u_a)}
        obs["gebv2_after_setters"] = canon.enc(m2.gebv(g2).unscale())
        return obs

    def _query(self, m, add, dom, case, pg, ug, raw, X, Y, Zm):
        """every prediction / statistics / allele entry point of the SAME model objects"""
        ploidy = case["ploidy"]
        n, q = X.shape
        misc = Zm is not None
        A = raw.astype(float)
        Xs = numpy.empty((n, q), dtype=float)
        Xs[:, 0] = 1
        Xs[:, 1:] = 1 / q
        V, S = {}, {}
        V["gebv_phased"] = _bv(add.gebv(pg))
        V["gebv_raw"] = _bv(add.gebv(raw))
        V["gebv_tbv"] = _bv(m.TBV(add).estimate(None, pg))
        V["gegv_additive"] = _bv(add.gegv(ug))
        V["gebv_numpy"] = {"mat": canon.enc(add.gebv_numpy(A))}
        Za = A if not misc else numpy.concatenate([Zm, A], axis=1)
        V["predict_numpy_misc"] = {"mat": canon.enc(add.predict_numpy(X, Za))}
        S["score_numpy_misc"] = canon.enc(add.score_numpy(Y, X, Za))
        S["var_A"] = canon.enc(add.var_A(pg))
        S["var_G_add"] = canon.enc(add.var_G(ug))
        S["var_a"] = canon.enc(add.var_a(pg))
        S["bulmer"] = canon.enc(add.bulmer(pg))
        if not misc:
            V["gebv_baseclass"] = _bv(m.LIN.gebv(add, pg))
            V["predict_phased"] = _bv(add.predict(X, pg))
            V["predict_raw"] = _bv(add.predict(X, raw))
            V["predict_xstar"] = _bv(add.predict(Xs, pg))          # must equal gebv on the same object
            S["score"] = canon.enc(add.score(Y, X, pg))
            S["var_a_baseclass"] = canon.enc(m.LIN.var_a(add, ug))
        if dom is not None:
            D = numpy.logical_and(raw != 0, raw != ploidy).astype(float)
            Zd = numpy.concatenate(([Zm] if misc else []) + [A, D], axis=1)
            V["gegv_phased"] = _bv(dom.gegv(pg))
            V["gegv_unphased"] = _bv(dom.gegv(ug))
            V["gebv_dom"] = _bv(dom.gebv(pg))
            V["predict_numpy_dom_misc"] = {"mat": canon.enc(dom.predict_numpy(X, Zd))}
            S["score_numpy_dom_misc"] = canon.enc(dom.score_numpy(Y, X, Zd))
            S["var_G"] = canon.enc(dom.var_G(pg))
            S["var_A_dom"] = canon.enc(dom.var_A(pg))
            if not misc:
                V["predict_dom"] = _bv(dom.predict(X, pg))
                V["predict_dom_xstar"] = _bv(dom.predict(Xs, ug))  # must equal gegv on the same object
                S["score_dom"] = canon.enc(dom.score(Y, X, ug))
        al = {fn: canon.enc(getattr(add, fn)(pg)) for fn in self._ALLELE_FNS}
        try:        # predict(cvobj, GenotypeMatrix) passes only the dosage columns: shape check with u_misc
            add.predict(X, pg)
            rej = False
        except ValueError:
            rej = True
        return {"views": V, "stats": S, "alleles": al, "predict_gm_rejects": rej}

    @staticmethod
    def _stage_params(case):
        """parameters (and genotypes) in force after 0, 1, 2, ... steps"""
        cur = {"beta": case["beta"], "u_a": case["ua"], "u_d": case["ud"], "u_misc": case["um"],
               "trait": ["trait%d" % k for k in range(case["t"])], "g": case["g"]}
        out = [dict(cur)]
        for st in case["steps"]:
            w = st["set"]
            if w in ("u_a_inplace", "u_d_inplace", "beta_inplace"):
                key = w[:-len("_inplace")]
                if cur[key] is not None:
                    mat = [list(r) for r in cur[key]]
                    mat[st["j"]][st["k"]] = st["value"]
                    cur[key] = mat
            elif w == "geno_flip":
                g = [[list(r) for r in ph] for ph in cur["g"]]
                g[st["ph"]][st["i"]][st["j"]] = 1 - g[st["ph"]][st["i"]][st["j"]]
                cur["g"] = g
            elif w in ("copy_mutate", "out_mutate"):
                pass                      # must not change anything
            else:
                cur[w] = st["value"]
            out.append(dict(cur))
        return out

    def _run_requery(self, case):
        m = _mods()
        t = case["t"]
        obj = lambda names: numpy.array(names, dtype=object)
        pg, ug, raw = self._mk_geno(m, case["g"], case["taxa"], case["grp"], case["ploidy"])
        X = _farr(case["X"], len(case["beta"]))
        Y = _farr(case["Y"], t)
        Zm = None if case["um"] is None else _farr(case["Zm"], len(case["um"]))
        st0 = self._stage_params(case)[0]
        um = None if case["um"] is None else _farr(case["um"], t)
        add = m.ADD(beta=_farr(case["beta"], t), u_misc=um, u_a=_farr(case["ua"], t), trait=obj(st0["trait"]))
        dom = None
        if case["ud"] is not None:
            dom = m.DOM(beta=_farr(case["beta"], t), u_misc=None if um is None else um.copy(),
                        u_a=_farr(case["ua"], t), u_d=_farr(case["ud"], t), trait=obj(st0["trait"]))
        stages = [self._query(m, add, dom, case, pg, ug, raw, X, Y, Zm)]
        for st in case["steps"]:
            w = st["set"]
            if w in ("u_a_inplace", "u_d_inplace", "beta_inplace"):
                for mod in (add, dom):
                    if mod is None or (w == "u_d_inplace" and mod is add):
                        continue
                    getattr(mod, w[:-len("_inplace")])[st["j"], st["k"]] = _f(st["value"])   # no setter call
            elif w == "geno_flip":
                ph, i, j = st["ph"], st["i"], st["j"]
                old = int(pg.mat[ph, i, j])
                pg.mat[ph, i, j] = 1 - old
                ug.mat[i, j] += (1 - old) - old
                raw[i, j] += (1 - old) - old
            elif w == "copy_mutate":
                for mod in (add, dom):
                    if mod is None:
                        continue
                    for c in (mod.deepcopy(), mod.copy(), copy.deepcopy(mod)):
                        c.u_a[...] = 9.0
                        c.beta[...] = -7.0
                        c.u_a = numpy.full_like(c.u_a, 3.0)
                        if mod is dom:
                            c.u_d[...] = 5.0
            elif w == "out_mutate":
                A = raw.astype(float)
                outs = [add.gebv(pg).mat, add.gebv_numpy(A), add.var_A(pg), add.var_a(pg), add.predict(X, pg).mat
                        if Zm is None else add.gebv(ug).mat, add.facount(pg), add.bulmer(pg)]
                if dom is not None:
                    outs += [dom.gegv(pg).mat, dom.var_G(ug), dom.gebv(ug).mat]
                for o in outs:
                    o[...] = 77
            else:
                for mod in (add, dom):
                    if mod is None or (w == "u_d" and mod is add):
                        continue
                    val = obj(st["value"]) if w == "trait" else _farr(st["value"], t)
                    setattr(mod, w, val)             # the public setter
            stages.append(self._query(m, add, dom, case, pg, ug, raw, X, Y, Zm))
        return {"stages": stages}

    def run_impl(self, case):
        return getattr(self, "_run_" + case["kind"])(case)

    # ------------------------------------------------------------------ model / Spec requests
    _VIEW_MODE = {
        "gebv_phased": "gebv", "gebv_unphased": "gebv", "gebv_raw": "gebv", "gebv_tbv": "gebv",
        "gebv_baseclass": "gebv", "gegv_additive": "gebv", "gebv_perm": "gebv", "gebv_numpy": "gebv_numpy",
        "predict_phased": "predict", "predict_raw": "predict", "predict_perm": "predict", "gebv_parts": "gebv",
        "gegv_phased": "gegv", "gegv_unphased": "gegv", "gegv_raw": "gegv", "gegv_perm": "gegv",
        "gebv_dom": "gebv", "predict_dom": "predict_dom", "predict_dom_raw": "predict_dom", "gegv_parts": "gegv",
        # round 4
        "gebv_tbv_pt": "gebv", "gebv_tbv_pt_unphased": "gebv", "gebv_numpy_int8": "gebv_numpy",
        "gegv_numpy_add": "gebv_numpy", "predict_numpy": "predict", "predict_baseclass": "predict",
        "gegv_ud_none": "gebv", "predict_numpy_dom": "predict_dom", "gebv_raw_float": "gebv", "gebv_tbv_raw": "gebv",
        "gebv_numpy_baseclass": "gebv_numpy", "predict_numpy_baseclass": "predict",
    }
    _UNLABELLED = {"gebv_raw", "predict_raw", "gegv_raw", "predict_dom_raw", "gebv_raw_float", "gebv_tbv_raw"}
    _NOLABELS = {"gebv_numpy", "gebv_numpy_int8", "gegv_numpy_add", "predict_numpy", "predict_numpy_dom",
                 "gebv_numpy_baseclass", "predict_numpy_baseclass"}
    _PERMUTED = {"gebv_perm", "predict_perm", "gegv_perm"}
    # plain numpy outputs on dyadic data: every intermediate is representable, the float IS the rational
    _EXACT = {"gebv_numpy", "gebv_numpy_int8", "gegv_numpy_add", "predict_numpy", "predict_numpy_dom",
              "gebv_numpy_baseclass", "predict_numpy_baseclass"}

    # statistic variant -> (name of the definition in GSpec.statDef, key of the model output)
    _STAT = {
        "var_A": ("var_A", "var_A"), "var_G_add": ("var_A", "var_A"), "var_A_raw": ("var_A", "var_A"),
        "var_a": ("var_a", "var_a"), "var_a_raw": ("var_a", "var_a"), "var_a_baseclass": ("var_a", "var_a"),
        "afreq": ("afreq", "afreq"), "bulmer": ("bulmer", "bulmer"), "bulmer_raw": ("bulmer", "bulmer"),
        "score": ("score", "score"), "score_raw": ("score", "score"), "var_G": ("var_G", "var_G"),
        "var_G_unphased": ("var_G", "var_G"), "var_A_dom": ("var_A", "var_A"), "score_dom": ("score_dom", "score_dom"),
        "score_bvm": ("score", "score_bv"), "score_dom_bvm": ("score_dom", "score_dom"), "var_a_dom": ("var_a", "var_a"),
        "bulmer_dom": ("bulmer", "bulmer"),
        # round 4
        "score_bvm_raw": ("score", "score_bv"), "var_A_numpy": ("var_A", "var_A"), "var_G_numpy": ("var_A", "var_A"),
        "var_a_numpy": ("var_a", "var_a"), "bulmer_numpy": ("bulmer", "bulmer"), "score_numpy": ("score", "score"),
        "score_baseclass": ("score", "score"), "score_baseclass_bvm": ("score", "score_bv"),
        "var_A_baseclass": ("var_A", "var_A"), "var_G_baseclass": ("var_A", "var_A"),
        "bulmer_baseclass": ("bulmer", "bulmer"), "bulmer_numpy_baseclass": ("bulmer", "bulmer"),
        "var_G_ud_none": ("var_A", "var_A"), "var_G_raw": ("var_G", "var_G"), "score_dom_raw": ("score_dom", "score_dom"),
        "var_G_numpy_dom": ("var_G", "var_G"), "score_numpy_dom": ("score_dom", "score_dom"),
        "bulmer_numpy_dom": ("bulmer", "bulmer"), "var_a_numpy_baseclass": ("var_a", "var_a"),
        "score_numpy_baseclass": ("score", "score"), "var_A_numpy_baseclass": ("var_A", "var_A"),
    }

    def _views(self, case, obs):
        perm = case.get("perm") or list(range(len(case["g"][0])))
        gp = _gperm(case["g"], perm)
        X = case.get("X") or [[1] for _ in case["g"][0]]
        Xp = [X[i] for i in perm]
        out = []
        for name in sorted(obs["views"]):
            v = obs["views"][name]
            permuted = name in self._PERMUTED
            d = {"mode": self._VIEW_MODE[name], "g": gp if permuted else case["g"],
                 "X": Xp if permuted else X, "out": v["mat"], "name": name}
            if name in self._EXACT:
                d["exact"] = True
            if name in self._NOLABELS:
                d.update({"labelled": False, "taxa_out": None, "grp_out": None})
            else:
                d.update({"labelled": name not in self._UNLABELLED,
                          "taxa_in": _take(case["taxa"], perm) if permuted else case["taxa"],
                          "grp_in": _take(case["grp"], perm) if permuted else case["grp"],
                          "taxa_out": v["taxa"], "grp_out": v["grp"]})
            out.append(d)
        return out

    def _stat_rounds(self, stats):
        """every observed variant of every statistic goes to the Lean Spec: round r carries the r-th variant of
        each definition (the op evaluates one value per definition name)"""
        by_def = {}
        for name in sorted(stats):
            by_def.setdefault(self._STAT[name][0], []).append(name)
        rounds = []
        r = 0
        while True:
            d = {dn: names[r] for dn, names in by_def.items() if r < len(names)}
            if not d:
                break
            rounds.append(d)
            r += 1
        return rounds

    @staticmethod
    def _nonfinite(obs, keys):
        def bad(x):
            if isinstance(x, list):
                return any(bad(v) for v in x)
            return x in ("nan", "inf", "-inf")
        return any(bad(obs.get(k)) for k in keys)

    _FINITE_KEYS = {"gs": ("x",), "ml0": ("betahat", "uhat", "ridge"), "fit": ("beta", "u_a", "ridges", "sols")}

    def _refit_requests(self, case, obs):
        reqs = []
        for Zk, Yk, ok in (("Z1", "Y1", "first"), ("Z2", "Y2", "second")):
            Z, Y, o = case[Zk], case[Yk], obs[ok]
            p, t = len(Z[0]), len(Y[0])
            reqs.append({"op": "c04.fitwrap", "Y": Y, "Z": Z, "p": p, "t": t, "sols": o["sols"]})
            reqs.append({"op": "c04.spec_fit", "Y": Y, "Z": Z, "p": p, "t": t, "ridges": o["ridges"],
                         "atol": canon.enc(Fraction(ATOL)), "reltol": canon.enc(RELTOL), "beta": o["beta"],
                         "u_a": o["u_a"], "check_normal_eq": True})
        # the prediction path of the fitted objects: GEBV = fitted intercept + Z · fitted effects
        for Zk, ok, views in (("Z1", "first", ("gebv1_before", "gebv1_after")),
                              ("Z2", "second", ("gebv2", "predict2", "gebv2_after_setters"))):
            g = [case[Zk]]                      # one "phase" carrying the dosage
            vs = [{"mode": "gebv", "g": g, "out": obs[v], "name": v, "labelled": False,
                   "taxa_out": None, "grp_out": None} for v in views]
            reqs.append({"op": "c04.spec_values", "beta": obs[ok]["beta"], "ua": obs[ok]["u_a"],
                         "t": len(obs[ok]["beta"][0]), "ploidy": 2, "views": vs})
        return reqs

    _RQ_MODE = {"gebv_phased": "gebv", "gebv_raw": "gebv", "gebv_tbv": "gebv", "gegv_additive": "gebv",
                "gebv_numpy": "gebv_numpy", "gebv_baseclass": "gebv", "predict_phased": "predict",
                "predict_raw": "predict", "predict_xstar": "gebv", "gegv_phased": "gegv", "gegv_unphased": "gegv",
                "gebv_dom": "gebv", "predict_dom": "predict_dom", "predict_dom_xstar": "gegv",
                "predict_numpy_misc": "predict", "predict_numpy_dom_misc": "predict_dom"}
    _RQ_MODELKEY = {"gebv": "gebv", "gegv": "gegv", "gebv_numpy": "gebv_numpy", "predict": "predict",
                    "predict_dom": "predict_dom"}
    _RQ_MISC = {"predict_numpy_misc", "predict_numpy_dom_misc"}
    _RQ_NOLABEL = {"gebv_raw", "predict_raw", "gebv_numpy", "predict_numpy_misc", "predict_numpy_dom_misc"}
    _RQ_STAT = {"var_A": "var_A", "var_G_add": "var_A", "var_a": "var_a", "var_a_baseclass": "var_a",
                "bulmer": "bulmer", "score": "score", "var_G": "var_G", "var_A_dom": "var_A",
                "score_dom": "score_dom"}
    _RQ_STAT_MISC = {"score_numpy_misc": "score", "score_numpy_dom_misc": "score_dom"}

    def _requery_requests(self, case, par, stg):
        """8 requests per stage: model (plain; with u_misc / Z_misc through `predictNumpyMisc`), Spec values
        (plain / misc), Spec stats (plain / misc), alleles model + Spec.  In the *Spec* miscellaneous random
        effects enter the definitions as extra fixed-effect columns X' = [X | Zm], beta' = [beta ; u_misc]
        (an independent route to the same numbers)."""
        common = {"ua": par["u_a"], "t": case["t"], "ploidy": case["ploidy"]}
        if par["u_d"] is not None:
            common["ud"] = par["u_d"]
        beta2, X2 = par["beta"], case["X"]
        if par["u_misc"] is not None:
            beta2 = list(par["beta"]) + list(par["u_misc"])
            X2 = [list(a) + list(b) for a, b in zip(case["X"], case["Zm"])]
        va, vb = [], []
        for name in sorted(stg["views"]):
            v = stg["views"][name]
            d = {"mode": self._RQ_MODE[name], "g": par["g"], "out": v["mat"], "name": name,
                 "X": X2 if name in self._RQ_MISC else case["X"]}
            if name in self._RQ_NOLABEL:
                d.update({"labelled": False, "taxa_out": v.get("taxa"), "grp_out": v.get("grp")})
            else:
                d.update({"labelled": True, "taxa_in": case["taxa"], "grp_in": case["grp"],
                          "taxa_out": v["taxa"], "grp_out": v["grp"]})
            (vb if name in self._RQ_MISC else va).append(d)
        sa = {k: v for k, v in stg["stats"].items() if k in self._RQ_STAT}
        sb = {self._RQ_STAT_MISC[k]: v for k, v in stg["stats"].items() if k in self._RQ_STAT_MISC}
        al = {"ua": par["u_a"], "ploidy": case["ploidy"], "g": par["g"]}
        return [
            {"op": "c04.lin", **common, "beta": par["beta"], "g": par["g"], "X": case["X"], "Y": case["Y"]},
            {"op": "c04.lin", **common, "beta": par["beta"], "g": par["g"], "X": case["X"], "Y": case["Y"],
             "um": par["u_misc"] if par["u_misc"] is not None else [],
             "Zm": case["Zm"] if case["Zm"] is not None else [[] for _ in case["X"]]},
            {"op": "c04.spec_values", **common, "beta": par["beta"], "views": va},
            {"op": "c04.spec_values", **common, "beta": beta2, "views": vb},
            {"op": "c04.spec_stats", **common, "beta": par["beta"], "g": par["g"], "X": case["X"], "Y": case["Y"], "stats": sa},
            {"op": "c04.spec_stats", **common, "beta": beta2, "g": par["g"], "X": X2, "Y": case["Y"], "stats": sb},
            {"op": "c04.alleles", **al},
            {"op": "c04.spec_alleles", **al, "obs": stg["alleles"]},
        ]

    def requests(self, case, obs):
        k = case["kind"]
        if k in self._FINITE_KEYS and self._nonfinite(obs, self._FINITE_KEYS[k]):
            return []          # judged without the driver: a non-finite coefficient violates every clause
        if k in ("lin", "big"):
            common = {"beta": case["beta"], "ua": case["ua"], "t": case["t"], "ploidy": case["ploidy"]}
            if case["ud"] is not None:
                common["ud"] = case["ud"]
            n = len(case["g"][0])
            perm = case.get("perm") or list(range(n))
            X = case.get("X") or [[1] for _ in range(n)]
            first = {"op": "c04.lin", **common, "g": case["g"], "X": X}
            if "Y" in case:
                first["Y"] = case["Y"]
            if "bvm" in obs:
                first.update({"bv_mat": obs["bvm"]["mat"], "bv_loc": obs["bvm"]["loc"], "bv_scale": obs["bvm"]["scale"]})
            reqs = [first]
            if any(name in self._PERMUTED for name in obs["views"]):
                reqs.append({"op": "c04.lin", **common, "g": _gperm(case["g"], perm), "X": [X[i] for i in perm]})
            else:
                reqs.append({"op": "c04.lin", **common, "g": [[[0] * len(case["ua"])]], "X": [[1]]})
            reqs.append({"op": "c04.spec_values", **common, "views": self._views(case, obs)})
            for f in obs.get("factory") or []:
                fc = {"beta": f["beta"], "ua": f["ua"], "t": case["t"], "ploidy": case["ploidy"]}
                if f["ud"] is not None:
                    fc["ud"] = f["ud"]
                reqs.append({"op": "c04.spec_values", **fc, "views": [
                    {"mode": f["mode"], "g": case["g"], "X": X, "out": f["view"]["mat"], "name": f["name"], "labelled": True,
                     "taxa_in": case["taxa"], "grp_in": case["grp"], "taxa_out": f["view"]["taxa"],
                     "grp_out": f["view"]["grp"]}]})
            for rd in self._stat_rounds(obs["stats"]):
                st = {dn: obs["stats"][vn] for dn, vn in rd.items()}
                req = {"op": "c04.spec_stats", **common, "g": case["g"], "X": X, "stats": st}
                if "Y" in case:
                    req["Y"] = case["Y"]
                reqs.append(req)
            return reqs
        if k == "refit":
            bad = ("nan", "inf", "-inf")
            if any(x in json.dumps(obs) for x in ('"nan"', '"inf"', '"-inf"')):
                return []
            return self._refit_requests(case, obs)
        if k == "requery":
            reqs = []
            for par, stg in zip(self._stage_params(case), obs["stages"]):
                reqs.extend(self._requery_requests(case, par, stg))
            return reqs
        if k == "alleles":
            base = {"ua": case["ua"], "ploidy": case["ploidy"], "g": case["g"]}
            reqs = [{"op": "c04.alleles", **base},
                    {"op": "c04.spec_alleles", **base, "obs": obs["phased"]},
                    {"op": "c04.spec_alleles", **base, "obs": obs["unphased"]}]
            if "dtyped" in obs:
                reqs.append({"op": "c04.spec_alleles", **base, "obs": obs["dtyped"]})
            return reqs
        if k == "gs":
            base = {"A": case["A"], "b": case["b"]}
            return [{"op": "c04.gs", **base, "atol": case["atol"], "maxiter": case["maxiter"]},
                    {"op": "c04.spec_gs", **base, "x": obs["x"]}]
        if k == "ml0":
            p = len(case["Z"][0])
            atol = case.get("gsatol", canon.enc(Fraction(ATOL)))
            # repaired code: the normal-equation clause holds for EVERY sweep limit (direct-solve fallback)
            return [{"op": "c04.ml0", "y": case["y"], "Z": case["Z"], "p": p, "ridge": obs["ridge"],
                     "atol": atol, "maxiter": case["maxiter"], "impl_u": obs["uhat"]},
                    {"op": "c04.spec_fit", "Y": [[v] for v in case["y"]], "Z": case["Z"], "p": p, "t": 1,
                     "ridges": [obs["ridge"]], "atol": atol, "reltol": canon.enc(RELTOL),
                     "beta": [obs["betahat"]], "u_a": [[u] for u in obs["uhat"]],
                     "check_normal_eq": True}]
        if k == "fit":
            p = len(case["Z"][0])
            t = len(case["Y"][0])
            return [{"op": "c04.fitwrap", "Y": case["Y"], "Z": case["Z"], "p": p, "t": t, "sols": obs["sols"]},
                    {"op": "c04.spec_fit", "Y": case["Y"], "Z": case["Z"], "p": p, "t": t, "ridges": obs["ridges"],
                     "atol": canon.enc(Fraction(ATOL)), "reltol": canon.enc(RELTOL), "beta": obs["beta"],
                     "u_a": obs["u_a"], "check_normal_eq": True}]
        raise ValueError(k)

    # ------------------------------------------------------------------ judge
    @staticmethod
    def _cl(a, b):
        def nf(x):      # nan / inf / -inf all mean "undefined" (0/0 or x/0 in numpy)
            if isinstance(x, list):
                return [nf(v) for v in x]
            return "nan" if x in ("inf", "-inf") else x
        try:
            return canon.close_enc(nf(a), nf(b), rel=1e-9, abs_=1e-12)
        except Exception:
            return False

    def judge(self, case, obs, answers):
        for a in answers:
            if "err" in a:
                raise RuntimeError("driver error: " + a["err"])
        k = case["kind"]
        if k in self._FINITE_KEYS and self._nonfinite(obs, self._FINITE_KEYS[k]):
            return {"corr": False, "spec": False, "nontrivial": True,
                    "detail": f"{k}: non-finite value returned by the implementation: {str(obs)[:300]}"}
        A = [a["ok"] for a in answers]
        if k in ("lin", "big"):
            base, permd, sv = A[0], A[1], A[2]
            nfac = len(obs.get("factory") or [])
            fac_ans = A[3:3 + nfac]
            ss_rounds = A[3 + nfac:]
            bad = []
            fac_bad = []
            for f, ans in zip(obs.get("factory") or [], fac_ans):
                if not ans["ok"]:
                    fac_bad.append(ans["detail"])
                if not (self._cl(f["beta"], case["beta"]) and self._cl(f["ua"], case["ua"])
                        and self._cl(f["view"]["mat"], base[f["mode"]])):
                    bad.append(f["name"])
            V, S = obs["views"], obs["stats"]
            model_for = {"gebv": "gebv", "gegv": "gegv", "gebv_numpy": "gebv_numpy", "predict": "predict",
                         "predict_dom": "predict_dom"}
            for name, v in V.items():
                src = permd if name in self._PERMUTED else base
                key = model_for[self._VIEW_MODE[name]]
                if name == "gegv_raw":
                    key = "gegv_raw"
                if not self._cl(v["mat"], src[key]):
                    bad.append(name)
                if v.get("trait", obs["trait"]) != obs["trait"]:
                    bad.append(name + ".trait")
            for name, val in S.items():
                want = base[self._STAT[name][1]]
                want = ["nan" if w is None else w for w in want]
                if not self._cl(val, want):
                    bad.append(name)
            if obs.get("bvm_holds_Y") is False:
                bad.append("harness: breeding value matrix does not hold the responses")
            corr = not bad
            # Spec: every statistic through every entry point equals the definition (each variant is sent to the
            # Lean oracle: `_stat_rounds`)
            stat_bad = []
            for rd, ans in zip(self._stat_rounds(S), ss_rounds):
                if not ans["ok"]:
                    stat_bad += [rd[dn] for dn in ans["detail"].split() if dn in rd]
            spec = bool(sv["ok"]) and not stat_bad and not fac_bad and obs["inputs_untouched"]
            g = case["g"]
            dos = [tuple(sum(ph[i][j] for ph in g) for j in range(len(g[0][0]))) for i in range(len(g[0]))]
            nontriv = len(set(dos)) >= 2 and any(Fraction(v) != 0 for r in case["ua"] for v in r)
            return {"corr": corr, "spec": spec, "nontrivial": nontriv,
                    "detail": f"{k} opts={case.get('opts')} corr_bad={bad[:10]} spec_values=[{sv['detail']}] "
                              f"spec_stats_bad={stat_bad} factory_bad={fac_bad} untouched={obs['inputs_untouched']}"}
        if k == "refit":
            if not answers:
                return {"corr": False, "spec": False, "nontrivial": True, "detail": "refit: non-finite value"}
            w1, s1, w2, s2, v1, v2 = A
            f, sc = obs["first"], obs["second"]
            cbad = []
            for tag, o, w in (("first", f, w1), ("second", sc, w2)):
                if not (self._cl(o["beta"], w["beta"]) and canon.close_enc(o["u_a"], w["u_a"], rel=0, abs_=0)):
                    cbad.append(tag + ".wrapper")
            sbad = []
            for tag, r in (("first.fit", s1), ("second.fit", s2), ("first.gebv", v1), ("second.gebv", v2)):
                if not r["ok"]:
                    sbad.append(tag + "[" + r["detail"] + "]")
            if obs["first_after"] != {"beta": f["beta"], "u_a": f["u_a"]}:
                sbad.append("first model changed by the refit")
            if obs["second_after_setters"] != {"beta": sc["beta"], "u_a": sc["u_a"]}:
                sbad.append("second model changed by assignments to the first")
            if obs["gebv1_before"] != obs["gebv1_after"]:
                sbad.append("gebv of the first model changed by the refit")
            if obs["gebv2"] != obs["gebv2_after_setters"]:
                sbad.append("gebv of the second model changed by assignments to the first")
            if not self._cl(obs["gebv2"], obs["predict2"]):
                sbad.append("predict(ones) != gebv on the refitted model")
            for key, want in (("distinct_objects", True), ("shares_memory", False), ("training_data_untouched", True)):
                if obs[key] is not want:
                    sbad.append(key)
            if sc["class"] != "rrBLUPModel0":
                cbad.append("class")
            return {"corr": not cbad, "spec": not sbad, "nontrivial": sum(w2["ispoly"]) >= 1 and case["Z1"] != case["Z2"],
                    "detail": f"refit corr_bad={cbad} spec_bad={sbad[:6]}"}
        if k == "requery":
            pars = self._stage_params(case)
            bad, sbad = [], []
            for si, (par, stg) in enumerate(zip(pars, obs["stages"])):
                m1, m2, sva, svb, ssa, ssb, mal, sal = A[8 * si: 8 * si + 8]
                tag = "stage%d" % si + ("" if si == 0 else "[%s]" % case["steps"][si - 1]["set"])
                for name, v in stg["views"].items():
                    if name in self._RQ_MISC:
                        want = m2[{"predict_numpy_misc": "predict_misc", "predict_numpy_dom_misc": "predict_dom_misc"}[name]]
                    else:
                        want = m1[self._RQ_MODELKEY[self._RQ_MODE[name]]]
                    if not self._cl(v["mat"], want):
                        bad.append(tag + "." + name)
                    if "trait" in v and v["trait"] != par["trait"]:
                        bad.append(tag + "." + name + ".trait")
                        sbad.append(tag + "." + name + ".trait")
                for name, val in stg["stats"].items():
                    if name in self._RQ_STAT:
                        want = m1[self._RQ_STAT[name]]
                    else:
                        want = m2[self._RQ_STAT_MISC[name] + "_misc"]
                    if not self._cl(val, ["nan" if w is None else w for w in want]):
                        bad.append(tag + "." + name)
                for fn in self._ALLELE_FNS:
                    got, want = stg["alleles"][fn], mal[fn]
                    if (not self._cl(got, want)) if fn in ("fafreq", "dafreq") else (got != want):
                        bad.append(tag + "." + fn)
                if "predict_gm_rejects" in stg and stg["predict_gm_rejects"] != m2["predict_gm_rejects"]:
                    bad.append(tag + ".predict_gm_rejects")
                for nm, r in (("values", sva), ("values_misc", svb), ("stats", ssa), ("stats_misc", ssb), ("alleles", sal)):
                    if not r["ok"]:
                        sbad.append(tag + "." + nm + "[" + r["detail"] + "]")
                # the same object must answer consistently: predict on Xstar rows = gebv / gegv
                V = stg["views"]
                for a, b in (("predict_xstar", "gebv_phased"), ("predict_dom_xstar", "gegv_phased")):
                    if a in V and not self._cl(V[a]["mat"], V[b]["mat"]):
                        sbad.append(tag + "." + a + "!=" + b)
            g = case["g"]
            dos = [tuple(sum(ph[i][j] for ph in g) for j in range(len(g[0][0]))) for i in range(len(g[0]))]
            changed = any((st["set"] in ("u_a", "beta", "u_d", "u_misc") and st["value"] !=
                           {"u_a": case["ua"], "beta": case["beta"], "u_d": case["ud"], "u_misc": case["um"]}[st["set"]])
                          or st["set"] in ("u_a_inplace", "beta_inplace", "u_d_inplace", "geno_flip", "copy_mutate",
                                           "out_mutate")
                          for st in case["steps"])
            return {"corr": not bad, "spec": not sbad, "nontrivial": len(set(dos)) >= 2 and changed,
                    "detail": f"requery steps={[st['set'] for st in case['steps']]} corr_bad={bad[:12]} spec_bad={sbad[:8]}"}
        if k == "alleles":
            mod, s1, s2 = A[0], A[1], A[2]
            s3 = A[3] if len(A) > 3 else {"ok": True, "detail": ""}
            bad = []
            for rep in ("phased", "unphased") + (("dtyped",) if "dtyped" in obs else ()):
                for fn in self._ALLELE_FNS:
                    got, want = obs[rep][fn], mod[fn]
                    if fn in ("fafreq", "dafreq"):
                        if not self._cl(got, want):
                            bad.append(rep + "." + fn)
                    elif got != want:
                        bad.append(rep + "." + fn)
            g = case["g"]
            n = len(g[0])
            tot = case["ploidy"] * n
            cnt = [sum(ph[i][j] for ph in g for i in range(n)) for j in range(len(g[0][0]))]
            nontriv = any(0 < c < tot for c in cnt) and any(Fraction(v) != 0 for r in case["ua"] for v in r)
            return {"corr": not bad, "spec": bool(s1["ok"]) and bool(s2["ok"]) and bool(s3["ok"]), "nontrivial": nontriv,
                    "detail": f"alleles opts={case.get('opts')} corr_bad={bad} spec_phased=[{s1['detail']}] "
                              f"spec_unphased=[{s2['detail']}] spec_dtyped=[{s3['detail']}]"}
        if k == "gs":
            mod, s = A
            corr = self._cl(obs["x"], mod["x"])
            return {"corr": corr, "spec": bool(s["ok"]), "nontrivial": len(case["b"]) >= 2 and mod["sweeps"] >= 1,
                    "detail": f"gs sweeps={mod['sweeps']} impl={obs['x']} model={mod['x']} spec=[{s['detail']}]"}
        if k == "ml0":
            mod, s = A
            # Gauss-Seidel branch: functional (iterate = model's); direct-solve branch: relational — the
            # implementation's solution must meet the contract of numpy.linalg.solve on this system (re-checked in
            # Lean: `contract_ok`), it need not agree with the exact solution digit by digit when A is ill-conditioned
            same = self._cl(obs["uhat"], mod["uhat"])
            corr = self._cl(obs["betahat"], [mod["betahat"]]) and (same or (mod["fallback"] and mod["contract_ok"]))
            return {"corr": corr, "spec": bool(s["ok"]), "nontrivial": len(case["Z"][0]) >= 2, "clauses": s.get("clauses"),
                    "detail": f"ml0 gsatol={case.get('gsatol')} maxiter={case['maxiter']} fallback={mod['fallback']} "
                              f"contract_ok={mod['contract_ok']} ridge={obs['ridge']} impl_u={obs['uhat']} "
                              f"model_u={[str(x)[:40] for x in mod['uhat']]} spec=[{s['detail']}]"}
        if k == "fit":
            mod, s = A
            corr = (self._cl(obs["beta"], mod["beta"]) and canon.close_enc(obs["u_a"], mod["u_a"], rel=0, abs_=0)
                    and obs["class"] == "rrBLUPModel0")
            untouched = obs.get("training_data_untouched", True)
            return {"corr": corr, "spec": bool(s["ok"]) and untouched, "nontrivial": sum(mod["ispoly"]) >= 2,
                    "clauses": s.get("clauses"),
                    "detail": f"fit[{case.get('via')}] opts={(case.get('opts') or {}).get('layout')},{((case.get('opts') or {}).get('bv') or {}).get('how')} untouched={untouched} ridges={[float(Fraction(r)) for r in obs['ridges']]} spec=[{s['detail']}]"}
        raise ValueError(k)

    # ------------------------------------------------------------------ findings / shrinking
    def signature(self, case, obs, verdict):
        # no known finding is left for C04 (D22 / D22b repaired): the kind is all a matcher could need
        return {"kind": case["kind"]}

    def shrink(self, case):
        for c in self._shrink0(case):
            opts = c.get("opts") or {}
            bv = opts.get("bv")
            if c["kind"] == "fit" and bv:
                Y = c["Y"]
                if len(Y[0]) != len(bv["loc"]):
                    c = dict(c, opts={kk: vv for kk, vv in opts.items() if kk != "bv"})
                else:
                    mat = [[(Fraction(canon.dec(Y[i][kk])) - canon.dec(bv["loc"][kk])) / canon.dec(bv["scale"][kk])
                            for kk in range(len(Y[0]))] for i in range(len(Y))]
                    c = dict(c, opts=dict(opts, bv=dict(bv, mat=canon.enc(mat))))
            yield c
        if case["kind"] in ("fit", "alleles") and case.get("opts"):
            c = dict(case)
            c.pop("opts")
            yield c

    def _shrink0(self, case):
        k = case["kind"]
        if k == "lin":
            g = case["g"]
            n, p, t = len(g[0]), len(case["ua"]), case["t"]
            opts = case.get("opts") or {}
            bv = opts.get("bv")
            for key in list(opts):               # first try to get rid of the options
                c = dict(case)
                c["opts"] = {kk: vv for kk, vv in opts.items() if kk != key}
                yield c
            for i in range(n):
                if n > 1:
                    keep = [x for x in range(n) if x != i]
                    c = dict(case)
                    c["g"] = _gperm(g, keep)
                    c["taxa"] = _take(case["taxa"], keep)
                    c["grp"] = _take(case["grp"], keep)
                    c["X"] = [case["X"][x] for x in keep]
                    c["Y"] = [case["Y"][x] for x in keep]
                    c["perm"] = list(range(n - 1))
                    if bv:
                        c["opts"] = dict(opts, bv=dict(bv, mat=[bv["mat"][x] for x in keep]))
                    yield c
            for j in range(p):
                if p > 1:
                    keep = [x for x in range(p) if x != j]
                    c = dict(case)
                    c["g"] = _gcols(g, keep)
                    c["ua"] = [case["ua"][x] for x in keep]
                    c["ud"] = None if case["ud"] is None else [case["ud"][x] for x in keep]
                    c["cuts"] = [1] if p - 1 > 1 else []
                    yield c
            if t > 1:
                for kk in range(t):
                    keep = [x for x in range(t) if x != kk]
                    c = dict(case)
                    c["t"] = t - 1
                    for key in ("beta", "ua", "ud", "Y"):
                        c[key] = None if case[key] is None else [[r[x] for x in keep] for r in case[key]]
                    if bv:
                        c["opts"] = dict(opts, bv=dict(bv, mat=[[r[x] for x in keep] for r in bv["mat"]],
                                                       loc=[bv["loc"][x] for x in keep],
                                                       scale=[bv["scale"][x] for x in keep]))
                    yield c
            if case["ud"] is not None:
                c = dict(case)
                c["ud"] = None
                yield c
        elif k == "big":
            g = case["g"]
            n, p, t = len(g[0]), len(case["ua"]), case["t"]
            if case["ud"] is not None:
                c = dict(case)
                c["ud"] = None
                yield c
            def cols(keep):
                c = dict(case)
                c["g"] = _gcols(g, keep)
                c["ua"] = [case["ua"][x] for x in keep]
                c["ud"] = None if case["ud"] is None else [case["ud"][x] for x in keep]
                return c
            if p > 8:
                for a, b in ((0, p // 2), (p // 2, p), (0, p // 10), (p - p // 10, p), (0, 1), (p - 1, p)):
                    yield cols([x for x in range(p) if not (a <= x < b)])
            def rows(keep):
                c = dict(case)
                c["g"] = _gperm(g, keep)
                c["taxa"] = _take(case["taxa"], keep)
                return c
            if n > 8:
                for a, b in ((0, n // 2), (n // 2, n), (0, n // 10), (n - n // 10, n), (0, 1), (n - 1, n)):
                    yield rows([x for x in range(n) if not (a <= x < b)])
            elif n > 1:
                for i in range(n):
                    yield rows([x for x in range(n) if x != i])
            if t > 1:
                for kk in range(t):
                    keep = [x for x in range(t) if x != kk]
                    c = dict(case)
                    c["t"] = t - 1
                    for key in ("beta", "ua", "ud"):
                        c[key] = None if case[key] is None else [[r[x] for x in keep] for r in case[key]]
                    yield c
        elif k == "refit":
            def polyok(Zs):
                return len(Zs) >= 2 and any(any(r[j] != Zs[0][j] for r in Zs) for j in range(len(Zs[0])))
            for zk, yk in (("Z1", "Y1"), ("Z2", "Y2")):
                Z, Y = case[zk], case[yk]
                for i in range(len(Z)):
                    keep = [x for x in range(len(Z)) if x != i]
                    Zs = [Z[x] for x in keep]
                    if polyok(Zs):
                        c = dict(case)
                        c[zk], c[yk] = Zs, [Y[x] for x in keep]
                        yield c
                for j in range(len(Z[0])):
                    if len(Z[0]) > 1:
                        Zs = [[v for x, v in enumerate(r) if x != j] for r in Z]
                        if polyok(Zs):
                            c = dict(case)
                            c[zk] = Zs
                            yield c
        elif k == "requery":
            g = case["g"]
            n, p, t = len(g[0]), len(case["ua"]), case["t"]
            dummy = [{"set": "trait", "value": ["x%d" % k for k in range(t)]}]
            for si in range(len(case["steps"])):
                if len(case["steps"]) > 1:
                    c = dict(case)
                    c["steps"] = case["steps"][:si] + case["steps"][si + 1:]
                    yield c
            if case["ud"] is not None:
                c = dict(case)
                c["ud"] = None
                c["steps"] = [st for st in case["steps"] if st["set"] not in ("u_d", "u_d_inplace")] or dummy
                yield c
            if case["um"] is not None:
                c = dict(case)
                c["um"] = c["Zm"] = None
                c["steps"] = [st for st in case["steps"] if st["set"] != "u_misc"] or dummy
                yield c

            def remap(steps, axis, dropped):
                """steps after taxon (`axis` = "i") or marker (`axis` = "j") number `dropped` was removed"""
                out = []
                for st in steps:
                    w = st["set"]
                    uses = (w == "geno_flip") or (axis == "j" and w in ("u_a_inplace", "u_d_inplace"))
                    if uses:
                        if st[axis] == dropped:
                            continue
                        if st[axis] > dropped:
                            st = dict(st)
                            st[axis] -= 1
                    elif axis == "j" and w in ("u_a", "u_d"):
                        st = dict(st, value=[r for x, r in enumerate(st["value"]) if x != dropped])
                    out.append(st)
                return out or dummy
            for i in range(n):
                if n > 1:
                    keep = [x for x in range(n) if x != i]
                    c = dict(case)
                    c["g"] = _gperm(g, keep)
                    for key in ("taxa", "grp", "X", "Y", "Zm"):
                        c[key] = _take(case[key], keep)
                    c["steps"] = remap(case["steps"], "i", i)
                    yield c
            for j in range(p):
                if p > 1:
                    keep = [x for x in range(p) if x != j]
                    c = dict(case)
                    c["g"] = _gcols(g, keep)
                    c["ua"] = _take(case["ua"], keep)
                    c["ud"] = _take(case["ud"], keep)
                    c["steps"] = remap(case["steps"], "j", j)
                    yield c
        elif k == "alleles":
            g = case["g"]
            n, p = len(g[0]), len(case["ua"])
            for i in range(n):
                if n > 1:
                    c = dict(case)
                    c["g"] = _gperm(g, [x for x in range(n) if x != i])
                    yield c
            for j in range(p):
                if p > 1:
                    keep = [x for x in range(p) if x != j]
                    c = dict(case)
                    c["g"] = _gcols(g, keep)
                    c["ua"] = [case["ua"][x] for x in keep]
                    yield c
        elif k in ("fit", "ml0"):
            Z = case["Z"]
            n, p = len(Z), len(Z[0])
            ykey = "Y" if k == "fit" else "y"
            for i in range(n):
                if n > 2:
                    keep = [x for x in range(n) if x != i]
                    Z2 = [Z[x] for x in keep]
                    polyfn = all if k == "ml0" else any      # rrBLUP_ML0 itself needs every column polymorphic
                    if polyfn(any(r[j] != Z2[0][j] for r in Z2) for j in range(p)):
                        c = dict(case)
                        c["Z"] = Z2
                        c[ykey] = [case[ykey][x] for x in keep]
                        yield c
            for j in range(p):
                if p > 1:
                    keep = [x for x in range(p) if x != j]
                    Z2 = [[r[x] for x in keep] for r in Z]
                    ok = any(any(r[jj] != Z2[0][jj] for r in Z2) for jj in range(p - 1))
                    if k == "ml0":
                        ok = all(any(r[jj] != Z2[0][jj] for r in Z2) for jj in range(p - 1))
                    if ok:
                        c = dict(case)
                        c["Z"] = Z2
                        yield c
            if k == "fit" and len(case["Y"][0]) > 1:
                for kk in range(len(case["Y"][0])):
                    c = dict(case)
                    c["Y"] = [[v for x, v in enumerate(r) if x != kk] for r in case["Y"]]
                    yield c
        elif k == "gs":
            n = len(case["b"])
            for i in range(n):
                if n > 1:
                    keep = [x for x in range(n) if x != i]
                    c = dict(case)
                    c["A"] = [[case["A"][r][s] for s in keep] for r in keep]
                    c["b"] = [case["b"][r] for r in keep]
                    yield c
            if case["maxiter"] > 1:
                c = dict(case)
                c["maxiter"] = case["maxiter"] - 1
                yield c

    # ------------------------------------------------------------------ self-test mutants
    def mutants(self):
        m = _mods()
        GEBVM = m.add.DenseGenomicEstimatedBreedingValueMatrix

        @contextlib.contextmanager
        def patch(obj, name, new):
            old = obj.__dict__[name] if name in getattr(obj, "__dict__", {}) else getattr(obj, name)
            setattr(obj, name, new)
            try:
                yield
            finally:
                setattr(obj, name, old)

        def _gt(gtobj, fmt="{0,1,2}"):
            if isinstance(gtobj, m.gm.GenotypeMatrix):
                return gtobj.mat_asformat(fmt), gtobj.taxa, gtobj.taxa_grp
            return gtobj, None, None

        def _loc(self):
            nfixed = self.beta.shape[0]
            Xstar = numpy.empty((1, nfixed), dtype=self.beta.dtype)
            Xstar[0, 0] = 1
            Xstar[0, 1:] = 1 / nfixed
            return Xstar @ self.beta

        def gebv_wrong_coding(self, gtobj, **kw):
            Z, taxa, grp = _gt(gtobj, "{-1,0,1}")
            out = self.gebv_numpy(Z) + _loc(self)
            return GEBVM.from_numpy(mat=out, taxa=taxa, taxa_grp=grp, trait=self.trait)

        def gebv_no_location(self, gtobj, **kw):
            Z, taxa, grp = _gt(gtobj)
            return GEBVM.from_numpy(mat=self.gebv_numpy(Z) + 0.0, taxa=taxa, taxa_grp=grp, trait=self.trait)

        def gebv_population_dosage(self, gtobj, **kw):
            Z, taxa, grp = _gt(gtobj)
            Zm = numpy.repeat(numpy.asarray(Z, dtype=float).mean(0, keepdims=True), Z.shape[0], axis=0)
            return GEBVM.from_numpy(mat=self.gebv_numpy(Zm) + _loc(self), taxa=taxa, taxa_grp=grp, trait=self.trait)

        def gebv_sorted_labels(self, gtobj, **kw):
            Z, taxa, grp = _gt(gtobj)
            out = self.gebv_numpy(Z) + _loc(self)
            return GEBVM.from_numpy(mat=out, taxa=None if taxa is None else numpy.sort(taxa), taxa_grp=grp, trait=self.trait)

        def predict_numpy_no_fixed(self, X, Z, **kw):
            return Z @ self.u

        def gegv_het_any_nonzero(self, gtobj, **kw):
            if isinstance(gtobj, m.gm.GenotypeMatrix):
                A = gtobj.mat_asformat("{0,1,2}")
                D = (A != 0)
                taxa, grp = gtobj.taxa, gtobj.taxa_grp
            else:
                A = gtobj
                D = (gtobj != 0)
                taxa = grp = None
            out = self.gegv_numpy(numpy.concatenate([A, D], axis=1)) + _loc(self)
            return GEBVM.from_numpy(mat=out, taxa=taxa, taxa_grp=grp, trait=self.trait)

        def var_ddof1(self, Z, **kw):
            g = self.gebv_numpy(Z)
            return g.var(0, ddof=1) if g.shape[0] > 1 else g.var(0)

        def var_a_ploidy1(self, p, ploidy=2, **kw):
            p = p[:, None]
            return ploidy * ((self.u_a ** 2) * p * (1.0 - p)).sum(0)

        def bulmer_inverted(self, Z, p, ploidy=2, **kw):
            sA = self.var_A_numpy(Z)
            sa = self.var_a_numpy(p, ploidy)
            mask = (sA == 0.0)
            den = sA.copy()
            den[mask] = 1.0
            out = sa / den
            out[mask] = numpy.nan
            return out

        def score_no_one_minus(self, Y, X, Z, **kw):
            Yh = (X @ self.beta) + (Z @ self.u)
            return ((Y - Yh) ** 2).sum(0) / ((Y - Y.mean(0)) ** 2).sum(0)

        def facount_sign_flipped(self, gmat, dtype=None, **kw):
            dtype = numpy.dtype(int if dtype is None else dtype)
            ac = gmat.acount(dtype=dtype)[:, None]
            mx = dtype.type(gmat.ploidy * gmat.ntaxa)
            out = numpy.where(self.u_a < 0.0, ac, mx - ac)
            out[self.u_a == 0.0] = 0
            return out

        def facount_zero_not_neutral(self, gmat, dtype=None, **kw):
            dtype = numpy.dtype(int if dtype is None else dtype)
            ac = gmat.acount(dtype=dtype)[:, None]
            mx = dtype.type(gmat.ploidy * gmat.ntaxa)
            return numpy.where(self.u_a > 0.0, ac, mx - ac)

        def dacount_ntaxa_only(self, gmat, dtype=None, **kw):
            dtype = numpy.dtype(int if dtype is None else dtype)
            ac = gmat.acount(dtype=dtype)[:, None]
            mx = dtype.type(gmat.ntaxa)
            out = numpy.where(self.u_a < 0.0, ac, mx - ac)
            out[self.u_a == 0.0] = 0
            return out

        def fapoly_le(self, gmat, dtype=None, **kw):
            fc = self.facount(gmat)
            return (fc > 0) & (fc <= gmat.ploidy * gmat.ntaxa)

        def napoly_ge(self, gmat, dtype=None, **kw):
            ac = gmat.acount()[:, None]
            return ((ac >= 0) & (ac < gmat.ploidy * gmat.ntaxa)) & (self.u_a == 0.0)

        def gs_jacobi_sign(A, b, atol=1e-08, maxiter=1000):
            n = len(b)
            xp = numpy.zeros(n)
            xc = numpy.zeros(n)
            it = 0
            ad = 2 * atol
            while numpy.any(ad > atol) and it < maxiter:
                xp[:] = xc
                for i in range(n):
                    xc[i] = (b[i] + A[i, :i].dot(xc[:i]) - A[i, i + 1:].dot(xc[i + 1:])) / A[i, i]
                ad = numpy.abs(xc - xp)
                it += 1
            return xc

        real_gs = m.rr.gauss_seidel

        def gs_two_sweeps(A, b, atol=1e-08, maxiter=1000):
            return real_gs(A, b, atol, min(maxiter, 2))

        def gs_skip_last(A, b, atol=1e-08, maxiter=1000):
            x = real_gs(A, b, atol, maxiter).copy()
            if len(x) > 1 and maxiter > 0:
                x[-1] = 0.0
            return x

        def center_identity(y):
            return y + 0.0

        real_ml0 = m.rr.rrBLUP_ML0

        def ml0_intercept_zero(*a, **k):
            out = real_ml0(*a, **k)
            out["betahat"] = numpy.array([0.0])
            return out

        real_fit = m.RR.__dict__["fit_numpy"].__func__

        def fit_mono_nonzero(cls, Y, X, Z, *a, **k):
            mod = real_fit(cls, Y, X, Z, *a, **k)
            Zf = numpy.asarray(Z, dtype=float)
            mono = numpy.all(Zf == Zf[0, :], axis=0)
            mod.u_a[mono, :] = 1.0
            return mod

        def fit_scatter_reversed(cls, Y, X, Z, *a, **k):
            mod = real_fit(cls, Y, X, Z, *a, **k)
            Zf = numpy.asarray(Z, dtype=float)
            poly = ~numpy.all(Zf == Zf[0, :], axis=0)
            mod.u_a[poly, :] = mod.u_a[poly, :][::-1, :].copy()
            return mod

        def stale(cls, name, slot):
            """property that answers with the value it computed first (cache never invalidated)"""
            orig = None
            for c in cls.__mro__:
                if name in c.__dict__:
                    orig = c.__dict__[name]
                    break

            def fget(self):
                if slot not in self.__dict__:
                    self.__dict__[slot] = orig.fget(self)
                return self.__dict__[slot]
            return property(fget, orig.fset)

        @contextlib.contextmanager
        def stale_u():
            with patch(m.ADD, "u", stale(m.ADD, "u", "_c04_u_cache")), patch(m.DOM, "u", stale(m.DOM, "u", "_c04_u_cache")):
                yield

        def facount_cached_mask(self, gmat, dtype=None, **kw):
            dtype = numpy.dtype(int if dtype is None else dtype)
            if "_c04_mask" not in self.__dict__:
                self.__dict__["_c04_mask"] = (self.u_a > 0.0, self.u_a == 0.0)
            pos, zero = self.__dict__["_c04_mask"]
            ac = gmat.acount(dtype=dtype)[:, None]
            mx = dtype.type(gmat.ploidy * gmat.ntaxa)
            out = numpy.where(pos, ac, mx - ac)
            out[zero] = 0
            return out

        shape_cache = {}

        def fit_mask_cached(cls, Y, X, Z, *a, **k):
            """polymorphism mask remembered per genotype shape (stale after a refit with equal shapes)"""
            Zf = numpy.asarray(Z, dtype=float)
            key = ("mask", Zf.shape)
            if key not in shape_cache:
                shape_cache[key] = ~numpy.all(Zf == Zf[0, :], axis=0)
            poly = shape_cache[key]
            if not poly.any():
                poly = ~numpy.all(Zf == Zf[0, :], axis=0)
            Yf = numpy.asarray(Y, dtype=float)
            models = [m.rr.rrBLUP_ML0(Yf[:, i], Zf[:, poly]) for i in range(Yf.shape[1])]
            beta = numpy.stack([mm["betahat"] for mm in models], axis=1)
            u_a = numpy.zeros((Zf.shape[1], Yf.shape[1]), dtype=float)
            u_a[poly, :] = numpy.stack([mm["uhat"] for mm in models], axis=1)
            return cls(beta=beta, u_misc=None, u_a=u_a)

        def fit_shared_buffer(cls, Y, X, Z, *a, **k):
            """the effect matrix lives in a buffer reused by later fits of the same shape"""
            mod = real_fit(cls, Y, X, Z, *a, **k)
            key = ("buf", mod.u_a.shape)
            if key in shape_cache:
                shape_cache[key][...] = mod.u_a
            else:
                shape_cache[key] = mod.u_a.copy()
            mod.u_a = shape_cache[key]
            return mod

        def ml0_memo(*a, **k):
            y, Zz = a[0], a[1]
            key = ("ml0", len(y), Zz.shape)
            if key not in shape_cache:
                shape_cache[key] = real_ml0(*a, **k)
            return shape_cache[key]

        @contextlib.contextmanager
        def fresh(ctx):
            shape_cache.clear()
            with ctx:
                yield
            shape_cache.clear()

        real_score = m.ADD.__dict__["score"]
        real_rrfit = m.RR.__dict__["fit"].__func__

        class _Scaled:
            """a breeding value matrix whose unscale() forgets location and scale"""
            def __init__(self, b):
                self._b = b

            def unscale(self):
                return self._b.mat

        def score_bvm_scaled(self, ptobj, cvobj, gtobj, **kw):
            if isinstance(ptobj, m.BVM):
                ptobj = ptobj.mat            # standardised values used as if they were phenotypes
            return real_score(self, ptobj, cvobj, gtobj, **kw)

        def fit_bvm_scaled(cls, ptobj, cvobj, gtobj, *a, **k):
            if isinstance(ptobj, m.BVM):
                ptobj = ptobj.mat
            return real_rrfit(cls, ptobj, cvobj, gtobj, *a, **k)

        def u_misc_last(self):
            return numpy.concatenate([self.u_a, self.u_misc], axis=0)

        # ---------------- round 4: one mutant per new input class
        def bulmer_isclose(self, Z, p, ploidy=2, **kw):
            sA = self.var_A_numpy(Z)
            sa = self.var_a_numpy(p, ploidy)
            mask = numpy.isclose(sa, 0.0)
            den = sa.copy()
            den[mask] = 1.0
            out = sA / den
            out[mask] = numpy.nan
            return out

        def facount_neutral_isclose(self, gmat, dtype=None, **kw):
            dtype = numpy.dtype(int if dtype is None else dtype)
            ac = gmat.acount(dtype=dtype)[:, None]
            mx = dtype.type(gmat.ploidy * gmat.ntaxa)
            out = numpy.where(self.u_a > 0.0, ac, mx - ac)
            out[numpy.isclose(self.u_a, 0.0)] = 0
            return out

        def dacount_mask_signbit(self, gmat, dtype=None, **kw):
            dtype = numpy.dtype(int if dtype is None else dtype)
            ac = gmat.acount(dtype=dtype)[:, None]
            mx = dtype.type(gmat.ploidy * gmat.ntaxa)
            out = numpy.where(numpy.signbit(self.u_a), ac, mx - ac)
            out[(self.u_a == 0.0) & ~numpy.signbit(self.u_a)] = 0
            return out

        def facount_int8_accumulator(self, gmat, dtype=None, **kw):
            dtype = numpy.dtype(int if dtype is None else dtype)
            ac = gmat.mat.reshape(-1, gmat.mat.shape[-2], gmat.mat.shape[-1]).sum((0, 1), dtype="int8").astype(dtype)[:, None]
            mx = dtype.type(gmat.ploidy * gmat.ntaxa)
            out = numpy.where(self.u_a > 0.0, ac, mx - ac)
            out[self.u_a == 0.0] = 0
            return out

        def score_centre_from_bvm(self, ptobj, cvobj, gtobj, **kw):
            if isinstance(ptobj, m.BVM):
                Y = ptobj.unscale()
                Z = gtobj.mat_asformat("{0,1,2}") if isinstance(gtobj, m.gm.GenotypeMatrix) else gtobj
                Yh = (cvobj @ self.beta) + (Z @ self.u)
                return 1.0 - ((Y - Yh) ** 2).sum(0) / ((Y - ptobj.location) ** 2).sum(0)
            return real_score(self, ptobj, cvobj, gtobj, **kw)

        real_estimate = m.TBV.__dict__["estimate"]

        def tbv_labels_from_ptobj(self, ptobj, gtobj, miscout=None, **kw):
            out = real_estimate(self, ptobj, gtobj, miscout, **kw)
            if isinstance(ptobj, m.BVM) and ptobj.taxa is not None and ptobj.ntaxa == out.ntaxa:
                out.taxa = ptobj.taxa
                out.taxa_grp = ptobj.taxa_grp
            return out

        def gebv_numpy_marker_blocks(self, Z, **kw):
            bs = 1024
            if numpy.issubdtype(Z.dtype, numpy.integer) and Z.shape[1] > bs:
                out = numpy.zeros((Z.shape[0], self.u_a.shape[1]))
                for i in range(Z.shape[1] // bs):
                    out += Z[:, i * bs:(i + 1) * bs] @ self.u_a[i * bs:(i + 1) * bs, :]
                return out
            return Z @ self.u_a

        def gebv_numpy_taxa_blocks(self, Z, **kw):
            bs = 1024
            out = numpy.zeros((Z.shape[0], self.u_a.shape[1]))
            for i in range(max(1, Z.shape[0] // bs)):
                out[i * bs:(i + 1) * bs, :] = Z[i * bs:(i + 1) * bs, :] @ self.u_a
            return out

        def gebv_numpy_memory_order(self, Z, **kw):
            Zc = numpy.ravel(Z, order="K").reshape(Z.shape)
            return Zc @ self.u_a

        def var_one_pass(self, Z, **kw):
            gv = self.gebv_numpy(Z)
            return (gv ** 2).mean(0) - gv.mean(0) ** 2

        def u_cached_by_identity(self):
            key = (id(self._u_misc), id(self._u_a))
            c = self.__dict__.get("_c04_ucache")
            if c is None or c[0] != key:
                c = (key, numpy.concatenate([self.u_misc, self.u_a], axis=0))
                self.__dict__["_c04_ucache"] = c
            return c[1]

        memo = {}

        def var_A_memo(self, Z, **kw):
            key = ("vA", id(self), Z.shape, numpy.ascontiguousarray(Z).tobytes(), self.u_a.tobytes())
            if key not in memo:
                memo[key] = self.gebv_numpy(Z).var(0)
            return memo[key]

        real_var_a = m.ADD.__dict__["var_a"]

        def var_a_memo_by_object(self, gtobj, ploidy=None, **kw):
            key = ("va", id(self), id(gtobj), self.u_a.tobytes())
            if key not in memo:
                memo[key] = real_var_a(self, gtobj, ploidy, **kw)
            return memo[key].copy()

        def deepcopy_shares_arrays(self, memo_=None):
            return self.__class__(beta=self.beta, u_misc=self.u_misc, u_a=self.u_a, trait=self.trait)

        def ml0_intercept_float32(*a, **k):
            out = real_ml0(*a, **k)
            out["betahat"] = numpy.array([float(numpy.asarray(a[0], dtype=float).mean(dtype="float32"))])
            return out

        def ztz_int8(Z, ridge):
            Zi = Z.astype("int8")
            A = (Zi.T @ Zi).astype(float)
            A[numpy.diag_indices_from(A)] += ridge
            return A

        real_gegv_numpy = m.DOM.__dict__["gegv_numpy"]

        def gegv_numpy_additive_fast_path(self, Z, **kw):
            if self.u_d.sum() == 0.0:
                return Z[:, :self.nexplan_u_a] @ self.u_a
            return real_gegv_numpy(self, Z, **kw)

        def var_a_ploidy_not_forwarded(self, gtobj, ploidy=None, **kw):
            if isinstance(gtobj, m.gm.GenotypeMatrix):
                pf = gtobj.afreq()
            else:
                pf = gtobj.sum(0) / ((2 if ploidy is None else ploidy) * gtobj.shape[0])
            return self.var_a_numpy(pf, **kw)

        def fit_collapses_identical_columns(cls, Y, X, Z, *a, **k):
            Zf = numpy.asarray(Z, dtype=float)
            Yf = numpy.asarray(Y, dtype=float)
            poly = ~numpy.all(Zf == Zf[0, :], axis=0)
            Zu, blk = numpy.unique(Zf[:, poly], axis=1, return_inverse=True)
            blk = blk.ravel()
            models = [m.rr.rrBLUP_ML0(Yf[:, i], Zu) for i in range(Yf.shape[1])]
            beta = numpy.stack([mm["betahat"] for mm in models], axis=1)
            u_a = numpy.zeros((Zf.shape[1], Yf.shape[1]), dtype=float)
            u_a[poly, :] = numpy.stack([mm["uhat"] for mm in models], axis=1)[blk, :]
            return cls(beta=beta, u_misc=None, u_a=u_a)

        def gs_first_test_two_atol(A, b, atol=1e-08, maxiter=1000):
            """undoes the D22b repair: adiff = 2*atol before the loop (no sweep for atol = 0)"""
            n = len(b)
            xp = numpy.zeros(n)
            xc = numpy.zeros(n)
            it = 0
            ad = 2 * atol
            while numpy.any(ad > atol) and it < maxiter:
                xp[:] = xc
                for i in range(n):
                    xc[i] = (b[i] - A[i, :i].dot(xc[:i]) - A[i, i + 1:].dot(xc[i + 1:])) / A[i, i]
                ad = numpy.abs(xc - xp)
                it += 1
            return xc

        def ml0_without_direct_solve(*a, **k):
            """undoes the D22 repair: the Gauss-Seidel iterate is returned as it is, whatever its residual"""
            seen = []
            gs = m.rr.gauss_seidel

            def rec(*aa, **kk):
                out = gs(*aa, **kk)
                seen.append(out.copy())
                return out
            m.rr.gauss_seidel = rec
            try:
                out = real_ml0(*a, **k)
            finally:
                m.rr.gauss_seidel = gs
            if seen:
                out["uhat"] = seen[-1]
                out["yhat"] = out["X"].dot(out["betahat"]) + out["Z"].dot(seen[-1])
            return out

        @contextlib.contextmanager
        def clean(ctx):
            memo.clear()
            with ctx:
                yield
            memo.clear()

        both = lambda name, fn: (lambda: _both(name, fn))

        @contextlib.contextmanager
        def _both(name, fn):
            with patch(m.ADD, name, fn), patch(m.LIN, name, fn):
                yield

        return [
            # mechanism 1: Y = X beta + Z u ; GEBV = Z u_a + Xstar beta
            ("gebv_coding_minus1_0_1", both("gebv", gebv_wrong_coding)),
            ("gebv_drop_location", both("gebv", gebv_no_location)),
            ("gebv_population_dosage", both("gebv", gebv_population_dosage)),
            ("gebv_labels_sorted", both("gebv", gebv_sorted_labels)),
            ("predict_drop_fixed_effects", lambda: patch(m.ADD, "predict_numpy", predict_numpy_no_fixed)),
            ("u_concatenated_in_wrong_order", lambda: patch(m.ADD, "u", property(u_misc_last))),
            ("score_bvmat_not_unscaled", lambda: patch(m.ADD, "score", score_bvm_scaled)),
            ("fit_bvmat_not_unscaled", lambda: patch(m.RR, "fit", classmethod(fit_bvm_scaled))),
            # mechanism 2: dominance design
            ("gegv_het_is_any_nonzero", lambda: patch(m.DOM, "gegv", gegv_het_any_nonzero)),
            # mechanism 3: variances, Bulmer, R^2
            ("var_A_ddof1", lambda: patch(m.ADD, "var_A_numpy", var_ddof1)),
            ("var_a_ploidy_not_squared", both("var_a_numpy", var_a_ploidy1)),
            ("bulmer_inverted", lambda: patch(m.ADD, "bulmer_numpy", bulmer_inverted)),
            ("score_without_one_minus", lambda: patch(m.ADD, "score_numpy", score_no_one_minus)),
            # mechanism 4: favourable / deleterious / neutral alleles
            ("facount_sign_flipped", lambda: patch(m.ADD, "facount", facount_sign_flipped)),
            ("facount_zero_effect_counted", lambda: patch(m.ADD, "facount", facount_zero_not_neutral)),
            ("dacount_max_is_ntaxa", lambda: patch(m.ADD, "dacount", dacount_ntaxa_only)),
            ("fapoly_le_max", lambda: patch(m.ADD, "fapoly", fapoly_le)),
            ("napoly_ge_zero", lambda: patch(m.ADD, "napoly", napoly_ge)),
            # state: derived quantities must follow the public setters (kind "requery")
            ("stale_u_cache_after_setter", stale_u),
            ("stale_beta_after_setter", lambda: patch(m.ADD, "beta", stale(m.ADD, "beta", "_c04_beta_cache"))),
            ("stale_u_a_in_gebv_numpy", lambda: patch(m.ADD, "u_a", stale(m.ADD, "u_a", "_c04_ua_cache"))),
            ("stale_u_d_after_setter", lambda: patch(m.DOM, "u_d", stale(m.DOM, "u_d", "_c04_ud_cache"))),
            ("stale_trait_labels", lambda: patch(m.ADD, "trait", stale(m.ADD, "trait", "_c04_trait_cache"))),
            ("facount_sign_mask_cached", lambda: patch(m.ADD, "facount", facount_cached_mask)),
            ("refit_polymorphism_mask_cached", lambda: fresh(patch(m.RR, "fit_numpy", classmethod(fit_mask_cached)))),
            ("refit_effects_in_shared_buffer", lambda: fresh(patch(m.RR, "fit_numpy", classmethod(fit_shared_buffer)))),
            ("refit_ml0_memoised_by_shape", lambda: fresh(patch(m.rr, "rrBLUP_ML0", ml0_memo))),
            # round 4: magnitudes / sizes / argument forms / entry points / histories
            ("bulmer_zero_test_isclose", lambda: patch(m.ADD, "bulmer_numpy", bulmer_isclose)),
            ("facount_neutral_test_isclose", lambda: patch(m.ADD, "facount", facount_neutral_isclose)),
            ("facount_int8_accumulator", lambda: patch(m.ADD, "facount", facount_int8_accumulator)),
            ("dacount_negative_zero_counted_deleterious", lambda: patch(m.ADD, "dacount", dacount_mask_signbit)),
            ("score_sst_about_bvmat_location", lambda: patch(m.ADD, "score", score_centre_from_bvm)),
            ("tbv_labels_taken_from_ptobj", lambda: patch(m.TBV, "estimate", tbv_labels_from_ptobj)),
            ("gebv_numpy_marker_blocks_tail_dropped", lambda: patch(m.ADD, "gebv_numpy", gebv_numpy_marker_blocks)),
            ("gebv_numpy_taxa_blocks_tail_dropped", lambda: patch(m.ADD, "gebv_numpy", gebv_numpy_taxa_blocks)),
            ("gebv_numpy_reads_memory_order", lambda: patch(m.ADD, "gebv_numpy", gebv_numpy_memory_order)),
            ("var_A_one_pass_formula", lambda: patch(m.ADD, "var_A_numpy", var_one_pass)),
            ("u_cached_by_array_identity", lambda: patch(m.ADD, "u", property(u_cached_by_identity))),
            ("var_A_memo_returned_without_copy", lambda: clean(patch(m.ADD, "var_A_numpy", var_A_memo))),
            ("var_a_memo_keyed_by_genotype_object", lambda: clean(patch(m.ADD, "var_a", var_a_memo_by_object))),
            ("deepcopy_shares_coefficient_arrays", lambda: patch(m.ADD, "__deepcopy__", deepcopy_shares_arrays)),
            ("rrblup_class_gebv_drops_location", lambda: patch(m.RR, "gebv", gebv_no_location)),
            ("rrblup_intercept_mean_in_float32", lambda: patch(m.rr, "rrBLUP_ML0", ml0_intercept_float32)),
            ("rrblup_ztz_in_int8", lambda: patch(m.rr, "rrBLUP_ML0_calc_ZtZplI", ztz_int8)),
            # the two repairs undone (D22b, D22)
            ("gs_first_test_uses_two_atol", lambda: patch(m.rr, "gauss_seidel", gs_first_test_two_atol)),
            ("rrblup_no_direct_solve_fallback", lambda: patch(m.rr, "rrBLUP_ML0", ml0_without_direct_solve)),
            ("gegv_numpy_skips_dominance_when_effects_cancel", lambda: patch(m.DOM, "gegv_numpy", gegv_numpy_additive_fast_path)),
            ("var_a_ploidy_not_forwarded", lambda: patch(m.ADD, "var_a", var_a_ploidy_not_forwarded)),
            ("rrblup_identical_columns_collapsed", lambda: patch(m.RR, "fit_numpy", classmethod(fit_collapses_identical_columns))),
            # mechanism 5: rrBLUP
            ("gs_wrong_sign_lower_part", lambda: patch(m.rr, "gauss_seidel", gs_jacobi_sign)),
            ("gs_stops_after_two_sweeps", lambda: patch(m.rr, "gauss_seidel", gs_two_sweeps)),
            ("gs_last_coordinate_dropped", lambda: patch(m.rr, "gauss_seidel", gs_skip_last)),
            ("rrblup_response_not_centred", lambda: patch(m.rr, "rrBLUP_ML0_center_y", center_identity)),
            ("rrblup_intercept_zero", lambda: patch(m.rr, "rrBLUP_ML0", ml0_intercept_zero)),
            ("rrblup_monomorphic_effect_one", lambda: patch(m.RR, "fit_numpy", classmethod(fit_mono_nonzero))),
            ("rrblup_scatter_reversed", lambda: patch(m.RR, "fit_numpy", classmethod(fit_scatter_reversed))),
        ]


PROP = C04()
