"""C04 — genomic-model predictions are linear, label-preserving and self-consistent; rrBLUP fit.

Case kinds
  lin      one model (additive, optionally with dominance effects) + one phased genotype:
           gebv / gegv / predict / score / var_A / var_G / var_a / bulmer through every entry point
           (phased matrix, unphased projection, raw dosage array, TrueBreedingValue, the base-class
           code path), under a taxon permutation and a marker partition
  alleles  the twelve favourable / deleterious / neutral allele functions
  gs       gauss_seidel(A, b, atol, maxiter) called directly, few sweeps (functional correspondence)
  ml0      rrBLUP_ML0(y, Z, gsmaxiter = 1..4) with the ML ridge recorded as oracle input
  fit      rrBLUPModel0.fit_numpy / fit: wrapper correspondence + the four fitted-model clauses
  requery  ONE additive (and one dominance) model object is queried on every prediction / statistics /
           allele entry point, then mutated through the public setters (u_a, u_d, beta, u_misc, trait)
           and queried again after every assignment; model and Spec are recomputed from the NEW
           parameters, and predict(Xstar rows) must equal gebv / gegv on the same object
  refit    a fitted rrBLUP object is queried, then `fit_numpy` is called THROUGH THAT OBJECT with new data
           (other size, other markers); the second model must be the fit of the new data alone, the first
           must be untouched and share no array with the second, also after assigning to the setters
"""
import contextlib
import json
from fractions import Fraction

import numpy

from .. import canon, compat
from ..core import Prop

compat.install()

ATOL = 1e-08          # default gsatol of rrBLUP_ML0
RELTOL = Fraction(1, 10 ** 6)


class _M:
    pass


_mods_cache = None


def _mods():
    global _mods_cache
    if _mods_cache is None:
        compat.import_pybrops()
        m = _M()
        import pybrops.model.gmod.DenseLinearGenomicModel as lin
        import pybrops.model.gmod.DenseAdditiveLinearGenomicModel as add
        import pybrops.model.gmod.DenseAdditiveDominanceLinearGenomicModel as dom
        import pybrops.model.gmod.rrBLUPModel0 as rr
        import pybrops.popgen.gmat.DenseGenotypeMatrix as gm
        import pybrops.popgen.gmat.DensePhasedGenotypeMatrix as pgm
        import pybrops.breed.prot.bv.TrueBreedingValue as tbv
        m.lin, m.add, m.dom, m.rr, m.gm, m.pgm, m.tbv = lin, add, dom, rr, gm, pgm, tbv
        m.LIN = lin.DenseLinearGenomicModel
        m.ADD = add.DenseAdditiveLinearGenomicModel
        m.DOM = dom.DenseAdditiveDominanceLinearGenomicModel
        m.RR = rr.rrBLUPModel0
        m.GM = gm.DenseGenotypeMatrix
        m.PGM = pgm.DensePhasedGenotypeMatrix
        m.TBV = tbv.TrueBreedingValue
        import pybrops.popgen.bvmat.DenseBreedingValueMatrix as bvm
        m.BVM = bvm.DenseBreedingValueMatrix
        _mods_cache = m
    return _mods_cache


def _f(x):
    return float(Fraction(x))


def _farr(rows, ncol=None):
    a = numpy.array([[_f(v) for v in r] for r in rows], dtype=float)
    if a.ndim != 2:
        a = a.reshape(len(rows), ncol if ncol is not None else 0)
    return a


def _bv(b):
    """observable content of a breeding value matrix: raw values and labels"""
    return {"mat": canon.enc(b.unscale()),
            "taxa": None if b.taxa is None else [str(x) for x in b.taxa],
            "grp": None if b.taxa_grp is None else [int(x) for x in b.taxa_grp],
            "trait": None if b.trait is None else [str(x) for x in b.trait]}


def _fsum(mats):
    """exact entrywise sum of encoded matrices"""
    acc = None
    for m in mats:
        d = canon.dec(m)
        acc = d if acc is None else [[a + b for a, b in zip(r, s)] for r, s in zip(acc, d)]
    return canon.enc(acc)


def _take(lst, idx):
    return None if lst is None else [lst[i] for i in idx]


def _gperm(g, idx):
    return [[ph[i] for i in idx] for ph in g]


def _gcols(g, cols):
    return [[[row[j] for j in cols] for row in ph] for ph in g]


def _gs_sweeps(A, b, atol, maxiter=1000):
    """transcription of gauss_seidel that also reports the number of sweeps (signature only)"""
    n = len(b)
    xp = numpy.zeros(n)
    xc = numpy.zeros(n)
    it = 0
    ad = 2 * atol
    while numpy.any(ad > atol) and it < maxiter:
        xp[:] = xc
        for i in range(n):
            xc[i] = (b[i] - A[i, :i].dot(xc[:i]) - A[i, i + 1:].dot(xc[i + 1:])) / A[i, i]
        ad = numpy.abs(xc - xp)
        it += 1
    return xc, it, bool(numpy.any(ad > atol))


class C04(Prop):
    PID = "C04"
    MODULE = "PybropsModel.Props.C04"
    N_QUICK = 320
    N_THOROUGH = 4000
    CORRESPONDENCE = "functional (predictions, statistics, allele functions, Gauss-Seidel sweeps, fit wrapper) + relational (fitted model vs its penalised criterion with the ridge chosen by the ML step)"
    RULE = ("lin: ploidy 1-4, 1-9 taxa x 1-7 markers x 1-3 traits x 1-3 fixed effects, phased 0/1 genotypes with "
            "forced fixed loci and heterozygotes, integer/half-integer effects with exact zeros and both signs, "
            "unsorted unique taxa names and group labels, a random taxon permutation and a 2-3 part marker split; "
            "alleles: effects in {-,0,+} per (marker, trait), loci fixed at 0 / fixed at ploidy / polymorphic, "
            "population sizes incl. 49/98/103/107; gs: symmetric dyadic A with positive diagonal, 0-5 sweeps, "
            "atol in {1e-8, 0, 1/4}; ml0/fit: integer genotypes with monomorphic and duplicated columns, "
            "n <= p and n > p, noiseless / noisy / constant responses; requery: 1-4 assignments through the "
            "public setters u_a / u_d / beta / u_misc / trait on one model object, every entry point re-queried "
            "after each.  Non-trivial = lin case with >= 2 taxa "
            "carrying different dosage rows and a non-zero effect; alleles case with a polymorphic marker and a "
            "non-zero effect; gs case with >= 2 unknowns and >= 1 sweep; ml0/fit case with >= 2 polymorphic markers; refit case whose "
            "second data set differs and has a polymorphic marker; requery case "
            "with >= 2 distinct dosage rows and an assignment that changes a coefficient matrix")
    TRUSTED = [
        "scipy Nelder-Mead ML step and numpy.linalg.eigh of rrBLUP_ML0: entered as an oracle (the ridge varE/varU "
        "the implementation chose is recorded and handed to the Spec / model); only ridge > 0 is used",
        "DenseBreedingValueMatrix.from_numpy / unscale (values are observed through unscale(); their round trip is C15)",
        "numpy matmul / sum / var / where as modelled in Model/GenomicModel.lean",
    ]
    ASSUMPTIONS = [
        "effects, intercepts, covariates and responses are integers or dyadic rationals: float results are compared "
        "with the exact rational value at rel 1e-9",
        "a raw numpy dosage array handed to the dominance model is diploid {0,1,2} (documented in predict(); the "
        "ndarray branch has no ploidy argument and uses D = (gtobj == 1))",
        "score: responses are not constant per trait (SST != 0)",
        "normal-equation clause: residual <= max(1e-6 * max(1, |Z'y_c|_inf), 2 * gsatol * max_i sum_{j != i} |A_ij|)",
    ]

    # ------------------------------------------------------------------ generation helpers
    @staticmethod
    def _eff(rng, nrow, t, zeros=True):
        pool = [-3, -2, -1, -1, 1, 1, 2, 3, Fraction(1, 2), Fraction(-3, 2), Fraction(5, 4)]
        if zeros:
            pool = pool + [0, 0, 0]
        return [[rng.choice(pool) for _ in range(t)] for _ in range(nrow)]

    @staticmethod
    def _geno(rng, ploidy, n, p):
        g = [[[rng.randint(0, 1) for _ in range(p)] for _ in range(n)] for _ in range(ploidy)]
        for j in range(p):
            r = rng.random()
            if r < 0.12:
                for ph in g:
                    for row in ph:
                        row[j] = 0
            elif r < 0.24:
                for ph in g:
                    for row in ph:
                        row[j] = 1
        return g

    def _lin_case(self, rng):
        ploidy = rng.choice([1, 2, 2, 2, 2, 3, 4])
        n = rng.choice([1, 2, 3, 4, 5, 6, 9])
        p = rng.choice([1, 2, 3, 4, 5, 7])
        t = rng.choice([1, 2, 2, 3])
        q = rng.choice([1, 1, 2, 3])
        g = self._geno(rng, ploidy, n, p)
        names = ["tx%02d" % i for i in range(n)]
        rng.shuffle(names)
        grp = [rng.randint(1, 4) for _ in range(n)]
        labelled = rng.random() < 0.85
        perm = list(range(n))
        rng.shuffle(perm)
        cuts = sorted(rng.sample(range(1, p), min(p - 1, rng.choice([1, 1, 2])))) if p > 1 else []
        X = [[1] + [rng.choice([0, 1, 2, Fraction(1, 2)]) for _ in range(q - 1)] for _ in range(n)]
        Y = [[rng.choice([-2, -1, 0, 1, 2, 3, Fraction(7, 2)]) for _ in range(t)] for _ in range(n)]
        for k in range(t):      # SST != 0 whenever there are >= 2 taxa
            if n >= 2 and len({row[k] for row in Y}) == 1:
                Y[0][k] = Y[0][k] + 1
        c = {"kind": "lin", "ploidy": ploidy, "g": g, "t": t,
             "beta": canon.enc(self._eff(rng, q, t)), "ua": canon.enc(self._eff(rng, p, t)),
             "ud": canon.enc(self._eff(rng, p, t)) if rng.random() < 0.6 else None,
             "taxa": names if labelled else None, "grp": grp if labelled and rng.random() < 0.8 else None,
             "perm": perm, "cuts": cuts, "X": canon.enc(X), "Y": canon.enc(Y)}
        return c

    def _alleles_case(self, rng):
        ploidy = rng.choice([1, 2, 2, 2, 3, 4])
        n = rng.choice([1, 2, 3, 5, 8, 49, 98, 103, 107]) if rng.random() < 0.25 else rng.randint(1, 8)
        p = rng.randint(1, 6)
        t = rng.choice([1, 2, 3])
        g = self._geno(rng, ploidy, n, p)
        ua = [[rng.choice([-2, -1, Fraction(-1, 2), 0, 0, Fraction(1, 4), 1, 3]) for _ in range(t)] for _ in range(p)]
        return {"kind": "alleles", "ploidy": ploidy, "g": g, "ua": canon.enc(ua)}

    def _gs_case(self, rng):
        n = rng.choice([1, 2, 2, 3, 3, 4, 5])
        B = [[rng.choice([-2, -1, 0, 1, 2, Fraction(1, 2)]) for _ in range(n)] for _ in range(n)]
        A = [[0] * n for _ in range(n)]
        for i in range(n):
            for j in range(i + 1, n):
                A[i][j] = A[j][i] = B[i][j]
        dd = rng.random() < 0.6      # diagonally dominant or merely positive diagonal
        for i in range(n):
            off = sum(abs(Fraction(A[i][j])) for j in range(n) if j != i)
            A[i][i] = (off + rng.choice([1, 2, Fraction(1, 2)])) if dd else rng.choice([1, 2, 4, Fraction(1, 2)])
        b = [rng.choice([-3, -1, 0, 1, 2, 5, Fraction(3, 2)]) for _ in range(n)]
        atol = rng.choice([Fraction(ATOL), Fraction(ATOL), Fraction(0), Fraction(1, 4)])
        return {"kind": "gs", "A": canon.enc(A), "b": canon.enc(b), "atol": canon.enc(atol),
                "maxiter": rng.choice([0, 1, 1, 2, 3, 4, 5])}

    @staticmethod
    def _train(rng, n, p, t, mono=True, dup=True, allpoly=False):
        Z = [[rng.randint(0, 2) for _ in range(p)] for _ in range(n)]
        for j in range(p):
            r = rng.random()
            if mono and not allpoly and r < 0.18:
                v = rng.randint(0, 2)
                for row in Z:
                    row[j] = v
            elif dup and j > 0 and r < 0.28:
                src = rng.randrange(j)
                for row in Z:
                    row[j] = row[src]
        def poly(j):
            return any(row[j] != Z[0][j] for row in Z)
        need = range(p) if allpoly else [0]
        for j in need:
            if not poly(j):
                Z[0][j] = (Z[0][j] + 1) % 3
                if n >= 2 and Z[1][j] == Z[0][j]:
                    Z[1][j] = (Z[1][j] + 1) % 3
        Y = []
        cols = []
        for k in range(t):
            u = [rng.choice([-2, -1, 0, 1, 2, 3]) for _ in range(p)]
            style = rng.random()
            noise = 0 if style < 0.35 else rng.choice([Fraction(1, 2), 1, 2])
            col = [sum(z * w for z, w in zip(row, u)) + 5 + noise * rng.randint(-3, 3) for row in Z]
            if style > 0.95:
                col = [Fraction(3)] * n
            cols.append(col)
        Y = [[cols[k][i] for k in range(t)] for i in range(n)]
        return Z, Y

    def _ml0_case(self, rng):
        p = rng.choice([1, 2, 3, 4])
        n = rng.choice([2, 3, 4, 6, 8])
        Z, Y = self._train(rng, n, p, 1, allpoly=True)
        return {"kind": "ml0", "Z": Z, "y": canon.enc([r[0] for r in Y]), "maxiter": rng.choice([1, 2, 3, 4])}

    def _fit_case(self, rng):
        p = rng.choice([1, 2, 3, 4, 5, 6, 8])
        n = rng.choice([2, 3, 4, 5, 6, 7, 9, 12, 14])
        t = rng.choice([1, 1, 2])
        Z, Y = self._train(rng, n, p, t)
        return {"kind": "fit", "Z": Z, "Y": canon.enc(Y), "via": rng.choice(["fit_numpy", "fit_numpy", "fit", "fit_bvm"])}

    def _refit_case(self, rng):
        t = rng.choice([1, 1, 2])
        Z1, Y1 = self._train(rng, rng.choice([3, 4, 6, 8]), rng.choice([1, 2, 3, 4]), t)
        same = rng.random() < 0.5       # same shapes: the case in which a stale cache goes unnoticed by shape checks
        n2 = len(Z1) if same else rng.choice([3, 5, 7])
        p2 = len(Z1[0]) if same else rng.choice([1, 2, 3, 5])
        Z2, Y2 = self._train(rng, n2, p2, t)
        return {"kind": "refit", "Z1": Z1, "Y1": canon.enc(Y1), "Z2": Z2, "Y2": canon.enc(Y2)}

    def _requery_case(self, rng):
        ploidy = rng.choice([1, 2, 2, 2, 3, 4])
        n = rng.choice([2, 3, 4, 5])
        p = rng.choice([1, 2, 3, 4])
        t = rng.choice([1, 2, 2])
        q = rng.choice([1, 2, 3])
        pm = rng.choice([0, 0, 0, 1, 2])
        g = self._geno(rng, ploidy, n, p)
        names = ["tx%02d" % i for i in range(n)]
        rng.shuffle(names)
        X = [[1] + [rng.choice([0, 1, 2, Fraction(1, 2)]) for _ in range(q - 1)] for _ in range(n)]
        Y = [[rng.choice([-2, -1, 0, 1, 2, 3, Fraction(7, 2)]) for _ in range(t)] for _ in range(n)]
        for k in range(t):
            if len({row[k] for row in Y}) == 1:
                Y[0][k] = Y[0][k] + 1
        has_d = rng.random() < 0.6
        setters = ["u_a", "u_a", "beta", "trait"] + (["u_d"] if has_d else []) + (["u_misc"] if pm else [])
        steps = []
        for _ in range(rng.choice([1, 2, 2, 3, 4])):
            w = rng.choice(setters)
            if w == "trait":
                steps.append({"set": "trait", "value": ["new%d_%d" % (len(steps), k) for k in range(t)]})
            else:
                rows = {"u_a": p, "u_d": p, "beta": q, "u_misc": pm}[w]
                steps.append({"set": w, "value": canon.enc(self._eff(rng, rows, t, zeros=(w != "u_a")))})
        return {"kind": "requery", "ploidy": ploidy, "g": g, "t": t,
                "beta": canon.enc(self._eff(rng, q, t)), "ua": canon.enc(self._eff(rng, p, t)),
                "ud": canon.enc(self._eff(rng, p, t)) if has_d else None,
                "um": canon.enc(self._eff(rng, pm, t)) if pm else None,
                "Zm": canon.enc([[rng.choice([0, 1, 2, Fraction(1, 2)]) for _ in range(pm)] for _ in range(n)]) if pm else None,
                "taxa": names, "grp": [rng.randint(1, 3) for _ in range(n)],
                "X": canon.enc(X), "Y": canon.enc(Y), "steps": steps}

    def corpus(self):
        return [
            # every entry point, labels unsorted, exact zeros, an all-zero trait column
            {"kind": "lin", "ploidy": 2, "t": 2,
             "g": [[[0, 1, 1], [1, 1, 0], [0, 0, 0]], [[1, 1, 0], [1, 0, 0], [0, 0, 1]]],
             "beta": [[1, 2], [3, 0], ["1/2", 1]], "ua": [[1, 0], [0, 0], [-2, 0]], "ud": [[1, 0], [0, 1], ["1/2", 0]],
             "taxa": ["c", "a", "b"], "grp": [3, 1, 2], "perm": [2, 0, 1], "cuts": [1],
             "X": [[1, 0, 0], [1, 1, 0], [1, 0, 1]], "Y": [[1, 2], [3, 5], [2, 2]]},
            # tetraploid, single taxon, single marker, additive only, unlabeled
            {"kind": "lin", "ploidy": 4, "t": 1, "g": [[[1]], [[1]], [[0]], [[1]]],
             "beta": [[2]], "ua": [[3]], "ud": None, "taxa": None, "grp": None, "perm": [0], "cuts": [],
             "X": [[1]], "Y": [[1]]},
            # all loci fixed: var_a = 0 -> bulmer NaN
            {"kind": "lin", "ploidy": 2, "t": 1, "g": [[[1, 0], [1, 0]], [[1, 0], [1, 0]]],
             "beta": [[0]], "ua": [[1], [2]], "ud": [[1], [1]], "taxa": ["x", "y"], "grp": None, "perm": [1, 0],
             "cuts": [1], "X": [[1], [1]], "Y": [[0], [1]]},
            {"kind": "alleles", "ploidy": 2, "g": [[[0, 1, 1, 0], [0, 1, 0, 1]], [[0, 1, 1, 1], [0, 1, 0, 0]]],
             "ua": [[1, -1, 0], [1, -1, 0], [2, 0, "-1/2"], [0, 0, 0]]},
            {"kind": "alleles", "ploidy": 1, "g": [[[1] for _ in range(49)]], "ua": [[1, -1]]},
            {"kind": "gs", "A": [[4, 1], [1, 3]], "b": [1, 2], "atol": canon.enc(Fraction(ATOL)), "maxiter": 3},
            {"kind": "gs", "A": [[1, 2], [2, 1]], "b": [1, 1], "atol": canon.enc(Fraction(ATOL)), "maxiter": 4},
            {"kind": "gs", "A": [[2]], "b": [3], "atol": 0, "maxiter": 5},
            {"kind": "ml0", "Z": [[0, 1], [1, 1], [2, 0], [1, 2]], "y": [1, 2, 4, 3], "maxiter": 2},
            # well determined, well conditioned
            {"kind": "fit", "via": "fit_numpy", "Z": [[0, 1, 2], [1, 1, 2], [2, 0, 2], [1, 2, 2], [0, 0, 2], [2, 2, 2]],
             "Y": [[1, 0], [2, 3], [4, 1], [3, 1], [0, 2], [5, "1/2"]]},
            # more markers than records
            {"kind": "fit", "via": "fit_numpy", "Z": [[0, 1, 2, 0], [1, 1, 0, 2], [2, 0, 1, 1]], "Y": [[1], [2], [4]]},
            # constant response
            {"kind": "fit", "via": "fit_numpy", "Z": [[0, 1], [1, 1], [2, 0], [1, 2]], "Y": [[3], [3], [3], [3]]},
            # evaluate, assign new marker effects / intercepts / dominance effects / trait names, evaluate again
            {"kind": "requery", "ploidy": 2, "t": 1, "g": [[[0, 1], [1, 1], [0, 0]], [[1, 1], [1, 0], [0, 0]]],
             "beta": [[1], [2]], "ua": [[1], [-2]], "ud": [[1], [0]], "um": None, "Zm": None,
             "taxa": ["c", "a", "b"], "grp": [3, 1, 2], "X": [[1, 0], [1, 1], [1, 2]], "Y": [[1], [3], [2]],
             "steps": [{"set": "u_a", "value": [[-3], [1]]}, {"set": "beta", "value": [[5], [0]]},
                       {"set": "u_d", "value": [[0], [2]]}, {"set": "trait", "value": ["yield"]}]},
            # with miscellaneous random effects (predict_numpy / score_numpy only)
            {"kind": "requery", "ploidy": 2, "t": 2, "g": [[[0, 1], [1, 1]], [[1, 0], [1, 0]]],
             "beta": [[1, 0]], "ua": [[1, 2], [-2, 0]], "ud": None, "um": [[1, 1]], "Zm": [[1], [2]],
             "taxa": ["b", "a"], "grp": [1, 1], "X": [[1], [1]], "Y": [[1, 0], [3, 2]],
             "steps": [{"set": "u_misc", "value": [[-2, 3]]}, {"set": "u_a", "value": [[0, 1], [4, -1]]}]},
            # refit through a fitted object: same shapes, different data (monomorphic column moves)
            {"kind": "refit", "Z1": [[0, 1, 2], [1, 1, 2], [2, 0, 2], [1, 2, 2]], "Y1": [[1], [2], [4], [3]],
             "Z2": [[1, 1, 0], [1, 0, 2], [1, 2, 1], [1, 1, 1]], "Y2": [[5], [1], [0], [2]]},
        ] + self._finding_cases()

    @staticmethod
    def _finding_cases():
        """n > p training sets on which gauss_seidel stops at maxiter = 1000 far from the solution (D22)"""
        return [
            # two identical markers, three records: 1000 sweeps cover 4 % of the way to the solution
            {"kind": "fit", "via": "fit_numpy", "Z": [[1, 1], [0, 0], [1, 1]], "Y": [[4], [5], [4]]},
            # full column rank, 6 records x 5 markers, cond(Z'Z) ~ 1e3: relative residual 3.5e-4, error in u 0.13
            {"kind": "fit", "via": "fit_numpy",
             "Z": [[2, 1, 0, 2, 1], [1, 2, 0, 1, 0], [2, 0, 0, 1, 2], [2, 2, 0, 2, 1], [2, 1, 2, 1, 0], [1, 0, 1, 1, 0]],
             "Y": [[-3], [8], [-5], [-2], [6], [6]]},
        ]

    def generate(self, rng, n, tier):
        out = []
        for _ in range(n):
            r = rng.random()
            if r < 0.36:
                out.append(self._lin_case(rng))
            elif r < 0.56:
                out.append(self._alleles_case(rng))
            elif r < 0.70:
                out.append(self._gs_case(rng))
            elif r < 0.78:
                out.append(self._ml0_case(rng))
            elif r < 0.87:
                out.append(self._requery_case(rng))
            elif r < 0.91:
                out.append(self._refit_case(rng))
            else:
                out.append(self._fit_case(rng))
        return out

    # ------------------------------------------------------------------ implementation
    def _mk_geno(self, m, g, taxa, grp, ploidy):
        arr = numpy.array(g, dtype="int8").reshape(ploidy, len(g[0]), -1)
        tx = None if taxa is None else numpy.array(taxa, dtype=object)
        gp = None if grp is None else numpy.array(grp, dtype=int)
        pg = m.PGM(arr.copy(), taxa=tx, taxa_grp=gp)
        ug = m.GM(arr.sum(0, dtype="int8"), taxa=tx, taxa_grp=gp, ploidy=ploidy)
        raw = arr.sum(0, dtype="int64")
        return pg, ug, raw

    def _run_lin(self, case):
        m = _mods()
        ploidy, t = case["ploidy"], case["t"]
        g = case["g"]
        n, p = len(g[0]), len(case["ua"])
        beta = _farr(case["beta"], t)
        ua = _farr(case["ua"], t)
        ud = None if case["ud"] is None else _farr(case["ud"], t)
        trait = numpy.array(["trait%d" % k for k in range(t)], dtype=object)
        X = _farr(case["X"], beta.shape[0])
        Y = _farr(case["Y"], t)
        pg, ug, raw = self._mk_geno(m, g, case["taxa"], case["grp"], ploidy)
        snap = (pg.mat.copy(), ug.mat.copy(), raw.copy(), beta.copy(), ua.copy())
        add = m.ADD(beta=beta, u_misc=None, u_a=ua, trait=trait)
        perm = case["perm"]
        pgp, ugp, rawp = self._mk_geno(m, _gperm(g, perm), _take(case["taxa"], perm), _take(case["grp"], perm), ploidy)
        obs = {"views": {}, "stats": {}}
        V = obs["views"]
        V["gebv_phased"] = _bv(add.gebv(pg))
        V["gebv_unphased"] = _bv(add.gebv(ug))
        V["gebv_raw"] = _bv(add.gebv(raw))
        V["gebv_tbv"] = _bv(m.TBV(add).estimate(None, pg))
        V["gebv_baseclass"] = _bv(m.LIN.gebv(add, pg))
        V["gegv_additive"] = _bv(add.gegv(ug))
        V["gebv_perm"] = _bv(add.gebv(pgp))
        V["gebv_numpy"] = {"mat": canon.enc(add.gebv_numpy(raw.astype(float)))}
        V["predict_phased"] = _bv(add.predict(X, pg))
        V["predict_raw"] = _bv(add.predict(X, raw))
        V["predict_perm"] = _bv(add.predict(X[perm, :], ugp))
        # marker partition through the public API: one sub-model per block, intercept in the first only
        bounds = [0] + list(case["cuts"]) + [p]
        parts = []
        for bi in range(len(bounds) - 1):
            a, b = bounds[bi], bounds[bi + 1]
            sub = m.ADD(beta=beta if bi == 0 else numpy.zeros_like(beta), u_misc=None, u_a=ua[a:b, :].copy(), trait=trait)
            gsub = m.GM(ug.mat[:, a:b].copy(), taxa=ug.taxa, taxa_grp=ug.taxa_grp, ploidy=ploidy)
            parts.append(_bv(sub.gebv(gsub)))
        V["gebv_parts"] = {"mat": _fsum([x["mat"] for x in parts]), "taxa": parts[0]["taxa"], "grp": parts[0]["grp"],
                           "trait": parts[0]["trait"]}
        S = obs["stats"]
        S["var_A"] = canon.enc(add.var_A(pg))
        S["var_G_add"] = canon.enc(add.var_G(ug))
        S["var_A_raw"] = canon.enc(add.var_A(raw))
        S["var_a"] = canon.enc(add.var_a(pg))
        S["var_a_raw"] = canon.enc(add.var_a(raw, ploidy))
        S["var_a_baseclass"] = canon.enc(m.LIN.var_a(add, ug))
        S["afreq"] = canon.enc(pg.afreq())
        S["bulmer"] = canon.enc(add.bulmer(pg))
        S["bulmer_raw"] = canon.enc(add.bulmer(raw, ploidy))
        S["score"] = canon.enc(add.score(Y, X, pg))
        S["score_raw"] = canon.enc(add.score(Y, X, raw))
        bvm = m.BVM.from_numpy(Y.copy(), taxa=pg.taxa, taxa_grp=pg.taxa_grp, trait=trait)
        S["score_bvm"] = canon.enc(add.score(bvm, X, pg))
        obs["bvm"] = {"mat": canon.enc(bvm.mat), "loc": canon.enc(bvm.location), "scale": canon.enc(bvm.scale)}
        if ud is not None:
            dom = m.DOM(beta=beta, u_misc=None, u_a=ua, u_d=ud, trait=trait)
            V["gegv_phased"] = _bv(dom.gegv(pg))
            V["gegv_unphased"] = _bv(dom.gegv(ug))
            if ploidy == 2:
                V["gegv_raw"] = _bv(dom.gegv(raw))
                V["predict_dom_raw"] = _bv(dom.predict(X, raw))
            V["gegv_perm"] = _bv(dom.gegv(ugp))
            V["gebv_dom"] = _bv(dom.gebv(pg))
            V["predict_dom"] = _bv(dom.predict(X, pg))
            parts = []
            for bi in range(len(bounds) - 1):
                a, b = bounds[bi], bounds[bi + 1]
                sub = m.DOM(beta=beta if bi == 0 else numpy.zeros_like(beta), u_misc=None, u_a=ua[a:b, :].copy(),
                            u_d=ud[a:b, :].copy(), trait=trait)
                gsub = m.PGM(pg.mat[:, :, a:b].copy(), taxa=pg.taxa, taxa_grp=pg.taxa_grp)
                parts.append(_bv(sub.gegv(gsub)))
            V["gegv_parts"] = {"mat": _fsum([x["mat"] for x in parts]), "taxa": parts[0]["taxa"],
                               "grp": parts[0]["grp"], "trait": parts[0]["trait"]}
            S["var_G"] = canon.enc(dom.var_G(pg))
            S["var_G_unphased"] = canon.enc(dom.var_G(ug))
            S["var_A_dom"] = canon.enc(dom.var_A(pg))
            S["score_dom"] = canon.enc(dom.score(Y, X, ug))
            S["score_dom_bvm"] = canon.enc(dom.score(bvm, X, pg))
            S["var_a_dom"] = canon.enc(dom.var_a(pg))
            S["bulmer_dom"] = canon.enc(dom.bulmer(ug))
        obs["inputs_untouched"] = bool((snap[0] == pg.mat).all() and (snap[1] == ug.mat).all()
                                       and (snap[2] == raw).all() and (snap[3] == beta).all() and (snap[4] == ua).all())
        obs["trait"] = [str(x) for x in trait]
        return obs

    _ALLELE_FNS = ("facount fafreq faavail fafixed fapoly nafixed napoly dacount dafreq daavail dafixed dapoly").split()

    def _run_alleles(self, case):
        m = _mods()
        ploidy = case["ploidy"]
        ua = _farr(case["ua"], len(case["ua"][0]))
        beta = numpy.zeros((1, ua.shape[1]))
        add = m.ADD(beta=beta, u_misc=None, u_a=ua, trait=None)
        pg, ug, _ = self._mk_geno(m, case["g"], None, None, ploidy)
        obs = {"phased": {}, "unphased": {}}
        for fn in self._ALLELE_FNS:
            obs["phased"][fn] = canon.enc(getattr(add, fn)(pg))
            obs["unphased"][fn] = canon.enc(getattr(add, fn)(ug))
        return obs

    def _run_gs(self, case):
        m = _mods()
        A = _farr(case["A"], len(case["b"]))
        b = numpy.array([_f(v) for v in case["b"]], dtype=float)
        x = m.rr.gauss_seidel(A, b, _f(case["atol"]), case["maxiter"])
        return {"x": canon.enc(x)}

    def _run_ml0(self, case):
        m = _mods()
        Z = numpy.array(case["Z"], dtype=float)
        y = numpy.array([_f(v) for v in case["y"]], dtype=float)
        out = m.rr.rrBLUP_ML0(y, Z, gsmaxiter=case["maxiter"])
        ridge = m.rr.rrBLUP_ML0_calc_ridge(out["varE"], out["varU"])
        return {"betahat": canon.enc(out["betahat"]), "uhat": canon.enc(out["uhat"]), "ridge": canon.enc(ridge),
                "yhat": canon.enc(out["yhat"])}

    def _run_fit(self, case):
        m = _mods()
        Z = numpy.array(case["Z"], dtype=float)
        t = len(case["Y"][0])
        Y = _farr(case["Y"], t)
        rec = []
        inner = m.rr.rrBLUP_ML0

        def recorder(*a, **k):
            out = inner(*a, **k)
            rec.append({"ridge": canon.enc(m.rr.rrBLUP_ML0_calc_ridge(out["varE"], out["varU"])),
                        "uhat": canon.enc(out["uhat"])})
            return out
        m.rr.rrBLUP_ML0 = recorder
        try:
            if case.get("via") == "fit":
                gmat = m.GM(numpy.array(case["Z"], dtype="int8"), ploidy=2)
                mod = m.RR.fit(Y, None, gmat)
            elif case.get("via") == "fit_bvm":     # phenotypes handed over as a breeding value matrix
                gmat = m.GM(numpy.array(case["Z"], dtype="int8"), ploidy=2)
                mod = m.RR.fit(m.BVM.from_numpy(Y.copy()), None, gmat)
            else:
                mod = m.RR.fit_numpy(Y, None, Z)
        finally:
            m.rr.rrBLUP_ML0 = inner
        return {"beta": canon.enc(mod.beta), "u_a": canon.enc(mod.u_a), "ridges": [r["ridge"] for r in rec],
                "sols": [r["uhat"] for r in rec], "class": type(mod).__name__}

    def _fit_recorded(self, m, caller, Y, Z):
        rec = []
        inner = m.rr.rrBLUP_ML0

        def recorder(*a, **k):
            out = inner(*a, **k)
            rec.append({"ridge": canon.enc(m.rr.rrBLUP_ML0_calc_ridge(out["varE"], out["varU"])),
                        "uhat": canon.enc(out["uhat"])})
            return out
        m.rr.rrBLUP_ML0 = recorder
        try:
            mod = caller.fit_numpy(Y, None, Z)
        finally:
            m.rr.rrBLUP_ML0 = inner
        return mod, [r["ridge"] for r in rec], [r["uhat"] for r in rec]

    def _run_refit(self, case):
        m = _mods()
        t = len(case["Y1"][0])
        Z1 = numpy.array(case["Z1"], dtype=float)
        Z2 = numpy.array(case["Z2"], dtype=float)
        Y1, Y2 = _farr(case["Y1"], t), _farr(case["Y2"], t)
        snap = (Z1.copy(), Y1.copy())
        m1, rid1, sol1 = self._fit_recorded(m, m.RR, Y1, Z1)
        first = {"beta": canon.enc(m1.beta), "u_a": canon.enc(m1.u_a), "ridges": rid1, "sols": sol1}
        g1 = m.GM(numpy.array(case["Z1"], dtype="int8"), ploidy=2)
        g2 = m.GM(numpy.array(case["Z2"], dtype="int8"), ploidy=2)
        gebv1_before = canon.enc(m1.gebv(g1).unscale())
        m2, rid2, sol2 = self._fit_recorded(m, m1, Y2, Z2)          # refit THROUGH the fitted object
        second = {"beta": canon.enc(m2.beta), "u_a": canon.enc(m2.u_a), "ridges": rid2, "sols": sol2,
                  "class": type(m2).__name__}
        obs = {"first": first, "second": second,
               "first_after": {"beta": canon.enc(m1.beta), "u_a": canon.enc(m1.u_a)},
               "gebv1_before": gebv1_before, "gebv1_after": canon.enc(m1.gebv(g1).unscale()),
               "gebv2": canon.enc(m2.gebv(g2).unscale()),
               "predict2": canon.enc(m2.predict(numpy.ones((Z2.shape[0], 1)), g2).unscale()),
               "distinct_objects": m2 is not m1,
               "shares_memory": bool(numpy.shares_memory(m1.u_a, m2.u_a) or numpy.shares_memory(m1.beta, m2.beta)),
               "training_data_untouched": bool((snap[0] == Z1).all() and (snap[1] == Y1).all())}
        # assigning to the first object must not leak into the second
        m1.u_a = numpy.full_like(m1.u_a, 7.0)
        m1.beta = numpy.full_like(m1.beta, -3.0)
        obs["second_after_setters"] = {"beta": canon.enc(m2.beta), "u_a": canon.enc(m2.u_a)}
        obs["gebv2_after_setters"] = canon.enc(m2.gebv(g2).unscale())
        return obs

    def _query(self, m, add, dom, case, pg, ug, raw, X, Y, Zm):
        """every prediction / statistics / allele entry point of the SAME model objects"""
        ploidy = case["ploidy"]
        n, q = X.shape
        misc = Zm is not None
        A = raw.astype(float)
        Xs = numpy.empty((n, q), dtype=float)
        Xs[:, 0] = 1
        Xs[:, 1:] = 1 / q
        V, S = {}, {}
        V["gebv_phased"] = _bv(add.gebv(pg))
        V["gebv_raw"] = _bv(add.gebv(raw))
        V["gebv_tbv"] = _bv(m.TBV(add).estimate(None, pg))
        V["gegv_additive"] = _bv(add.gegv(ug))
        V["gebv_numpy"] = {"mat": canon.enc(add.gebv_numpy(A))}
        Za = A if not misc else numpy.concatenate([Zm, A], axis=1)
        V["predict_numpy_misc"] = {"mat": canon.enc(add.predict_numpy(X, Za))}
        S["score_numpy_misc"] = canon.enc(add.score_numpy(Y, X, Za))
        S["var_A"] = canon.enc(add.var_A(pg))
        S["var_G_add"] = canon.enc(add.var_G(ug))
        S["var_a"] = canon.enc(add.var_a(pg))
        S["bulmer"] = canon.enc(add.bulmer(pg))
        if not misc:
            V["gebv_baseclass"] = _bv(m.LIN.gebv(add, pg))
            V["predict_phased"] = _bv(add.predict(X, pg))
            V["predict_raw"] = _bv(add.predict(X, raw))
            V["predict_xstar"] = _bv(add.predict(Xs, pg))          # must equal gebv on the same object
            S["score"] = canon.enc(add.score(Y, X, pg))
            S["var_a_baseclass"] = canon.enc(m.LIN.var_a(add, ug))
        if dom is not None:
            D = numpy.logical_and(raw != 0, raw != ploidy).astype(float)
            Zd = numpy.concatenate(([Zm] if misc else []) + [A, D], axis=1)
            V["gegv_phased"] = _bv(dom.gegv(pg))
            V["gegv_unphased"] = _bv(dom.gegv(ug))
            V["gebv_dom"] = _bv(dom.gebv(pg))
            V["predict_numpy_dom_misc"] = {"mat": canon.enc(dom.predict_numpy(X, Zd))}
            S["score_numpy_dom_misc"] = canon.enc(dom.score_numpy(Y, X, Zd))
            S["var_G"] = canon.enc(dom.var_G(pg))
            S["var_A_dom"] = canon.enc(dom.var_A(pg))
            if not misc:
                V["predict_dom"] = _bv(dom.predict(X, pg))
                V["predict_dom_xstar"] = _bv(dom.predict(Xs, ug))  # must equal gegv on the same object
                S["score_dom"] = canon.enc(dom.score(Y, X, ug))
        al = {fn: canon.enc(getattr(add, fn)(pg)) for fn in self._ALLELE_FNS}
        try:        # predict(cvobj, GenotypeMatrix) passes only the dosage columns: shape check with u_misc
            add.predict(X, pg)
            rej = False
        except ValueError:
            rej = True
        return {"views": V, "stats": S, "alleles": al, "predict_gm_rejects": rej}

    @staticmethod
    def _stage_params(case):
        """parameters in force after 0, 1, 2, ... assignments"""
        cur = {"beta": case["beta"], "u_a": case["ua"], "u_d": case["ud"], "u_misc": case["um"],
               "trait": ["trait%d" % k for k in range(case["t"])]}
        out = [dict(cur)]
        for st in case["steps"]:
            cur[st["set"]] = st["value"]
            out.append(dict(cur))
        return out

    def _run_requery(self, case):
        m = _mods()
        t = case["t"]
        obj = lambda names: numpy.array(names, dtype=object)
        pg, ug, raw = self._mk_geno(m, case["g"], case["taxa"], case["grp"], case["ploidy"])
        X = _farr(case["X"], len(case["beta"]))
        Y = _farr(case["Y"], t)
        Zm = None if case["um"] is None else _farr(case["Zm"], len(case["um"]))
        st0 = self._stage_params(case)[0]
        um = None if case["um"] is None else _farr(case["um"], t)
        add = m.ADD(beta=_farr(case["beta"], t), u_misc=um, u_a=_farr(case["ua"], t), trait=obj(st0["trait"]))
        dom = None
        if case["ud"] is not None:
            dom = m.DOM(beta=_farr(case["beta"], t), u_misc=None if um is None else um.copy(),
                        u_a=_farr(case["ua"], t), u_d=_farr(case["ud"], t), trait=obj(st0["trait"]))
        stages = [self._query(m, add, dom, case, pg, ug, raw, X, Y, Zm)]
        for st in case["steps"]:
            for mod in (add, dom):
                if mod is None or (st["set"] == "u_d" and mod is add):
                    continue
                val = obj(st["value"]) if st["set"] == "trait" else _farr(st["value"], t)
                setattr(mod, st["set"], val)             # the public setter
            stages.append(self._query(m, add, dom, case, pg, ug, raw, X, Y, Zm))
        return {"stages": stages}

    def run_impl(self, case):
        return getattr(self, "_run_" + case["kind"])(case)

    # ------------------------------------------------------------------ model / Spec requests
    _VIEW_MODE = {
        "gebv_phased": "gebv", "gebv_unphased": "gebv", "gebv_raw": "gebv", "gebv_tbv": "gebv",
        "gebv_baseclass": "gebv", "gegv_additive": "gebv", "gebv_perm": "gebv", "gebv_numpy": "gebv_numpy",
        "predict_phased": "predict", "predict_raw": "predict", "predict_perm": "predict", "gebv_parts": "gebv",
        "gegv_phased": "gegv", "gegv_unphased": "gegv", "gegv_raw": "gegv", "gegv_perm": "gegv",
        "gebv_dom": "gebv", "predict_dom": "predict_dom", "predict_dom_raw": "predict_dom", "gegv_parts": "gegv",
    }
    _UNLABELLED = {"gebv_raw", "predict_raw", "gegv_raw", "predict_dom_raw"}
    _PERMUTED = {"gebv_perm", "predict_perm", "gegv_perm"}

    def _views(self, case, obs):
        perm = case["perm"]
        gp = _gperm(case["g"], perm)
        Xp = [case["X"][i] for i in perm]
        out = []
        for name in sorted(obs["views"]):
            v = obs["views"][name]
            permuted = name in self._PERMUTED
            d = {"mode": self._VIEW_MODE[name], "g": gp if permuted else case["g"],
                 "X": Xp if permuted else case["X"], "out": v["mat"], "name": name}
            if name == "gebv_numpy":
                d.update({"labelled": False, "taxa_out": None, "grp_out": None})
            else:
                d.update({"labelled": name not in self._UNLABELLED,
                          "taxa_in": _take(case["taxa"], perm) if permuted else case["taxa"],
                          "grp_in": _take(case["grp"], perm) if permuted else case["grp"],
                          "taxa_out": v["taxa"], "grp_out": v["grp"]})
            out.append(d)
        return out

    @staticmethod
    def _nonfinite(obs, keys):
        def bad(x):
            if isinstance(x, list):
                return any(bad(v) for v in x)
            return x in ("nan", "inf", "-inf")
        return any(bad(obs.get(k)) for k in keys)

    _FINITE_KEYS = {"gs": ("x",), "ml0": ("betahat", "uhat", "ridge"), "fit": ("beta", "u_a", "ridges", "sols")}

    def _refit_requests(self, case, obs):
        reqs = []
        for Zk, Yk, ok in (("Z1", "Y1", "first"), ("Z2", "Y2", "second")):
            Z, Y, o = case[Zk], case[Yk], obs[ok]
            p, t = len(Z[0]), len(Y[0])
            reqs.append({"op": "c04.fitwrap", "Y": Y, "Z": Z, "p": p, "t": t, "sols": o["sols"]})
            reqs.append({"op": "c04.spec_fit", "Y": Y, "Z": Z, "p": p, "t": t, "ridges": o["ridges"],
                         "atol": canon.enc(Fraction(ATOL)), "reltol": canon.enc(RELTOL), "beta": o["beta"],
                         "u_a": o["u_a"], "check_normal_eq": False})
        # the prediction path of the fitted objects: GEBV = fitted intercept + Z · fitted effects
        for Zk, ok, views in (("Z1", "first", ("gebv1_before", "gebv1_after")),
                              ("Z2", "second", ("gebv2", "predict2", "gebv2_after_setters"))):
            g = [case[Zk]]                      # one "phase" carrying the dosage
            vs = [{"mode": "gebv", "g": g, "out": obs[v], "name": v, "labelled": False,
                   "taxa_out": None, "grp_out": None} for v in views]
            reqs.append({"op": "c04.spec_values", "beta": obs[ok]["beta"], "ua": obs[ok]["u_a"],
                         "t": len(obs[ok]["beta"][0]), "ploidy": 2, "views": vs})
        return reqs

    _RQ_MODE = {"gebv_phased": "gebv", "gebv_raw": "gebv", "gebv_tbv": "gebv", "gegv_additive": "gebv",
                "gebv_numpy": "gebv_numpy", "gebv_baseclass": "gebv", "predict_phased": "predict",
                "predict_raw": "predict", "predict_xstar": "gebv", "gegv_phased": "gegv", "gegv_unphased": "gegv",
                "gebv_dom": "gebv", "predict_dom": "predict_dom", "predict_dom_xstar": "gegv",
                "predict_numpy_misc": "predict", "predict_numpy_dom_misc": "predict_dom"}
    _RQ_MODELKEY = {"gebv": "gebv", "gegv": "gegv", "gebv_numpy": "gebv_numpy", "predict": "predict",
                    "predict_dom": "predict_dom"}
    _RQ_MISC = {"predict_numpy_misc", "predict_numpy_dom_misc"}
    _RQ_NOLABEL = {"gebv_raw", "predict_raw", "gebv_numpy", "predict_numpy_misc", "predict_numpy_dom_misc"}
    _RQ_STAT = {"var_A": "var_A", "var_G_add": "var_A", "var_a": "var_a", "var_a_baseclass": "var_a",
                "bulmer": "bulmer", "score": "score", "var_G": "var_G", "var_A_dom": "var_A",
                "score_dom": "score_dom"}
    _RQ_STAT_MISC = {"score_numpy_misc": "score", "score_numpy_dom_misc": "score_dom"}

    def _requery_requests(self, case, par, stg):
        """8 requests per stage: model (plain; with u_misc / Z_misc through `predictNumpyMisc`), Spec values
        (plain / misc), Spec stats (plain / misc), alleles model + Spec.  In the *Spec* miscellaneous random
        effects enter the definitions as extra fixed-effect columns X' = [X | Zm], beta' = [beta ; u_misc]
        (an independent route to the same numbers)."""
        common = {"ua": par["u_a"], "t": case["t"], "ploidy": case["ploidy"]}
        if par["u_d"] is not None:
            common["ud"] = par["u_d"]
        beta2, X2 = par["beta"], case["X"]
        if par["u_misc"] is not None:
            beta2 = list(par["beta"]) + list(par["u_misc"])
            X2 = [list(a) + list(b) for a, b in zip(case["X"], case["Zm"])]
        va, vb = [], []
        for name in sorted(stg["views"]):
            v = stg["views"][name]
            d = {"mode": self._RQ_MODE[name], "g": case["g"], "out": v["mat"], "name": name,
                 "X": X2 if name in self._RQ_MISC else case["X"]}
            if name in self._RQ_NOLABEL:
                d.update({"labelled": False, "taxa_out": v.get("taxa"), "grp_out": v.get("grp")})
            else:
                d.update({"labelled": True, "taxa_in": case["taxa"], "grp_in": case["grp"],
                          "taxa_out": v["taxa"], "grp_out": v["grp"]})
            (vb if name in self._RQ_MISC else va).append(d)
        sa = {k: v for k, v in stg["stats"].items() if k in self._RQ_STAT}
        sb = {self._RQ_STAT_MISC[k]: v for k, v in stg["stats"].items() if k in self._RQ_STAT_MISC}
        al = {"ua": par["u_a"], "ploidy": case["ploidy"], "g": case["g"]}
        return [
            {"op": "c04.lin", **common, "beta": par["beta"], "g": case["g"], "X": case["X"], "Y": case["Y"]},
            {"op": "c04.lin", **common, "beta": par["beta"], "g": case["g"], "X": case["X"], "Y": case["Y"],
             "um": par["u_misc"] if par["u_misc"] is not None else [],
             "Zm": case["Zm"] if case["Zm"] is not None else [[] for _ in case["X"]]},
            {"op": "c04.spec_values", **common, "beta": par["beta"], "views": va},
            {"op": "c04.spec_values", **common, "beta": beta2, "views": vb},
            {"op": "c04.spec_stats", **common, "beta": par["beta"], "g": case["g"], "X": case["X"], "Y": case["Y"], "stats": sa},
            {"op": "c04.spec_stats", **common, "beta": beta2, "g": case["g"], "X": X2, "Y": case["Y"], "stats": sb},
            {"op": "c04.alleles", **al},
            {"op": "c04.spec_alleles", **al, "obs": stg["alleles"]},
        ]

    def requests(self, case, obs):
        k = case["kind"]
        if k in self._FINITE_KEYS and self._nonfinite(obs, self._FINITE_KEYS[k]):
            return []          # judged without the driver: a non-finite coefficient violates every clause
        if k == "lin":
            common = {"beta": case["beta"], "ua": case["ua"], "t": case["t"], "ploidy": case["ploidy"]}
            if case["ud"] is not None:
                common["ud"] = case["ud"]
            perm = case["perm"]
            stats = dict(obs["stats"])
            return [
                {"op": "c04.lin", **common, "g": case["g"], "X": case["X"], "Y": case["Y"],
                 "bv_mat": obs["bvm"]["mat"], "bv_loc": obs["bvm"]["loc"], "bv_scale": obs["bvm"]["scale"]},
                {"op": "c04.lin", **common, "g": _gperm(case["g"], perm), "X": [case["X"][i] for i in perm]},
                {"op": "c04.spec_values", **common, "views": self._views(case, obs)},
                {"op": "c04.spec_stats", **common, "g": case["g"], "X": case["X"], "Y": case["Y"], "stats": stats},
            ]
        if k == "refit":
            bad = ("nan", "inf", "-inf")
            if any(x in json.dumps(obs) for x in ('"nan"', '"inf"', '"-inf"')):
                return []
            return self._refit_requests(case, obs)
        if k == "requery":
            reqs = []
            for par, stg in zip(self._stage_params(case), obs["stages"]):
                reqs.extend(self._requery_requests(case, par, stg))
            return reqs
        if k == "alleles":
            base = {"ua": case["ua"], "ploidy": case["ploidy"], "g": case["g"]}
            return [{"op": "c04.alleles", **base},
                    {"op": "c04.spec_alleles", **base, "obs": obs["phased"]},
                    {"op": "c04.spec_alleles", **base, "obs": obs["unphased"]}]
        if k == "gs":
            base = {"A": case["A"], "b": case["b"]}
            return [{"op": "c04.gs", **base, "atol": case["atol"], "maxiter": case["maxiter"]},
                    {"op": "c04.spec_gs", **base, "x": obs["x"]}]
        if k == "ml0":
            p = len(case["Z"][0])
            return [{"op": "c04.ml0", "y": case["y"], "Z": case["Z"], "p": p, "ridge": obs["ridge"],
                     "atol": canon.enc(Fraction(ATOL)), "maxiter": case["maxiter"]},
                    {"op": "c04.spec_fit", "Y": [[v] for v in case["y"]], "Z": case["Z"], "p": p, "t": 1,
                     "ridges": [obs["ridge"]], "atol": canon.enc(Fraction(ATOL)), "reltol": canon.enc(RELTOL),
                     "beta": [obs["betahat"]], "u_a": [[u] for u in obs["uhat"]], "check_normal_eq": False}]
        if k == "fit":
            p = len(case["Z"][0])
            t = len(case["Y"][0])
            return [{"op": "c04.fitwrap", "Y": case["Y"], "Z": case["Z"], "p": p, "t": t, "sols": obs["sols"]},
                    {"op": "c04.spec_fit", "Y": case["Y"], "Z": case["Z"], "p": p, "t": t, "ridges": obs["ridges"],
                     "atol": canon.enc(Fraction(ATOL)), "reltol": canon.enc(RELTOL), "beta": obs["beta"],
                     "u_a": obs["u_a"], "check_normal_eq": True}]
        raise ValueError(k)

    # ------------------------------------------------------------------ judge
    @staticmethod
    def _cl(a, b):
        def nf(x):      # nan / inf / -inf all mean "undefined" (0/0 or x/0 in numpy)
            if isinstance(x, list):
                return [nf(v) for v in x]
            return "nan" if x in ("inf", "-inf") else x
        try:
            return canon.close_enc(nf(a), nf(b), rel=1e-9, abs_=1e-12)
        except Exception:
            return False

    def judge(self, case, obs, answers):
        for a in answers:
            if "err" in a:
                raise RuntimeError("driver error: " + a["err"])
        k = case["kind"]
        if k in self._FINITE_KEYS and self._nonfinite(obs, self._FINITE_KEYS[k]):
            return {"corr": False, "spec": False, "nontrivial": True,
                    "detail": f"{k}: non-finite value returned by the implementation: {str(obs)[:300]}"}
        A = [a["ok"] for a in answers]
        if k == "lin":
            base, permd, sv, ss = A
            bad = []
            V, S = obs["views"], obs["stats"]
            model_for = {"gebv": "gebv", "gegv": "gegv", "gebv_numpy": "gebv_numpy", "predict": "predict",
                         "predict_dom": "predict_dom"}
            for name, v in V.items():
                src = permd if name in self._PERMUTED else base
                key = model_for[self._VIEW_MODE[name]]
                if name == "gegv_raw":
                    key = "gegv_raw"
                if not self._cl(v["mat"], src[key]):
                    bad.append(name)
                if v.get("trait", obs["trait"]) != obs["trait"]:
                    bad.append(name + ".trait")
            stat_key = {"var_A": "var_A", "var_G_add": "var_A", "var_A_raw": "var_A", "var_a": "var_a",
                        "var_a_raw": "var_a", "var_a_baseclass": "var_a", "afreq": "afreq", "bulmer": "bulmer",
                        "bulmer_raw": "bulmer", "score": "score", "score_raw": "score", "var_G": "var_G",
                        "var_G_unphased": "var_G", "var_A_dom": "var_A", "score_dom": "score_dom",
                        "score_bvm": "score_bv", "score_dom_bvm": "score_dom", "var_a_dom": "var_a",
                        "bulmer_dom": "bulmer"}
            for name, val in S.items():
                want = base[stat_key[name]]
                want = ["nan" if w is None else w for w in want]
                if not self._cl(val, want):
                    bad.append(name)
            corr = not bad
            # Spec: every statistic through every entry point equals the definition; duplicates of one
            # statistic (raw / base-class / unphased variants) are judged against the same definition
            dup_ok = True
            dup_bad = []
            for name, ref in (("var_A_raw", "var_A"), ("var_a_raw", "var_a"), ("var_a_baseclass", "var_a"),
                              ("bulmer_raw", "bulmer"), ("score_raw", "score"), ("var_G_unphased", "var_G"),
                              ("score_bvm", "score"), ("score_dom_bvm", "score_dom"), ("var_a_dom", "var_a"),
                              ("bulmer_dom", "bulmer")):
                if name in S and not self._cl(S[name], S[ref]):
                    dup_ok = False
                    dup_bad.append(name)
            spec = bool(sv["ok"]) and bool(ss["ok"]) and dup_ok and obs["inputs_untouched"]
            g = case["g"]
            dos = [tuple(sum(ph[i][j] for ph in g) for j in range(len(g[0][0]))) for i in range(len(g[0]))]
            nontriv = len(set(dos)) >= 2 and any(Fraction(v) != 0 for r in case["ua"] for v in r)
            return {"corr": corr, "spec": spec, "nontrivial": nontriv,
                    "detail": f"lin corr_bad={bad} spec_values=[{sv['detail']}] spec_stats=[{ss['detail']}] "
                              f"dup_bad={dup_bad} untouched={obs['inputs_untouched']}"}
        if k == "refit":
            if not answers:
                return {"corr": False, "spec": False, "nontrivial": True, "detail": "refit: non-finite value"}
            w1, s1, w2, s2, v1, v2 = A
            f, sc = obs["first"], obs["second"]
            cbad = []
            for tag, o, w in (("first", f, w1), ("second", sc, w2)):
                if not (self._cl(o["beta"], w["beta"]) and canon.close_enc(o["u_a"], w["u_a"], rel=0, abs_=0)):
                    cbad.append(tag + ".wrapper")
            sbad = []
            for tag, r in (("first.fit", s1), ("second.fit", s2), ("first.gebv", v1), ("second.gebv", v2)):
                if not r["ok"]:
                    sbad.append(tag + "[" + r["detail"] + "]")
            if obs["first_after"] != {"beta": f["beta"], "u_a": f["u_a"]}:
                sbad.append("first model changed by the refit")
            if obs["second_after_setters"] != {"beta": sc["beta"], "u_a": sc["u_a"]}:
                sbad.append("second model changed by assignments to the first")
            if obs["gebv1_before"] != obs["gebv1_after"]:
                sbad.append("gebv of the first model changed by the refit")
            if obs["gebv2"] != obs["gebv2_after_setters"]:
                sbad.append("gebv of the second model changed by assignments to the first")
            if not self._cl(obs["gebv2"], obs["predict2"]):
                sbad.append("predict(ones) != gebv on the refitted model")
            for key, want in (("distinct_objects", True), ("shares_memory", False), ("training_data_untouched", True)):
                if obs[key] is not want:
                    sbad.append(key)
            if sc["class"] != "rrBLUPModel0":
                cbad.append("class")
            return {"corr": not cbad, "spec": not sbad, "nontrivial": sum(w2["ispoly"]) >= 1 and case["Z1"] != case["Z2"],
                    "detail": f"refit corr_bad={cbad} spec_bad={sbad[:6]}"}
        if k == "requery":
            pars = self._stage_params(case)
            bad, sbad = [], []
            for si, (par, stg) in enumerate(zip(pars, obs["stages"])):
                m1, m2, sva, svb, ssa, ssb, mal, sal = A[8 * si: 8 * si + 8]
                tag = "stage%d" % si + ("" if si == 0 else "[%s]" % case["steps"][si - 1]["set"])
                for name, v in stg["views"].items():
                    if name in self._RQ_MISC:
                        want = m2[{"predict_numpy_misc": "predict_misc", "predict_numpy_dom_misc": "predict_dom_misc"}[name]]
                    else:
                        want = m1[self._RQ_MODELKEY[self._RQ_MODE[name]]]
                    if not self._cl(v["mat"], want):
                        bad.append(tag + "." + name)
                    if "trait" in v and v["trait"] != par["trait"]:
                        bad.append(tag + "." + name + ".trait")
                        sbad.append(tag + "." + name + ".trait")
                for name, val in stg["stats"].items():
                    if name in self._RQ_STAT:
                        want = m1[self._RQ_STAT[name]]
                    else:
                        want = m2[self._RQ_STAT_MISC[name] + "_misc"]
                    if not self._cl(val, ["nan" if w is None else w for w in want]):
                        bad.append(tag + "." + name)
                for fn in self._ALLELE_FNS:
                    got, want = stg["alleles"][fn], mal[fn]
                    if (not self._cl(got, want)) if fn in ("fafreq", "dafreq") else (got != want):
                        bad.append(tag + "." + fn)
                if "predict_gm_rejects" in stg and stg["predict_gm_rejects"] != m2["predict_gm_rejects"]:
                    bad.append(tag + ".predict_gm_rejects")
                for nm, r in (("values", sva), ("values_misc", svb), ("stats", ssa), ("stats_misc", ssb), ("alleles", sal)):
                    if not r["ok"]:
                        sbad.append(tag + "." + nm + "[" + r["detail"] + "]")
                # the same object must answer consistently: predict on Xstar rows = gebv / gegv
                V = stg["views"]
                for a, b in (("predict_xstar", "gebv_phased"), ("predict_dom_xstar", "gegv_phased")):
                    if a in V and not self._cl(V[a]["mat"], V[b]["mat"]):
                        sbad.append(tag + "." + a + "!=" + b)
            g = case["g"]
            dos = [tuple(sum(ph[i][j] for ph in g) for j in range(len(g[0][0]))) for i in range(len(g[0]))]
            changed = any(st["set"] in ("u_a", "beta", "u_d", "u_misc") and st["value"] !=
                          {"u_a": case["ua"], "beta": case["beta"], "u_d": case["ud"], "u_misc": case["um"]}[st["set"]]
                          for st in case["steps"])
            return {"corr": not bad, "spec": not sbad, "nontrivial": len(set(dos)) >= 2 and changed,
                    "detail": f"requery steps={[st['set'] for st in case['steps']]} corr_bad={bad[:12]} spec_bad={sbad[:8]}"}
        if k == "alleles":
            mod, s1, s2 = A
            bad = []
            for rep in ("phased", "unphased"):
                for fn in self._ALLELE_FNS:
                    got, want = obs[rep][fn], mod[fn]
                    if fn in ("fafreq", "dafreq"):
                        if not self._cl(got, want):
                            bad.append(rep + "." + fn)
                    elif got != want:
                        bad.append(rep + "." + fn)
            g = case["g"]
            n = len(g[0])
            tot = case["ploidy"] * n
            cnt = [sum(ph[i][j] for ph in g for i in range(n)) for j in range(len(g[0][0]))]
            nontriv = any(0 < c < tot for c in cnt) and any(Fraction(v) != 0 for r in case["ua"] for v in r)
            return {"corr": not bad, "spec": bool(s1["ok"]) and bool(s2["ok"]), "nontrivial": nontriv,
                    "detail": f"alleles corr_bad={bad} spec_phased=[{s1['detail']}] spec_unphased=[{s2['detail']}]"}
        if k == "gs":
            mod, s = A
            corr = self._cl(obs["x"], mod["x"])
            return {"corr": corr, "spec": bool(s["ok"]), "nontrivial": len(case["b"]) >= 2 and mod["sweeps"] >= 1,
                    "detail": f"gs sweeps={mod['sweeps']} impl={obs['x']} model={mod['x']} spec=[{s['detail']}]"}
        if k == "ml0":
            mod, s = A
            corr = self._cl(obs["betahat"], [mod["betahat"]]) and self._cl(obs["uhat"], mod["uhat"])
            return {"corr": corr, "spec": bool(s["ok"]), "nontrivial": len(case["Z"][0]) >= 2,
                    "detail": f"ml0 ridge={obs['ridge']} impl_u={obs['uhat']} model_u={mod['uhat']} spec=[{s['detail']}]"}
        if k == "fit":
            mod, s = A
            corr = (self._cl(obs["beta"], mod["beta"]) and canon.close_enc(obs["u_a"], mod["u_a"], rel=0, abs_=0)
                    and obs["class"] == "rrBLUPModel0")
            return {"corr": corr, "spec": bool(s["ok"]), "nontrivial": sum(mod["ispoly"]) >= 2,
                    "clauses": s.get("clauses"),
                    "detail": f"fit[{case.get('via')}] ridges={[float(Fraction(r)) for r in obs['ridges']]} spec=[{s['detail']}]"}
        raise ValueError(k)

    # ------------------------------------------------------------------ findings / shrinking
    def signature(self, case, obs, verdict):
        sig = {"kind": case["kind"]}
        if case["kind"] == "fit" and isinstance(obs, dict) and "ridges" in obs:
            cl = verdict.get("clauses") or {}
            failed = sorted(k for k, v in cl.items() if v is False and k != "well_determined")
            sig["failed"] = ",".join(failed)
            sig["site"] = "gauss_seidel"
            # did the Gauss-Seidel loop of any trait run out of sweeps?
            try:
                Z = numpy.array(case["Z"], dtype=float)
                poly = ~numpy.all(Z == Z[0, :], axis=0)
                Zp = Z[:, poly]
                Y = _farr(case["Y"], len(case["Y"][0]))
                hit = False
                for kx, r in enumerate(obs["ridges"]):
                    y = Y[:, kx] - Y[:, kx].mean()
                    Am = Zp.T @ Zp
                    Am[numpy.diag_indices_from(Am)] += _f(r)
                    _, it, still = _gs_sweeps(Am, Zp.T @ y, ATOL)
                    hit = hit or (it >= 1000 and still)
                sig["cond"] = "maxiter_reached" if hit else "converged"
            except Exception:
                sig["cond"] = "unknown"
        return sig

    def shrink(self, case):
        k = case["kind"]
        if k == "lin":
            g = case["g"]
            n, p, t = len(g[0]), len(case["ua"]), case["t"]
            for i in range(n):
                if n > 1:
                    keep = [x for x in range(n) if x != i]
                    c = dict(case)
                    c["g"] = _gperm(g, keep)
                    c["taxa"] = _take(case["taxa"], keep)
                    c["grp"] = _take(case["grp"], keep)
                    c["X"] = [case["X"][x] for x in keep]
                    c["Y"] = [case["Y"][x] for x in keep]
                    c["perm"] = list(range(n - 1))
                    yield c
            for j in range(p):
                if p > 1:
                    keep = [x for x in range(p) if x != j]
                    c = dict(case)
                    c["g"] = _gcols(g, keep)
                    c["ua"] = [case["ua"][x] for x in keep]
                    c["ud"] = None if case["ud"] is None else [case["ud"][x] for x in keep]
                    c["cuts"] = [1] if p - 1 > 1 else []
                    yield c
            if t > 1:
                for kk in range(t):
                    keep = [x for x in range(t) if x != kk]
                    c = dict(case)
                    c["t"] = t - 1
                    for key in ("beta", "ua", "ud", "Y"):
                        c[key] = None if case[key] is None else [[r[x] for x in keep] for r in case[key]]
                    yield c
            if case["ud"] is not None:
                c = dict(case)
                c["ud"] = None
                yield c
        elif k == "refit":
            def polyok(Zs):
                return len(Zs) >= 2 and any(any(r[j] != Zs[0][j] for r in Zs) for j in range(len(Zs[0])))
            for zk, yk in (("Z1", "Y1"), ("Z2", "Y2")):
                Z, Y = case[zk], case[yk]
                for i in range(len(Z)):
                    keep = [x for x in range(len(Z)) if x != i]
                    Zs = [Z[x] for x in keep]
                    if polyok(Zs):
                        c = dict(case)
                        c[zk], c[yk] = Zs, [Y[x] for x in keep]
                        yield c
                for j in range(len(Z[0])):
                    if len(Z[0]) > 1:
                        Zs = [[v for x, v in enumerate(r) if x != j] for r in Z]
                        if polyok(Zs):
                            c = dict(case)
                            c[zk] = Zs
                            yield c
        elif k == "requery":
            g = case["g"]
            n, p, t = len(g[0]), len(case["ua"]), case["t"]
            for si in range(len(case["steps"])):
                if len(case["steps"]) > 1:
                    c = dict(case)
                    c["steps"] = case["steps"][:si] + case["steps"][si + 1:]
                    yield c
            if case["ud"] is not None:
                c = dict(case)
                c["ud"] = None
                c["steps"] = [st for st in case["steps"] if st["set"] != "u_d"] or [{"set": "trait", "value": ["x%d" % k for k in range(t)]}]
                yield c
            if case["um"] is not None:
                c = dict(case)
                c["um"] = c["Zm"] = None
                c["steps"] = [st for st in case["steps"] if st["set"] != "u_misc"] or [{"set": "trait", "value": ["x%d" % k for k in range(t)]}]
                yield c
            for i in range(n):
                if n > 1:
                    keep = [x for x in range(n) if x != i]
                    c = dict(case)
                    c["g"] = _gperm(g, keep)
                    for key in ("taxa", "grp", "X", "Y", "Zm"):
                        c[key] = _take(case[key], keep)
                    yield c
            for j in range(p):
                if p > 1:
                    keep = [x for x in range(p) if x != j]
                    c = dict(case)
                    c["g"] = _gcols(g, keep)
                    c["ua"] = _take(case["ua"], keep)
                    c["ud"] = _take(case["ud"], keep)
                    c["steps"] = [dict(st, value=_take(st["value"], keep)) if st["set"] in ("u_a", "u_d") else st
                                  for st in case["steps"]]
                    yield c
        elif k == "alleles":
            g = case["g"]
            n, p = len(g[0]), len(case["ua"])
            for i in range(n):
                if n > 1:
                    c = dict(case)
                    c["g"] = _gperm(g, [x for x in range(n) if x != i])
                    yield c
            for j in range(p):
                if p > 1:
                    keep = [x for x in range(p) if x != j]
                    c = dict(case)
                    c["g"] = _gcols(g, keep)
                    c["ua"] = [case["ua"][x] for x in keep]
                    yield c
        elif k in ("fit", "ml0"):
            Z = case["Z"]
            n, p = len(Z), len(Z[0])
            ykey = "Y" if k == "fit" else "y"
            for i in range(n):
                if n > 2:
                    keep = [x for x in range(n) if x != i]
                    Z2 = [Z[x] for x in keep]
                    if any(any(r[j] != Z2[0][j] for r in Z2) for j in range(p)):
                        c = dict(case)
                        c["Z"] = Z2
                        c[ykey] = [case[ykey][x] for x in keep]
                        yield c
            for j in range(p):
                if p > 1:
                    keep = [x for x in range(p) if x != j]
                    Z2 = [[r[x] for x in keep] for r in Z]
                    ok = any(any(r[jj] != Z2[0][jj] for r in Z2) for jj in range(p - 1))
                    if k == "ml0":
                        ok = all(any(r[jj] != Z2[0][jj] for r in Z2) for jj in range(p - 1))
                    if ok:
                        c = dict(case)
                        c["Z"] = Z2
                        yield c
            if k == "fit" and len(case["Y"][0]) > 1:
                for kk in range(len(case["Y"][0])):
                    c = dict(case)
                    c["Y"] = [[v for x, v in enumerate(r) if x != kk] for r in case["Y"]]
                    yield c
        elif k == "gs":
            n = len(case["b"])
            for i in range(n):
                if n > 1:
                    keep = [x for x in range(n) if x != i]
                    c = dict(case)
                    c["A"] = [[case["A"][r][s] for s in keep] for r in keep]
                    c["b"] = [case["b"][r] for r in keep]
                    yield c
            if case["maxiter"] > 1:
                c = dict(case)
                c["maxiter"] = case["maxiter"] - 1
                yield c

    # ------------------------------------------------------------------ self-test mutants
    def mutants(self):
        m = _mods()
        GEBVM = m.add.DenseGenomicEstimatedBreedingValueMatrix

        @contextlib.contextmanager
        def patch(obj, name, new):
            old = obj.__dict__[name] if name in getattr(obj, "__dict__", {}) else getattr(obj, name)
            setattr(obj, name, new)
            try:
                yield
            finally:
                setattr(obj, name, old)

        def _gt(gtobj, fmt="{0,1,2}"):
            if isinstance(gtobj, m.gm.GenotypeMatrix):
                return gtobj.mat_asformat(fmt), gtobj.taxa, gtobj.taxa_grp
            return gtobj, None, None

        def _loc(self):
            nfixed = self.beta.shape[0]
            Xstar = numpy.empty((1, nfixed), dtype=self.beta.dtype)
            Xstar[0, 0] = 1
            Xstar[0, 1:] = 1 / nfixed
            return Xstar @ self.beta

        def gebv_wrong_coding(self, gtobj, **kw):
            Z, taxa, grp = _gt(gtobj, "{-1,0,1}")
            out = self.gebv_numpy(Z) + _loc(self)
            return GEBVM.from_numpy(mat=out, taxa=taxa, taxa_grp=grp, trait=self.trait)

        def gebv_no_location(self, gtobj, **kw):
            Z, taxa, grp = _gt(gtobj)
            return GEBVM.from_numpy(mat=self.gebv_numpy(Z) + 0.0, taxa=taxa, taxa_grp=grp, trait=self.trait)

        def gebv_population_dosage(self, gtobj, **kw):
            Z, taxa, grp = _gt(gtobj)
            Zm = numpy.repeat(numpy.asarray(Z, dtype=float).mean(0, keepdims=True), Z.shape[0], axis=0)
            return GEBVM.from_numpy(mat=self.gebv_numpy(Zm) + _loc(self), taxa=taxa, taxa_grp=grp, trait=self.trait)

        def gebv_sorted_labels(self, gtobj, **kw):
            Z, taxa, grp = _gt(gtobj)
            out = self.gebv_numpy(Z) + _loc(self)
            return GEBVM.from_numpy(mat=out, taxa=None if taxa is None else numpy.sort(taxa), taxa_grp=grp, trait=self.trait)

        def predict_numpy_no_fixed(self, X, Z, **kw):
            return Z @ self.u

        def gegv_het_any_nonzero(self, gtobj, **kw):
            if isinstance(gtobj, m.gm.GenotypeMatrix):
                A = gtobj.mat_asformat("{0,1,2}")
                D = (A != 0)
                taxa, grp = gtobj.taxa, gtobj.taxa_grp
            else:
                A = gtobj
                D = (gtobj != 0)
                taxa = grp = None
            out = self.gegv_numpy(numpy.concatenate([A, D], axis=1)) + _loc(self)
            return GEBVM.from_numpy(mat=out, taxa=taxa, taxa_grp=grp, trait=self.trait)

        def var_ddof1(self, Z, **kw):
            g = self.gebv_numpy(Z)
            return g.var(0, ddof=1) if g.shape[0] > 1 else g.var(0)

        def var_a_ploidy1(self, p, ploidy=2, **kw):
            p = p[:, None]
            return ploidy * ((self.u_a ** 2) * p * (1.0 - p)).sum(0)

        def bulmer_inverted(self, Z, p, ploidy=2, **kw):
            sA = self.var_A_numpy(Z)
            sa = self.var_a_numpy(p, ploidy)
            mask = (sA == 0.0)
            den = sA.copy()
            den[mask] = 1.0
            out = sa / den
            out[mask] = numpy.nan
            return out

        def score_no_one_minus(self, Y, X, Z, **kw):
            Yh = (X @ self.beta) + (Z @ self.u)
            return ((Y - Yh) ** 2).sum(0) / ((Y - Y.mean(0)) ** 2).sum(0)

        def facount_sign_flipped(self, gmat, dtype=None, **kw):
            dtype = numpy.dtype(int if dtype is None else dtype)
            ac = gmat.acount(dtype=dtype)[:, None]
            mx = dtype.type(gmat.ploidy * gmat.ntaxa)
            out = numpy.where(self.u_a < 0.0, ac, mx - ac)
            out[self.u_a == 0.0] = 0
            return out

        def facount_zero_not_neutral(self, gmat, dtype=None, **kw):
            dtype = numpy.dtype(int if dtype is None else dtype)
            ac = gmat.acount(dtype=dtype)[:, None]
            mx = dtype.type(gmat.ploidy * gmat.ntaxa)
            return numpy.where(self.u_a > 0.0, ac, mx - ac)

        def dacount_ntaxa_only(self, gmat, dtype=None, **kw):
            dtype = numpy.dtype(int if dtype is None else dtype)
            ac = gmat.acount(dtype=dtype)[:, None]
            mx = dtype.type(gmat.ntaxa)
            out = numpy.where(self.u_a < 0.0, ac, mx - ac)
            out[self.u_a == 0.0] = 0
            return out

        def fapoly_le(self, gmat, dtype=None, **kw):
            fc = self.facount(gmat)
            return (fc > 0) & (fc <= gmat.ploidy * gmat.ntaxa)

        def napoly_ge(self, gmat, dtype=None, **kw):
            ac = gmat.acount()[:, None]
            return ((ac >= 0) & (ac < gmat.ploidy * gmat.ntaxa)) & (self.u_a == 0.0)

        def gs_jacobi_sign(A, b, atol=1e-08, maxiter=1000):
            n = len(b)
            xp = numpy.zeros(n)
            xc = numpy.zeros(n)
            it = 0
            ad = 2 * atol
            while numpy.any(ad > atol) and it < maxiter:
                xp[:] = xc
                for i in range(n):
                    xc[i] = (b[i] + A[i, :i].dot(xc[:i]) - A[i, i + 1:].dot(xc[i + 1:])) / A[i, i]
                ad = numpy.abs(xc - xp)
                it += 1
            return xc

        real_gs = m.rr.gauss_seidel

        def gs_two_sweeps(A, b, atol=1e-08, maxiter=1000):
            return real_gs(A, b, atol, min(maxiter, 2))

        def gs_skip_last(A, b, atol=1e-08, maxiter=1000):
            x = real_gs(A, b, atol, maxiter).copy()
            if len(x) > 1 and maxiter > 0:
                x[-1] = 0.0
            return x

        def center_identity(y):
            return y + 0.0

        real_ml0 = m.rr.rrBLUP_ML0

        def ml0_intercept_zero(*a, **k):
            out = real_ml0(*a, **k)
            out["betahat"] = numpy.array([0.0])
            return out

        real_fit = m.RR.__dict__["fit_numpy"].__func__

        def fit_mono_nonzero(cls, Y, X, Z, *a, **k):
            mod = real_fit(cls, Y, X, Z, *a, **k)
            Zf = numpy.asarray(Z, dtype=float)
            mono = numpy.all(Zf == Zf[0, :], axis=0)
            mod.u_a[mono, :] = 1.0
            return mod

        def fit_scatter_reversed(cls, Y, X, Z, *a, **k):
            mod = real_fit(cls, Y, X, Z, *a, **k)
            Zf = numpy.asarray(Z, dtype=float)
            poly = ~numpy.all(Zf == Zf[0, :], axis=0)
            mod.u_a[poly, :] = mod.u_a[poly, :][::-1, :].copy()
            return mod

        def stale(cls, name, slot):
            """property that answers with the value it computed first (cache never invalidated)"""
            orig = None
            for c in cls.__mro__:
                if name in c.__dict__:
                    orig = c.__dict__[name]
                    break

            def fget(self):
                if slot not in self.__dict__:
                    self.__dict__[slot] = orig.fget(self)
                return self.__dict__[slot]
            return property(fget, orig.fset)

        @contextlib.contextmanager
        def stale_u():
            with patch(m.ADD, "u", stale(m.ADD, "u", "_c04_u_cache")), patch(m.DOM, "u", stale(m.DOM, "u", "_c04_u_cache")):
                yield

        def facount_cached_mask(self, gmat, dtype=None, **kw):
            dtype = numpy.dtype(int if dtype is None else dtype)
            if "_c04_mask" not in self.__dict__:
                self.__dict__["_c04_mask"] = (self.u_a > 0.0, self.u_a == 0.0)
            pos, zero = self.__dict__["_c04_mask"]
            ac = gmat.acount(dtype=dtype)[:, None]
            mx = dtype.type(gmat.ploidy * gmat.ntaxa)
            out = numpy.where(pos, ac, mx - ac)
            out[zero] = 0
            return out

        shape_cache = {}

        def fit_mask_cached(cls, Y, X, Z, *a, **k):
            """polymorphism mask remembered per genotype shape (stale after a refit with equal shapes)"""
            Zf = numpy.asarray(Z, dtype=float)
            key = ("mask", Zf.shape)
            if key not in shape_cache:
                shape_cache[key] = ~numpy.all(Zf == Zf[0, :], axis=0)
            poly = shape_cache[key]
            if not poly.any():
                poly = ~numpy.all(Zf == Zf[0, :], axis=0)
            Yf = numpy.asarray(Y, dtype=float)
            models = [m.rr.rrBLUP_ML0(Yf[:, i], Zf[:, poly]) for i in range(Yf.shape[1])]
            beta = numpy.stack([mm["betahat"] for mm in models], axis=1)
            u_a = numpy.zeros((Zf.shape[1], Yf.shape[1]), dtype=float)
            u_a[poly, :] = numpy.stack([mm["uhat"] for mm in models], axis=1)
            return cls(beta=beta, u_misc=None, u_a=u_a)

        def fit_shared_buffer(cls, Y, X, Z, *a, **k):
            """the effect matrix lives in a buffer reused by later fits of the same shape"""
            mod = real_fit(cls, Y, X, Z, *a, **k)
            key = ("buf", mod.u_a.shape)
            if key in shape_cache:
                shape_cache[key][...] = mod.u_a
            else:
                shape_cache[key] = mod.u_a.copy()
            mod.u_a = shape_cache[key]
            return mod

        def ml0_memo(*a, **k):
            y, Zz = a[0], a[1]
            key = ("ml0", len(y), Zz.shape)
            if key not in shape_cache:
                shape_cache[key] = real_ml0(*a, **k)
            return shape_cache[key]

        @contextlib.contextmanager
        def fresh(ctx):
            shape_cache.clear()
            with ctx:
                yield
            shape_cache.clear()

        real_score = m.ADD.__dict__["score"]
        real_rrfit = m.RR.__dict__["fit"].__func__

        class _Scaled:
            """a breeding value matrix whose unscale() forgets location and scale"""
            def __init__(self, b):
                self._b = b

            def unscale(self):
                return self._b.mat

        def score_bvm_scaled(self, ptobj, cvobj, gtobj, **kw):
            if isinstance(ptobj, m.BVM):
                ptobj = ptobj.mat            # standardised values used as if they were phenotypes
            return real_score(self, ptobj, cvobj, gtobj, **kw)

        def fit_bvm_scaled(cls, ptobj, cvobj, gtobj, *a, **k):
            if isinstance(ptobj, m.BVM):
                ptobj = ptobj.mat
            return real_rrfit(cls, ptobj, cvobj, gtobj, *a, **k)

        def u_misc_last(self):
            return numpy.concatenate([self.u_a, self.u_misc], axis=0)

        both = lambda name, fn: (lambda: _both(name, fn))

        @contextlib.contextmanager
        def _both(name, fn):
            with patch(m.ADD, name, fn), patch(m.LIN, name, fn):
                yield

        return [
            # mechanism 1: Y = X beta + Z u ; GEBV = Z u_a + Xstar beta
            ("gebv_coding_minus1_0_1", both("gebv", gebv_wrong_coding)),
            ("gebv_drop_location", both("gebv", gebv_no_location)),
            ("gebv_population_dosage", both("gebv", gebv_population_dosage)),
            ("gebv_labels_sorted", both("gebv", gebv_sorted_labels)),
            ("predict_drop_fixed_effects", lambda: patch(m.ADD, "predict_numpy", predict_numpy_no_fixed)),
            ("u_concatenated_in_wrong_order", lambda: patch(m.ADD, "u", property(u_misc_last))),
            ("score_bvmat_not_unscaled", lambda: patch(m.ADD, "score", score_bvm_scaled)),
            ("fit_bvmat_not_unscaled", lambda: patch(m.RR, "fit", classmethod(fit_bvm_scaled))),
            # mechanism 2: dominance design
            ("gegv_het_is_any_nonzero", lambda: patch(m.DOM, "gegv", gegv_het_any_nonzero)),
            # mechanism 3: variances, Bulmer, R^2
            ("var_A_ddof1", lambda: patch(m.ADD, "var_A_numpy", var_ddof1)),
            ("var_a_ploidy_not_squared", both("var_a_numpy", var_a_ploidy1)),
            ("bulmer_inverted", lambda: patch(m.ADD, "bulmer_numpy", bulmer_inverted)),
            ("score_without_one_minus", lambda: patch(m.ADD, "score_numpy", score_no_one_minus)),
            # mechanism 4: favourable / deleterious / neutral alleles
            ("facount_sign_flipped", lambda: patch(m.ADD, "facount", facount_sign_flipped)),
            ("facount_zero_effect_counted", lambda: patch(m.ADD, "facount", facount_zero_not_neutral)),
            ("dacount_max_is_ntaxa", lambda: patch(m.ADD, "dacount", dacount_ntaxa_only)),
            ("fapoly_le_max", lambda: patch(m.ADD, "fapoly", fapoly_le)),
            ("napoly_ge_zero", lambda: patch(m.ADD, "napoly", napoly_ge)),
            # state: derived quantities must follow the public setters (kind "requery")
            ("stale_u_cache_after_setter", stale_u),
            ("stale_beta_after_setter", lambda: patch(m.ADD, "beta", stale(m.ADD, "beta", "_c04_beta_cache"))),
            ("stale_u_a_in_gebv_numpy", lambda: patch(m.ADD, "u_a", stale(m.ADD, "u_a", "_c04_ua_cache"))),
            ("stale_u_d_after_setter", lambda: patch(m.DOM, "u_d", stale(m.DOM, "u_d", "_c04_ud_cache"))),
            ("stale_trait_labels", lambda: patch(m.ADD, "trait", stale(m.ADD, "trait", "_c04_trait_cache"))),
            ("facount_sign_mask_cached", lambda: patch(m.ADD, "facount", facount_cached_mask)),
            ("refit_polymorphism_mask_cached", lambda: fresh(patch(m.RR, "fit_numpy", classmethod(fit_mask_cached)))),
            ("refit_effects_in_shared_buffer", lambda: fresh(patch(m.RR, "fit_numpy", classmethod(fit_shared_buffer)))),
            ("refit_ml0_memoised_by_shape", lambda: fresh(patch(m.rr, "rrBLUP_ML0", ml0_memo))),
            # mechanism 5: rrBLUP
            ("gs_wrong_sign_lower_part", lambda: patch(m.rr, "gauss_seidel", gs_jacobi_sign)),
            ("gs_stops_after_two_sweeps", lambda: patch(m.rr, "gauss_seidel", gs_two_sweeps)),
            ("gs_last_coordinate_dropped", lambda: patch(m.rr, "gauss_seidel", gs_skip_last)),
            ("rrblup_response_not_centred", lambda: patch(m.rr, "rrBLUP_ML0_center_y", center_identity)),
            ("rrblup_intercept_zero", lambda: patch(m.rr, "rrBLUP_ML0", ml0_intercept_zero)),
            ("rrblup_monomorphic_effect_one", lambda: patch(m.RR, "fit_numpy", classmethod(fit_mono_nonzero))),
            ("rrblup_scatter_reversed", lambda: patch(m.RR, "fit_numpy", classmethod(fit_scatter_reversed))),
        ]


PROP = C04()
