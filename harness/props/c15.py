"""C15 — breeding-value matrices round-trip through scaling without loss.

Real code: DenseBreedingValueMatrix / DenseEstimatedBreedingValueMatrix /
DenseGenomicEstimatedBreedingValueMatrix (from_numpy, unscale, t* statistics, taxa operations incl.
the inherited in-place ones and concat_taxa) and DenseScaledMatrix (transform/untransform/rescale/
unscale).  Model: lean/PybropsModel/Model/BVMat.lean through the driver ops c15.*; the Spec oracle
(c15.spec / c15.spec_scaled) is evaluated in Lean, in exact rational arithmetic, on the
implementation's outputs against the raw ground truth.
"""
import contextlib
import copy
import math
from fractions import Fraction

import numpy

from .. import canon, compat
from ..core import Prop

compat.install()

REL = 1e-9
CLAUSE_ORDER = ["raised", "nonfinite", "taxa", "raw", "standardised", "standardised:constant",
                "stat:tmax", "stat:tmin", "stat:trange", "stat:tmean", "stat:targmax", "stat:targmin",
                "stat:tstd", "stat:tvar", "stat:tstd:constant", "stat:tvar:constant"]
# clauses that cannot be the root cause of a later failure (a statistic of one matrix state; the D9 class,
# fixed by 94b833ce — ranked last so that a regression of it cannot mask another failure)
STATELESS = {"stat:tstd:constant", "stat:tvar:constant"}
STATS = ["tmax", "tmin", "tmean", "trange", "tstd", "tvar"]


def _mods():
    compat.import_pybrops()
    import pybrops.popgen.bvmat.DenseBreedingValueMatrix as m_bv
    import pybrops.popgen.bvmat.DenseEstimatedBreedingValueMatrix as m_ebv
    import pybrops.popgen.bvmat.DenseGenomicEstimatedBreedingValueMatrix as m_gebv
    import pybrops.core.mat.DenseScaledMatrix as m_sm
    import pybrops.core.mat.DenseTaxaMatrix as m_tm
    return m_bv, m_ebv, m_gebv, m_sm, m_tm


def _repaired():
    """does the tree under test override the five inherited taxa routines in DenseBreedingValueMatrix (the proposed
    repair of D23-D25)?  Then the model to compare with is `applyOpRepaired`, and nothing is a known finding."""
    m_bv = _mods()[0]
    d = m_bv.DenseBreedingValueMatrix.__dict__
    return all(k in d for k in ("append_taxa", "incorp_taxa", "remove_taxa", "concat_taxa"))


def _classes():
    m_bv, m_ebv, m_gebv, m_sm, _ = _mods()
    return {"BV": m_bv.DenseBreedingValueMatrix,
            "EBV": m_ebv.DenseEstimatedBreedingValueMatrix,
            "GEBV": m_gebv.DenseGenomicEstimatedBreedingValueMatrix}


# ---------------------------------------------------------------------------------- encodings
def _f(v):
    return float("nan") if v == "nan" or v is None else float(Fraction(v))


def _np_rows(rows, t):
    """canonical rows (n lists of t canonical scalars, "nan" allowed) -> float array (n, t)"""
    return numpy.array([[_f(v) for v in r] for r in rows], dtype=float).reshape(len(rows), t)


def _cols(rows, t):
    """canonical rows -> trait-major canonical columns (t lists of n)"""
    return [[r[j] for r in rows] for j in range(t)]


def _names(ids):
    return numpy.array(["t%d" % i for i in ids], dtype=object)


def _grps(ids):
    """taxa_grp is a function of the taxon identity, so carrying it correctly is observable"""
    return numpy.array([i % 3 for i in ids], dtype=int)


def _ids(names):
    out = []
    for s in names:
        s = str(s)
        out.append(int(s[1:]) if s.startswith("t") and s[1:].isdigit() else 10 ** 9)
    return out


def _enc_cols(a):
    """float array (n, t) -> canonical trait-major columns"""
    a = numpy.asarray(a, dtype=float)
    return [canon.enc(a[:, j]) for j in range(a.shape[1])]


def _has_inf(x):
    if isinstance(x, list):
        return any(_has_inf(v) for v in x)
    return x in ("inf", "-inf")


def _no_inf(x):
    if isinstance(x, list):
        return [_no_inf(v) for v in x]
    return "nan" if x in ("inf", "-inf") else x


def _same(a, b):
    return a.shape == b.shape and bool(((a == b) | (numpy.isnan(a) & numpy.isnan(b))).all())


def _snap(b):
    n, t = b.mat.shape
    d = {"n": int(n), "taxa": _ids(b.taxa) if b.taxa is not None else None,
         "taxa_grp": None if b.taxa_grp is None else [int(g) for g in b.taxa_grp],
         "mat": _enc_cols(b.mat), "loc": canon.enc(numpy.asarray(b.location, dtype=float)),
         "scale": canon.enc(numpy.asarray(b.scale, dtype=float)), "unscale": _enc_cols(b.unscale())}
    if n > 0:
        for s in STATS:
            d[s] = canon.enc(numpy.asarray(getattr(b, s)(unscale=True), dtype=float))
            d["s_" + s] = canon.enc(numpy.asarray(getattr(b, s)(unscale=False), dtype=float))
        d["targmax"] = canon.enc(b.targmax())
        d["targmin"] = canon.enc(b.targmin())
    if any(_has_inf(v) for v in d.values()):
        d = {k: _no_inf(v) for k, v in d.items()}
        d["nonfinite"] = True
    return d


def _stat_results_private(b):
    """what a read-only statistic hands out is the caller's: writing into it must not change the object, and asking
    again must give the same answer.  Returns the names of the statistics whose result is (a view of) internal
    state.  `tmean(unscale=True)` is documented-by-code to BE the location array (as `b.location` is) and is not
    probed."""
    if b.mat.shape[0] == 0:
        return []
    bad = []
    keep = (b.mat.copy(), numpy.array(b.location, dtype=float), numpy.array(b.scale, dtype=float))
    for name in STATS + ["targmax", "targmin"]:
        for un in ((True, False) if name in STATS else (None,)):
            if name == "tmean" and un:
                continue
            call = (lambda: getattr(b, name)(unscale=un)) if un is not None else (lambda: getattr(b, name)())
            r = call()
            if not isinstance(r, numpy.ndarray) or r.size == 0 or not r.flags.writeable:
                continue
            before = r.copy()
            r[...] = 97 if r.dtype.kind in "iu" else -4.0625e5
            again = numpy.asarray(call())
            same_state = _same(b.mat, keep[0]) and _same(numpy.asarray(b.location, dtype=float), keep[1]) and \
                _same(numpy.asarray(b.scale, dtype=float), keep[2])
            if not same_state or not _same(numpy.asarray(again, dtype=float), numpy.asarray(before, dtype=float)):
                bad.append(name if un is None else "%s(unscale=%s)" % (name, un))
                try:                # put the value back so that the rest of the history is still observable
                    again[...] = before
                except Exception:
                    pass
    return bad


def _layout(a, how):
    """the same values in another memory layout: Fortran order, or a strided view of a larger buffer"""
    if how == "F":
        return numpy.asfortranarray(a)
    if how == "strided":
        big = numpy.full((2 * a.shape[0] + 1,) + a.shape[1:], 4242.0)
        big[1::2] = a
        return big[1::2]
    return a


class _ProbeMismatch(Exception):
    pass


def _build(cls, raw, names, grps, via):
    """the matrix built from raw values: `from_numpy`, or the second factory `from_pandas` (a table with a taxa
    column, optionally a taxa_grp column, and one column per trait, read as RAW values)"""
    if via != "pandas" or names is None:
        return cls.from_numpy(raw, taxa=names, taxa_grp=grps)
    import pandas
    d = {"taxa": names}
    if grps is not None:
        d["taxa_grp"] = grps
    for j in range(raw.shape[1]):
        d["trait%d" % j] = raw[:, j]
    df = pandas.DataFrame(d)
    return cls.from_pandas(df, taxa_col="taxa", taxa_grp_col="taxa_grp" if grps is not None else None)


def _dtype_ok(rows, dtype):
    """can every entry of the canonical rows be held EXACTLY by an array of this dtype?"""
    vals = [x for r in rows for x in r]
    if dtype.startswith("int"):
        lim = 2 ** (31 if dtype == "int32" else 62)
        return all(x not in ("nan", None) and Fraction(x).denominator == 1 and abs(Fraction(x)) < lim for x in vals)
    if dtype == "float32":
        return all(x in ("nan", None) or Fraction(float(numpy.float32(float(Fraction(x))))) == Fraction(x) for x in vals)
    return dtype == "float64"


def _operand(cls, v, t, grp, notaxa=False, me=None):
    if v["as"] == "self":
        return me, {}
    rows = _layout(_np_rows(v["rows"], t), v.get("layout"))
    if v.get("dtype") and v["as"] == "nd" and _dtype_ok(v["rows"], v["dtype"]):
        # the same raw values handed over in another dtype (whole numbers as integers, short dyadics as float32)
        rows = rows.astype(v["dtype"])
    g = _grps(v["taxa"]) if grp else None
    names = None if notaxa else _names(v["taxa"])
    if v["as"] == "bv":
        ocls = _classes()[v["cls"]] if v.get("cls") else cls
        return ocls.from_numpy(rows, taxa=names, taxa_grp=g), {}
    return rows, ({"taxa": names, "taxa_grp": g} if grp else {"taxa": names})


def _index(form, idx):
    if form == "int":
        return int(idx[0])
    if form == "slice":
        return slice(idx[0], idx[-1] + 1)
    if form == "array":
        return numpy.array(idx, dtype=int)
    return list(idx)


def _pyobj(obj):
    """numpy index object from its JSON description (see Drv/C15.lean `delIdx`/`insIdx`)"""
    k = obj["kind"]
    if k == "int":
        return int(obj["i"])
    if k == "list":
        ix = [int(i) for i in obj["is"]]
        return numpy.array(ix, dtype=int) if obj.get("np") and ix else ix
    if k == "slice":
        return slice(obj.get("a"), obj.get("b"), obj.get("c"))
    if k == "mask":
        return numpy.array(obj["m"], dtype=bool)
    raise ValueError(k)


def _sort_perm(ids, grp):
    """the permutation sort_taxa() applies: numpy.lexsort((taxa, taxa_grp)) — by group, then by name (stable)"""
    return sorted(range(len(ids)), key=lambda i: ((ids[i] % 3) if grp else 0, "t%d" % ids[i]))


def _apply(cls, b, op, t, generic, grp=False, notaxa=False, ax=0):
    """apply one taxa operation; returns the resulting matrix (in-place operations return `b`).
    `generic`: through the axis-generic entry points (select / delete / insert / adjoin / remove / append / concat /
    sort / group with `axis = ax`, 0 or -2: both name the taxa axis of the (n, t) matrix)"""
    k = op["op"]
    if k == "copy":
        return b.copy() if op.get("how") == "method" else copy.copy(b)
    if k == "deepcopy":
        return b.deepcopy() if op.get("how") == "method" else copy.deepcopy(b)
    if k == "probe":
        # a read-only request on the CURRENT object whose result is thrown away: the object stays, the answer
        # must be the selection of what unscale() returns now (whatever was asked, or edited, before)
        r = b.select(op["idx"], axis=ax) if generic else b.select_taxa(op["idx"])
        want = numpy.take(b.unscale(), op["idx"], axis=0)
        got = r.unscale()
        if got.shape != want.shape or not numpy.allclose(got, want, rtol=1e-9, atol=1e-9 * (1 + numpy.nanmax(
                numpy.abs(numpy.nan_to_num(want)), initial=0.0)), equal_nan=True):
            raise _ProbeMismatch(f"select_taxa({op['idx']}) on the current object returned {got.tolist()}, "
                                 f"its unscale() selects to {want.tolist()}")
        return b
    if k == "sort":
        if op.get("group"):
            b.group(axis=ax) if generic else b.group_taxa()
        else:
            b.sort(None, axis=ax) if generic else b.sort_taxa()
        return b
    if k == "select":
        ix = _index(op.get("form", "list"), op["idx"])
        return b.select(ix, axis=ax) if generic else b.select_taxa(ix)
    if k == "delete":
        ix = _pyobj(op["obj"]) if "obj" in op else _index(op.get("form", "list"), op["idx"])
        return b.delete(ix, axis=-2 - ax) if generic else b.delete_taxa(ix)
    if k == "insert":
        vals, kw = _operand(cls, op["vals"], t, grp, notaxa, b)
        if "obj" in op:
            pos = _pyobj(op["obj"])
        else:
            pos = int(op["k"]) if op.get("kform") == "int" else [int(op["k"])]
        return b.insert(pos, vals, axis=ax, **kw) if generic else b.insert_taxa(pos, vals, **kw)
    if k == "adjoin":
        vals, kw = _operand(cls, op["vals"], t, grp, notaxa, b)
        return b.adjoin(vals, axis=ax, **kw) if generic else b.adjoin_taxa(vals, **kw)
    if k == "reorder":
        b.reorder_taxa(numpy.array(op["idx"], dtype=int))
        return b
    if k == "remove":
        ix = _index(op.get("form", "list"), op["idx"])
        if generic:
            b.remove(ix, axis=ax)
        else:
            b.remove_taxa(ix)
        return b
    if k == "append":
        vals, kw = _operand(cls, op["vals"], t, grp, notaxa, b)
        if generic:
            b.append(vals, axis=ax, **kw)
        else:
            b.append_taxa(vals, **kw)
        return b
    if k == "incorp":
        vals, kw = _operand(cls, op["vals"], t, grp, notaxa, b)
        pos = int(op["k"]) if op.get("kform") == "int" else [int(op["k"])]
        if generic:
            b.incorp(pos, vals, axis=ax, **kw)
        else:
            b.incorp_taxa(pos, vals, **kw)
        return b
    if k == "concat":
        others = [cls.from_numpy(_np_rows(o["rows"], t), taxa=None if notaxa else _names(o["taxa"]),
                                 taxa_grp=_grps(o["taxa"]) if grp else None) for o in op["others"]]
        return cls.concat([b] + others, axis=ax) if generic else cls.concat_taxa([b] + others)
    raise ValueError(k)


def _nat(v):
    """an arg-extremum as the driver reads it (a natural number); anything else — negative, fractional, NaN —
    becomes a position no matrix has, so that the Spec clause fails instead of the decoder"""
    try:
        f = Fraction(v)
        return int(f) if f.denominator == 1 and 0 <= f < 2 ** 31 else 2 ** 32 - 1
    except Exception:
        return 2 ** 32 - 1


def _for_driver(s, keep):
    d = {k: s[k] for k in keep if k in s}
    for k in ("targmax", "targmin"):
        if k in d:
            d[k] = [_nat(x) for x in d[k]] if isinstance(d[k], list) else d[k]
    return d


def _lean_op(op, t):
    k = op["op"]
    if k == "delete" and "obj" in op:
        return {"op": k, "obj": op["obj"]}
    if k in ("select", "delete", "reorder", "remove"):
        return {"op": k, "idx": list(op["idx"])}
    if k in ("insert", "incorp", "adjoin", "append"):
        v = op["vals"]
        d = {"op": k, "vals": {"as": "self"} if v["as"] == "self" else
             {"as": v["as"], "cols": _cols(v["rows"], t), "taxa": v["taxa"]}}
        if "k" in op:
            d["k"] = op["k"]
        if "obj" in op:
            d["obj"] = op["obj"]
        return d
    if k == "concat":
        return {"op": k, "others": [{"cols": _cols(o["rows"], t), "taxa": o["taxa"]} for o in op["others"]]}
    raise ValueError(k)


def _close(a, b, mag):
    """tolerant comparison of encoded scalars; NaN ("nan"/None) only equals NaN"""
    a = None if a == "nan" else a
    b = None if b == "nan" else b
    if a is None or b is None:
        return a is None and b is None
    return canon.close(canon.dec(a), canon.dec(b), rel=REL, abs_=1e-12 * mag)


def _close_list(a, b, mag):
    return isinstance(a, list) and isinstance(b, list) and len(a) == len(b) and all(
        _close_list(x, y, mag) if isinstance(x, list) or isinstance(y, list) else _close(x, y, mag)
        for x, y in zip(a, b))


def _mag(cols):
    m = Fraction(1)
    for c in cols:
        for v in c:
            if v not in ("nan", None):
                m = max(m, abs(Fraction(v)))
    return float(m)


ALL_STYLES = ["int", "int", "dyadic", "offset", "two", "ties", "constant", "huge", "constnan", "tiny", "off25k", "constfloat"]
QUIET_STYLES = ["int", "dyadic", "offset", "tiny", "off25k"]
# kinds whose correspondence comparison does not track conditioning (|x| / deviation) stay with these
BASE_STYLES = ["int", "int", "dyadic", "offset", "two", "ties", "constant", "huge", "constnan"]


class C15(Prop):
    PID = "C15"
    MODULE = "PybropsModel.Props.C15"
    N_QUICK = 450
    N_THOROUGH = 4000
    RULE = ("kind history (70 %): raw matrices of 1-12 (occasionally 49/98/103/130) taxa x 1-4 traits over integers / dyadic "
            "rationals with constant columns (also constant among the observed taxa with NaN), NaN entries (also whole NaN "
            "columns), offsets of 1e6, of 1e9 with spread 0.5 and of 25000 with differences of 1e-3, spreads of 1e-9, "
            "constants whose float mean is inexact (0.1, 0.7, 1-2^-52, 1/3, 1e9+0.1; D26 regression), "
            "ties for the arg-extrema; C / Fortran / strided memory layout (also of operands); built with from_numpy (12 %: "
            "the second factory from_pandas) in the three classes, with or without taxa labels, through the specific or the "
            "axis-generic entry points (axis 0 or -2); ndarray operands also as int64 / int32 / float32 arrays when "
            "they hold the values exactly; position lists also as numpy arrays; histories of 0-5 taxa operations "
            "(select with repeats, negative positions, the identity / delete by int, list, slice, boolean mask / insert at one or "
            "several positions, one value each or one broadcast / adjoin, with ndarray, matrix, SUBCLASS-matrix operands or "
            "the matrix ITSELF as operand, taxa_grp present or absent, copy / deepcopy, in-place reorder / sort_taxa / "
            "group_taxa, read-only select_taxa probes repeated after an in-place edit; a "
            "separate stream with the inherited in-place append/remove/incorp and concat_taxa; a malformed "
            "stream with bad positions / trait counts); after every step unscale(), location, scale, the "
            "stored matrix and all eight statistics (unscale=True and False) are observed on the SAME object, the caller's "
            "input arrays are overwritten after use, and after every copy-on-manipulation step the operand's arrays and an "
            "array returned by unscale() are overwritten (two-object aliasing); after every step the result of every statistic "
            "(except tmean(unscale=True), which IS the location array) is overwritten and asked again.  kind state (14 %): ONE "
            "object and 1-5 direct edits (element write, mat / location / scale re-assigned as arrays or Reals incl. scale 0, "
            "in-place remove / reorder / sort / append / incorp, and select / delete / insert / adjoin whose result — judged "
            "by the full Spec against from_numpy of what unscale() returned before — replaces the object) with the full "
            "query after each.  kind scaledh (12 %): DenseScaledMatrix of 2 or 3 axes, C / F / strided, "
            "parameters given as float arrays, INTEGER arrays, Python float / int scalars or defaulted, and 1-6 calls of "
            "transform / untransform (new array or an array already held, also self.mat; copy True / False) and rescale / "
            "unscale (inplace True / False), identities and contents of all reachable arrays observed after each call.  "
            "kind scaled (4 %): the fixed round-2 script.  Thorough tier adds the complete "
            "enumeration of histories of length <= 2 over ~30 operations on a fixed 4 x 2 matrix and of all DenseScaledMatrix "
            "call sequences of length <= 3 over 8 calls.  Non-trivial = at least 2 taxa, "
            "a non-constant trait and (history) at least one operation that succeeded")
    TRUSTED = ["numpy.sqrt: the model runs with a 30-digit rational square root; the theorems hold for "
               "every function `sq`, the unit-variance / tstd / tvar ones under the square-root contract",
               "numpy's axis-0 primitives act column by column (the model is trait-major); a DenseScaledMatrix of more than "
               "two axes is its (-1, t) reshape",
               "taxa / taxa_grp labels: observed after every step (taxa_grp = identity mod 3 must travel with its taxon); "
               "the label machinery itself is C03's; sort_taxa / group_taxa enter the model as the reordering by "
               "lexsort((taxa, taxa_grp)) recomputed by the harness from the labels observed before the call",
               "numpy index normalisation (negative / slice / mask / several insert positions): C03's normalisers "
               "LabelMat.normIdxs / DelIdx.norm / insPlan, compared with numpy through the correspondence",
               "array identity is observed with Python's `is` on the arrays the harness can reach (constructor arguments, "
               "attributes, arguments and results of every call); views into the same buffer are not identified",
               "which of the two models the history correspondence uses (code as is / the proposed D23-D25 overrides "
               "`applyOpRepaired`) follows from whether DenseBreedingValueMatrix itself defines append_taxa, incorp_taxa, "
               "remove_taxa and concat_taxa"]
    ASSUMPTIONS = ["finite inputs are integers or dyadic rationals (|x| <= ~1e9) so float results are within "
                   "1e-9 relative / 1e-12*(1+max|x|) absolute of the exact value (times |x|/deviation for standardised values)",
                   "NaN is the only non-finite input; several insert positions are given sorted (unsorted: not modelled)",
                   "statistics are not requested on a matrix with 0 taxa (numpy raises there)",
                   "a trait with missing values: the MOMENTS on the original scale (tmean / tstd / tvar) are judged against "
                   "the moments of the OBSERVED raw values only — the quantities the statement centres and scales by; NaN is "
                   "accepted only for a trait without any value (theorems spec_mean_iff, spec_mean_rejects_nan, "
                   "spec_std_var_nan_iff); for the extrema, the range and the arg-extrema the statement fixes no convention "
                   "and both numpy conventions (NaN-propagating as the code does, or NaN-ignoring) are accepted",
                   "tmean(unscale=True) returns the object's location array itself (as the `location` attribute does); writing "
                   "into that array is treated like re-assigning `location`, not as a read-only history, and is not probed",
                   "kind state / the `self:` clauses: for a trait with a NaN location or scale only the unscaling formula "
                   "is judged (unscale() is NaN throughout, the statistics come from the stored column)",
                   "DenseScaledMatrix: location and scale are two different arrays, scale entries are non-zero, transform / "
                   "untransform arguments are matrix-shaped float arrays"]

    # ------------------------------------------------------------------ corpus
    def corpus(self):
        f01 = canon.enc(0.1)
        f07 = canon.enc(0.7)
        f1m = canon.enc(0.9999999999999998)
        A = [[1, 5, 7], [2, 5, "nan"], [4, 5, 9]]
        B = [[10, 50, 70], [20, 60, 80]]
        nc = [[1, 7], [2, 3], [4, 9]]          # no constant trait, no NaN
        A_2 = [[1, 5], [2, 5], ["nan", 5]]
        nb = [[10, 70], [20, 80]]
        h = lambda **kw: dict({"kind": "history", "cls": "BV", "generic": False}, **kw)
        return [
            # D9 (fixed in /repo by 94b833ce): constant trait; kept as regression cases
            h(ntrait=3, rows=A, taxa=[0, 1, 2], ops=[]),
            h(ntrait=1, rows=[[5], [5]], taxa=[0, 1], ops=[]),
            h(ntrait=1, rows=[[3]], taxa=[0], ops=[], cls="EBV"),
            # inherited concat_taxa: stored values concatenated, location 0 / scale 1; TypeError for (G)EBV
            h(ntrait=2, rows=nc, taxa=[0, 1, 2], ops=[{"op": "concat", "others": [{"rows": nb, "taxa": [3, 4]}]}]),
            h(ntrait=2, rows=nc, taxa=[0, 1, 2], cls="EBV",
              ops=[{"op": "concat", "others": [{"rows": nb, "taxa": [3, 4]}]}]),
            h(ntrait=2, rows=nc, taxa=[0, 1, 2], cls="GEBV", generic=True,
              ops=[{"op": "concat", "others": [{"rows": nb, "taxa": [3, 4]}]}]),
            # inherited in-place append / incorp: stored values of the operand taken as is
            h(ntrait=2, rows=nc, taxa=[0, 1, 2], ops=[{"op": "append", "vals": {"as": "bv", "rows": nb, "taxa": [3, 4]}}]),
            h(ntrait=2, rows=nc, taxa=[0, 1, 2], ops=[{"op": "append", "vals": {"as": "nd", "rows": nb, "taxa": [3, 4]}}]),
            h(ntrait=2, rows=nc, taxa=[0, 1, 2],
              ops=[{"op": "incorp", "k": 1, "vals": {"as": "bv", "rows": nb, "taxa": [3, 4]}}]),
            # inherited in-place remove: raw values kept, location / scale stale
            h(ntrait=2, rows=nc, taxa=[0, 1, 2], ops=[{"op": "remove", "idx": [0]}]),
            h(ntrait=1, rows=[[4], [5], [6]], taxa=[0, 1, 2], ops=[{"op": "remove", "idx": [0, 2]}]),
            # D26 (fixed in /repo by <commit>): constant trait whose float mean is inexact — the scale was 1.4e-17
            # instead of 1 and every taxon stored as -1; regression cases (fresh matrix, inside select_taxa / adjoin_taxa /
            # insert_taxa / delete_taxa, next to a varying trait, with a NaN, in the estimated classes, 49 taxa)
            h(ntrait=1, rows=[[f01], [f01], [f01]], taxa=[0, 1, 2], ops=[]),
            h(ntrait=2, rows=[[f01, 1], [f01, 2], [f01, 4], [f07, 8]], taxa=[0, 1, 2, 3], cls="EBV",
              ops=[{"op": "select", "idx": [2, 0, 1]}, {"op": "adjoin", "vals": {"as": "nd", "rows": [[f01, 3]], "taxa": [4]}},
                   {"op": "delete", "idx": [0]}]),
            h(ntrait=2, rows=[[f1m, "nan"], [f1m, f07], ["nan", f07], [f1m, f07], [3, f07]], taxa=[0, 1, 2, 3, 4], cls="GEBV",
              generic=True, ops=[{"op": "select", "idx": [0, 1, 3]},
                                 {"op": "insert", "k": 1, "kform": "int", "vals": {"as": "bv", "rows": [[f1m, f07]], "taxa": [5]}}]),
            h(ntrait=2, rows=[[f01, f07], [f01, "nan"], ["nan", f07], [f01, f07]], taxa=[0, 1, 2, 3], ops=[{"op": "delete", "idx": [3]}]),
            h(ntrait=1, rows=[[f01]] * 49, taxa=list(range(49)), ops=[{"op": "delete", "obj": {"kind": "slice", "a": 5, "b": 40, "c": None}}]),
            # the three seeded kinds: huge offset with spread 0.5; unscale -> in-place edit -> unscale/select;
            # constant trait with a NaN (also: observed once)
            h(ntrait=2, rows=[[10 ** 9, "1999999999/2"], ["2000000001/2", 10 ** 9], ["1999999999/2", "2000000001/2"],
                              [10 ** 9, 10 ** 9]], taxa=[0, 1, 2, 3], ops=[{"op": "select", "idx": [3, 0, 1]}]),
            h(ntrait=2, rows=nc + [[8, 1]], taxa=[0, 1, 2, 3],
              ops=[{"op": "reorder", "idx": [2, 0, 3, 1]}, {"op": "select", "idx": [1, 0, 3]},
                   {"op": "reorder", "idx": [1, 2, 0]}, {"op": "delete", "idx": [0]}]),
            h(ntrait=2, rows=[["15/2", "nan"], ["15/2", "13/4"], ["nan", "nan"], ["15/2", "nan"]], taxa=[0, 1, 2, 3],
              ops=[{"op": "delete", "idx": [1]}], cls="EBV"),
            # boundaries that must hold
            h(ntrait=2, rows=nc, taxa=[0, 1, 2],
              ops=[{"op": "select", "idx": [2, 0, 2]},
                   {"op": "adjoin", "vals": {"as": "bv", "rows": nb, "taxa": [3, 4]}},
                   {"op": "insert", "k": 1, "kform": "int", "vals": {"as": "nd", "rows": [[100, -3]], "taxa": [5]}},
                   {"op": "delete", "idx": [0], "form": "int"},
                   {"op": "reorder", "idx": [4, 3, 2, 1, 0]}]),
            h(ntrait=2, rows=[[1, "nan"], [2, "nan"], [4, "nan"]], taxa=[0, 1, 2], ops=[{"op": "select", "idx": [1, 2]}]),
            h(ntrait=2, rows=[[1, 3], ["nan", 9], [7, "nan"]], taxa=[0, 1, 2], ops=[{"op": "delete", "idx": [0]}]),
            h(ntrait=1, rows=[[1000001], [1000002], ["2000009/2"]], taxa=[0, 1, 2], ops=[]),
            h(ntrait=2, rows=[[3, 1], [3, 1], [2, 4], [3, 0]], taxa=[0, 1, 2, 3], ops=[]),       # ties
            h(ntrait=2, rows=nc, taxa=[0, 1, 2], ops=[{"op": "select", "idx": []}]),             # 0 taxa
            h(ntrait=0, rows=[[], [], []], taxa=[0, 1, 2], ops=[{"op": "select", "idx": [1]}]),  # 0 traits
            h(ntrait=2, rows=nc, taxa=[0, 1, 2], ops=[{"op": "select", "idx": [3]}]),            # rejected
            h(ntrait=2, rows=nc, taxa=[0, 1, 2],
              ops=[{"op": "adjoin", "vals": {"as": "nd", "rows": [[1, 2, 3]], "taxa": [3], "ntrait": 3}}]),
            # round 3: "nothing to do" requests still hand out a matrix of their own
            h(ntrait=2, rows=nc, taxa=[0, 1, 2], ops=[{"op": "select", "idx": [0, 1, 2]}, {"op": "reorder", "idx": [2, 0, 1]}]),
            h(ntrait=2, rows=nc, taxa=[0, 1, 2], ops=[{"op": "delete", "idx": []}, {"op": "reorder", "idx": [1, 2, 0]}]),
            h(ntrait=2, rows=nc, taxa=[0, 1, 2], ops=[{"op": "copy", "how": "method"}, {"op": "sort", "group": False},
                                                       {"op": "deepcopy", "how": "module"}], layout="F"),
            # small spreads and a common offset: 1e-9 differences, 25000 + 1e-3 differences
            h(ntrait=2, rows=[["1/1073741824", "25600001/1024"], ["-3/1073741824", "25600003/1024"],
                              ["5/1073741824", "25600007/1024"]], taxa=[0, 1, 2], ops=[{"op": "select", "idx": [2, 0]}]),
            # an operand of a subclass, a strided operand, no taxa labels at all
            h(ntrait=2, rows=nc, taxa=[0, 1, 2],
              ops=[{"op": "adjoin", "vals": {"as": "bv", "cls": "GEBV", "rows": nb, "taxa": [3, 4]}},
                   {"op": "insert", "k": 2, "kform": "list", "vals": {"as": "nd", "rows": nb, "taxa": [5, 6], "layout": "strided"}}]),
            h(ntrait=2, rows=nc, taxa=[0, 1, 2], notaxa=True, layout="strided",
              ops=[{"op": "select", "idx": [2, 0]}, {"op": "adjoin", "vals": {"as": "nd", "rows": nb, "taxa": [3, 4]}}]),
            # round 4: the operand's dtype is not the matrix's (whole-number raw values as int64 / int32, short dyadics as
            # float32) — the retained non-integer raw values must survive
            h(ntrait=2, rows=[["41/4", "3/8"], ["-7/2", "nan"], ["5/16", "9/2"]], taxa=[0, 1, 2],
              ops=[{"op": "adjoin", "vals": {"as": "nd", "rows": [[3, -2], [7, 0]], "taxa": [3, 4], "dtype": "int64"}},
                   {"op": "insert", "k": 1, "kform": "int", "vals": {"as": "nd", "rows": [[5, 1]], "taxa": [5], "dtype": "int32"}},
                   {"op": "insert", "obj": {"kind": "list", "is": [0, 4], "np": True},
                    "vals": {"as": "nd", "rows": [["1/2", "-3/4"], ["nan", 8]], "taxa": [6, 7], "dtype": "float32"}}]),
            # round 5: the MOMENTS of a trait with a missing record are those of the observed taxa (never NaN for the whole
            # trait) — NaN in the raw matrix, brought in by insert_taxa (then a delete), by adjoin_taxa into a constant trait,
            # a trait observed for one taxon only
            h(ntrait=3, rows=[[1000, 2, 7], [1003, 4, 7], [1001, "nan", 7], [1008, 5, 7], [1002, 1, 7]], taxa=[0, 1, 2, 3, 4],
              ops=[{"op": "insert", "k": 1, "kform": "int", "vals": {"as": "nd", "rows": [["nan", 6, 7]], "taxa": [5]}},
                   {"op": "delete", "idx": [4]},
                   {"op": "adjoin", "vals": {"as": "nd", "rows": [[1005, 3, "nan"], [1004, 2, 7]], "taxa": [6, 7]}}]),
            h(ntrait=2, rows=[["nan", 3], [9, "nan"], ["nan", 5]], taxa=[0, 1, 2], cls="EBV", generic=True,
              ops=[{"op": "select", "idx": [2, 1, 1, 0]}]),
            {"kind": "state", "cls": "GEBV", "generic": True, "axis": -2, "grp": True, "ntrait": 2, "via": "pandas",
             "rows": [["41/4", "3/8"], ["-7/2", 2], ["5/16", "9/2"], [6, "nan"]], "taxa": [0, 1, 2, 3],
             "edits": [{"e": "setscale", "scale": [2, 2], "scalar": True}, {"e": "setloc", "loc": ["-7/4", "-7/4"], "scalar": True},
                       {"e": "op", "op": "select", "idx": [3, -4, 1], "form": "array"},
                       {"e": "op", "op": "append", "vals": {"as": "nd", "rows": [[3, -2]], "taxa": [4], "dtype": "int64"}},
                       {"e": "op", "op": "adjoin", "vals": {"as": "self"}},
                       {"e": "op", "op": "delete", "obj": {"kind": "mask", "m": [True, False, False, True, False, False, False, True]}},
                       {"e": "setitem", "j": 0, "i": 1, "v": "5/2"},
                       {"e": "op", "op": "insert", "k": 2, "kform": "list", "vals": {"as": "bv", "rows": [[1, 1]], "taxa": [9]}}]},
            # sizes past small-integer accumulators: 130 taxa, extrema at positions 129 and 128
            h(ntrait=2, rows=[[i, 260 - 2 * i] for i in range(128)] + [[-7, 300], [500, -40]], taxa=list(range(130)),
              ops=[{"op": "select", "idx": [129, 128, 5, -1, 64, 127]}], cls="EBV"),
            # one object, queried after each direct edit (the clauses that hold in every state)
            {"kind": "state", "cls": "BV", "generic": False, "grp": True, "ntrait": 2, "rows": nc + [[8, 1]], "taxa": [0, 1, 2, 3],
             "edits": [{"e": "op", "op": "remove", "idx": [0, 1], "form": "list"}, {"e": "setitem", "j": 1, "i": 0, "v": "5/2"},
                       {"e": "setloc", "loc": [100, "-7/4"]}, {"e": "setscale", "scale": [2, "1/2"]},
                       {"e": "op", "op": "append", "vals": {"as": "nd", "rows": nb, "taxa": [4, 5]}},
                       {"e": "op", "op": "reorder", "idx": [3, 0, 2, 1]}]},
            {"kind": "state", "cls": "EBV", "generic": True, "grp": False, "ntrait": 1, "rows": [[4], [5], [9]], "taxa": [0, 1, 2],
             "edits": [{"e": "setmat", "rows": [[3], [3], ["nan"]]}, {"e": "op", "op": "remove", "idx": [1], "form": "int"},
                       {"e": "op", "op": "incorp", "k": 1, "kform": "int", "vals": {"as": "bv", "rows": [[7], [11]], "taxa": [3, 4]}}]},
            # DenseScaledMatrix call histories: integer parameter arrays, Python-int parameters, three axes
            {"kind": "scaledh", "ntrait": 2, "rows": nc + [[8, 1]], "form": "int_array", "loc": [1, -2], "scale": [2, 1],
             "steps": [{"op": "rescale", "inplace": True}, {"op": "unscale", "inplace": False},
                       {"op": "transform", "copy": True, "new": nc + [[0, 0]]}, {"op": "untransform", "copy": False, "ref": 5},
                       {"op": "unscale", "inplace": True}, {"op": "rescale", "inplace": False}]},
            {"kind": "scaledh", "ntrait": 1, "rows": [[1], [3], [3], [9]], "form": "int_scalar", "loc": [0], "scale": [1],
             "shape": [2, 2], "layout": "F",
             "steps": [{"op": "rescale", "inplace": True}, {"op": "transform", "copy": False, "ref": 0},
                       {"op": "unscale", "inplace": True}]},
            {"kind": "scaledh", "ntrait": 2, "rows": A_2 , "form": "default", "loc": [0, 0], "scale": [1, 1],
             "steps": [{"op": "rescale", "inplace": False}, {"op": "rescale", "inplace": True},
                       {"op": "untransform", "copy": True, "ref": 0}]},
            # D26 in the second copy of the mechanism (fixed by the same commit): DenseScaledMatrix.rescale on three times 0.1,
            # in place and as a copy, two and three axes, after an unscale in place
            {"kind": "scaledh", "ntrait": 1, "rows": [[f01], [f01], [f01]], "form": "default", "loc": [0], "scale": [1],
             "steps": [{"op": "rescale", "inplace": True}]},
            {"kind": "scaledh", "ntrait": 2, "rows": [[f01, 1], [f01, 5], [f01, 2], [f01, 2], [f01, 7], [f01, 3]], "form": "array",
             "loc": [0, 1], "scale": [1, 2], "shape": [2, 3],
             "steps": [{"op": "rescale", "inplace": False}, {"op": "unscale", "inplace": True}, {"op": "rescale", "inplace": True},
                       {"op": "rescale", "inplace": True}]},
            {"kind": "scaled", "ntrait": 3, "rows": A, "loc": [1, 2, 3], "scale": [2, 4, 1], "x": [[3, 6, 4]]},
            {"kind": "scaled", "ntrait": 1, "rows": [[5], [5]], "loc": [0], "scale": [1], "x": [[1], ["nan"]]},
        ]

    # ------------------------------------------------------------------ generation
    @staticmethod
    def _column(rng, n, style):
        if style == "int":
            c = [rng.randint(-9, 9) for _ in range(n)]
        elif style == "dyadic":
            c = [Fraction(rng.randint(-40, 40), rng.choice([2, 4, 8])) for _ in range(n)]
        elif style == "offset":
            base = rng.choice([10 ** 6, -10 ** 6, 123456])
            c = [base + rng.randint(0, 12) + rng.choice([0, 0, Fraction(1, 2)]) for _ in range(n)]
        elif style == "huge":           # offset 1e9 with a spread of 0.5: one-pass variance formulas cancel
            base = rng.choice([10 ** 9, -10 ** 9])
            c = [base + rng.choice([Fraction(-1, 2), 0, Fraction(1, 2)]) for _ in range(n)]
        elif style == "tiny":           # spread of 1e-9 .. 1e-8: below numpy.isclose's default atol
            c = [Fraction(rng.randint(-9, 9), 2 ** 30) for _ in range(n)]
        elif style == "off25k":         # common offset 25000 with differences of 1e-3 .. 1e-2
            c = [25000 + Fraction(rng.randint(0, 12), 1024) for _ in range(n)]
        elif style == "constnan":       # constant among the observed taxa, with missing values
            v = rng.choice([0, 5, -3, Fraction(7, 4), Fraction(15, 2)])
            c = [v] * n
            for i in rng.sample(range(n), rng.randint(1, max(1, n - 1)) if n > 1 else 0):
                c[i] = "nan"
        elif style == "constant":
            v = rng.choice([0, 5, -3, Fraction(7, 4), 10 ** 6 + 1])
            c = [v] * n
        elif style == "constfloat":     # a constant whose float mean need not be the constant (D26): 0.1, 0.7, 1 - 2**-52, ...
            v = Fraction(rng.choice([0.1, 0.7, 0.9999999999999998, 1 / 3, 1e9 + 0.1, -2.2, 1e-9 / 3]))
            c = [v] * n
            if n > 1 and rng.random() < 0.3:
                for i in rng.sample(range(n), rng.randint(1, n - 1)):
                    c[i] = "nan"
        elif style == "two":
            a, b = rng.sample([-2, 0, 1, 3, 8], 2)
            c = [rng.choice([a, b]) for _ in range(n)]
        elif style == "ties":
            c = [rng.randint(0, 2) for _ in range(n)]
        else:
            raise ValueError(style)
        return c

    def _rows(self, rng, n, t, nan_ok=True, const_ok=True, styles=None, pool=None):
        """n x t canonical rows.  `const_ok=False` ("quiet"): every column has pairwise distinct finite
        values and at most one NaN, so that no sub-selection of >= 2 taxa is a constant trait.
        `styles` fixes the style per column (operands follow the matrix they are combined with)."""
        cols = []
        for j in range(t):
            if const_ok:
                st = styles[j] if styles else rng.choice(pool or ALL_STYLES)
                c = self._column(rng, n, st)
                r = rng.random()
                if nan_ok and r < 0.18 and n >= 1:
                    for i in rng.sample(range(n), rng.randint(1, max(1, n // 3))):
                        c[i] = "nan"
                elif nan_ok and r < 0.21:
                    c = ["nan"] * n
            else:
                st = styles[j] if styles else rng.choice(QUIET_STYLES)
                if st == "int":
                    c = rng.sample(range(-max(60, n), max(60, n) + 1), n)
                elif st == "dyadic":
                    c = [Fraction(v, 4) for v in rng.sample(range(-200, 201), n)]
                elif st == "tiny":
                    c = [Fraction(v, 2 ** 30) for v in rng.sample(range(-max(60, n), max(60, n) + 1), n)]
                elif st == "off25k":
                    c = [25000 + Fraction(v, 1024) for v in rng.sample(range(0, max(60, 2 * n)), n)]
                else:
                    base = rng.choice([10 ** 6, -10 ** 6, 123456, 10 ** 9])
                    c = [base + Fraction(v, 2) for v in rng.sample(range(0, max(40, 2 * n)), n)]
                if nan_ok and n >= 4 and rng.random() < 0.15:
                    c[rng.randrange(n)] = "nan"
            cols.append([canon.enc(v) if v != "nan" else "nan" for v in c])
        return [[cols[j][i] for j in range(t)] for i in range(n)]

    def _history(self, rng, tier):
        r = rng.random()
        profile = "good" if r < 0.68 else ("inherited" if r < 0.90 else "malformed")
        quiet = rng.random() < 0.7      # no constant trait can arise (kept from the time D9 was open: constant traits are the other 30 %)
        n = rng.choice([2, 3, 3, 4, 4, 5, 6, 8, 12]) if quiet else rng.choice([1, 2, 2, 3, 3, 4, 4, 5, 6, 8, 12])
        if rng.random() < (0.03 if tier == "quick" else 0.05):
            n = rng.choice([49, 98, 103, 130])
        t = rng.choice([1, 1, 2, 2, 3, 4])
        styles = [rng.choice(QUIET_STYLES if quiet else ALL_STYLES) for _ in range(t)]
        cls_name = rng.choice(["BV", "BV", "BV", "EBV", "GEBV"])
        notaxa = rng.random() < 0.06
        rows = self._rows(rng, n, t, const_ok=not quiet, styles=styles)
        taxa = list(range(n))
        fresh = [n]
        lo = 2 if quiet else 0          # quiet histories never drop below two taxa

        def operand(k=None, bad_t=False, allow_self=False):
            m = k if k is not None else rng.choice([1, 1, 2, 3])
            tt = t + 1 if bad_t else t
            ids = list(range(fresh[0], fresh[0] + m))
            fresh[0] += m
            st = styles + ["int"] * (tt - t)
            if not quiet and rng.random() < 0.3:
                st = None               # operand on another scale than the matrix (1e6 next to units)
            d = {"as": rng.choice(["bv", "nd"]), "rows": self._rows(rng, m, tt, const_ok=not quiet, styles=st),
                 "taxa": ids}
            lay = rng.choice(["C", "C", "C", "F", "strided"])
            if lay != "C":
                d["layout"] = lay
            if d["as"] == "bv" and cls_name == "BV" and rng.random() < 0.25:
                d["cls"] = rng.choice(["EBV", "GEBV"])       # an operand of a subclass is an operand
            if d["as"] == "nd" and rng.random() < 0.45:
                cands = [dt for dt in ("int64", "int32", "float32") if _dtype_ok(d["rows"], dt)]
                if cands:
                    d["dtype"] = rng.choice(cands)           # whole-number raw values as an integer array, ...
            if allow_self and rng.random() < 0.07:
                d = {"as": "self"}                           # the matrix joined to itself
                fresh[0] -= m
            if bad_t:
                d["ntrait"] = tt
            return d

        ops = []
        nops = rng.choice([0, 1, 1, 2, 2, 3, 3, 4, 5]) if n < 40 else rng.choice([0, 1, 2])
        cur = n
        for i in range(nops):
            good = ["select", "delete", "insert", "adjoin", "reorder"]
            kinds = good if profile != "inherited" else good + ["append", "remove", "incorp", "concat"] * 2
            k = rng.choice(kinds)
            if rng.random() < 0.12:
                k = rng.choice(["copy", "deepcopy"] if notaxa else ["copy", "deepcopy", "sort", "sort"])
            if cur == 0 and k in ("select", "delete", "reorder", "remove"):
                k = "adjoin"
            if cur >= 2 and rng.random() < 0.06:
                # the same read-only request before and after an in-place edit of the object
                pidx = [rng.randrange(cur) for _ in range(rng.randint(2, 4))]
                if quiet and len(set(pidx)) < 2:
                    pidx[0] = (pidx[-1] + 1) % cur
                p2 = list(range(cur))
                while p2 == list(range(cur)):
                    rng.shuffle(p2)
                ops += [{"op": "probe", "idx": pidx}, {"op": "reorder", "idx": p2}, {"op": "probe", "idx": pidx}]
                continue
            if k in ("copy", "deepcopy"):
                ops.append({"op": k, "how": rng.choice(["method", "module"])})
            elif k == "sort":
                ops.append({"op": k, "group": rng.random() < 0.5})
            elif k == "select":
                m = rng.randint(max(1, lo), min(cur + 2, 14))
                idx = [rng.randrange(cur) for _ in range(m)]
                if quiet and len(set(idx)) < 2:
                    idx[0] = (idx[-1] + 1) % cur
                if rng.random() < 0.1:           # everything, in order: "nothing to do" is still a copy
                    idx, m = list(range(cur)), cur
                if rng.random() < 0.35:          # negative positions count from the end
                    idx = [i - cur if rng.random() < 0.5 else i for i in idx]
                ops.append({"op": k, "idx": idx, "form": rng.choice(["list", "array"])})
                cur = m
                if idx == list(range(cur)) and cur >= 2 and rng.random() < 0.7:
                    # ... and the operand must not notice what is done to the result afterwards
                    p2 = list(range(cur))
                    while p2 == list(range(cur)):
                        rng.shuffle(p2)
                    ops.append({"op": "reorder", "idx": p2})
            elif k in ("delete", "remove"):
                if cur <= max(1, lo):
                    idx = [0] if (cur == 1 and not quiet and rng.random() < 0.15) else []
                else:
                    idx = rng.sample(range(cur), rng.randint(1, cur - max(1, lo)))
                    if rng.random() < 0.2:
                        idx.append(idx[0])
                form = "list"
                if len(set(idx)) == 1 and len(idx) == 1 and rng.random() < 0.4:
                    form = "int"
                elif idx and sorted(set(idx)) == list(range(min(idx), max(idx) + 1)) and len(set(idx)) == len(idx) \
                        and rng.random() < 0.3:
                    idx = sorted(idx)
                    form = "slice"
                op = {"op": k, "idx": idx, "form": form}
                if k == "delete" and rng.random() < 0.5:        # the numpy index object as a caller writes it
                    keep_min = max(1, lo)
                    r2 = rng.random()
                    if r2 < 0.3:
                        m = [i in set(idx) for i in range(cur)]
                        op = {"op": k, "obj": {"kind": "mask", "m": m}}
                    elif r2 < 0.55 and idx:
                        op = {"op": k, "obj": {"kind": "list", "is": [i - cur if rng.random() < 0.5 else i for i in idx]}}
                        if rng.random() < 0.4:
                            op["obj"]["np"] = True
                    elif r2 < 0.7 and idx:
                        i0 = idx[0]
                        op = {"op": k, "obj": {"kind": "int", "i": i0 - cur if rng.random() < 0.5 else i0}}
                        idx = [i0]
                    else:
                        a = rng.choice([None, 0, 1, -2, -cur])
                        bb = rng.choice([None, cur - 1, -1, 2, cur + 3])
                        c = rng.choice([None, 1, 2, 2, -1])
                        gone = list(range(cur))[slice(a, bb, c)]
                        if cur - len(gone) >= keep_min:
                            op = {"op": k, "obj": {"kind": "slice", "a": a, "b": bb, "c": c}}
                            idx = gone
                ops.append(op)
                cur -= len(set(idx))
            elif k in ("insert", "incorp"):
                v = operand(allow_self=cur >= 1 and cur <= 12)
                op = {"op": k, "k": rng.randint(0, cur), "kform": rng.choice(["int", "list"]), "vals": v}
                q = cur if v["as"] == "self" else len(v["taxa"])
                added = q
                if k == "insert" and v["as"] != "self" and rng.random() < 0.5:
                    r2 = rng.random()
                    neg = lambda p: p - cur if (p < cur and rng.random() < 0.4) else p
                    if r2 < 0.25:
                        op = {"op": k, "obj": {"kind": "int", "i": neg(op["k"])}, "vals": v}
                    elif r2 < 0.65:             # one value before each of several sorted positions
                        ps = sorted(rng.randint(0, cur) for _ in range(q))
                        op = {"op": k, "obj": {"kind": "list", "is": [neg(p) for p in ps]}, "vals": v}
                        if rng.random() < 0.4:
                            op["obj"]["np"] = True
                    elif r2 < 0.9:              # a single value broadcast to several positions
                        v = operand(1)
                        ps = sorted(rng.randint(0, cur) for _ in range(rng.choice([2, 3])))
                        op = {"op": k, "obj": {"kind": "list", "is": ps}, "vals": v}
                        added = len(ps)
                    elif cur >= 2:              # a slice of positions
                        v = operand(2)
                        op = {"op": k, "obj": {"kind": "slice", "a": 0, "b": 2, "c": None}, "vals": v}
                        added = 2
                ops.append(op)
                cur += added
            elif k in ("adjoin", "append"):
                v = operand(allow_self=cur >= 1 and cur <= 12)
                ops.append({"op": k, "vals": v})
                cur += cur if v["as"] == "self" else len(v["taxa"])
            elif k == "reorder":
                idx = list(range(cur))
                rng.shuffle(idx)
                ops.append({"op": k, "idx": idx})
            elif k == "concat":
                others = []
                for _ in range(rng.choice([1, 1, 2])):
                    v = operand()
                    others.append({"rows": v["rows"], "taxa": v["taxa"]})
                    cur += len(v["taxa"])
                ops.append({"op": k, "others": others})
        if profile == "malformed":
            bad = rng.choice(["index", "index_del", "pos", "shape", "neg", "mask", "count"])
            if bad == "index":
                ops.append({"op": "select", "idx": [0] * min(cur, 1) + [cur + rng.randint(0, 2)]})
            elif bad == "index_del":
                ops.append({"op": "delete", "idx": [cur + rng.randint(0, 2)]})
            elif bad == "neg":
                ops.append({"op": "select", "idx": [-(cur + 1 + rng.randint(0, 1))]})
            elif bad == "mask":
                ops.append({"op": "delete", "obj": {"kind": "mask", "m": [True] * (cur + 1)}})
            elif bad == "count":
                ops.append({"op": "insert", "obj": {"kind": "list", "is": [0, 0, min(cur, 1)]}, "vals": operand(2)})
            elif bad == "pos":
                ops.append({"op": "insert", "k": cur + 1 + rng.randint(0, 2), "kform": "list", "vals": operand(1)})
            else:
                ops.append({"op": rng.choice(["adjoin", "insert"]), "k": 0, "kform": "list",
                            "vals": operand(bad_t=True)})
        case = {"kind": "history", "cls": cls_name,
                "generic": rng.random() < 0.3, "grp": rng.random() < 0.6 and not notaxa, "ntrait": t, "rows": rows,
                "taxa": taxa, "ops": ops}
        lay = rng.choice(["C", "C", "C", "F", "strided"])
        if lay != "C":
            case["layout"] = lay
        if notaxa:
            case["notaxa"] = True
        elif rng.random() < 0.12:
            case["via"] = "pandas"          # the second factory: a table of raw values
        if case["generic"] and rng.random() < 0.5:
            case["axis"] = -2               # the taxa axis named from the end
        return case

    def _state(self, rng):
        """ONE object: from_numpy, then 1-5 direct edits with a full query after each"""
        n = rng.choice([2, 3, 3, 4, 5, 6, 8])
        t = rng.choice([1, 2, 2, 3])
        rows = self._rows(rng, n, t, pool=BASE_STYLES)
        fresh = [n]
        cur = n
        edits = []
        val = lambda: canon.enc(rng.choice([0, 1, -1, 2, Fraction(1, 2), Fraction(-7, 4), 3, 10, Fraction(5, 8)]))
        for _ in range(rng.choice([1, 2, 2, 3, 3, 4, 5])):
            k = rng.choice(["setitem", "setitem", "setmat", "setloc", "setscale", "remove", "remove", "reorder",
                            "append", "incorp", "sort", "select", "delete", "insert", "adjoin"])
            if k == "setitem":
                edits.append({"e": k, "j": rng.randrange(t), "i": rng.randrange(cur),
                              "v": "nan" if rng.random() < 0.12 else val()})
            elif k == "setmat":
                edits.append({"e": k, "rows": self._rows(rng, cur, t, styles=[rng.choice(["int", "dyadic", "two", "ties", "constant"])
                                                                         for _ in range(t)])})
            elif k == "setloc":
                loc = [canon.enc(rng.choice([0, 1, -2, Fraction(1, 2), 10 ** 6, Fraction(-7, 4), 100])) for _ in range(t)]
                e = {"e": k, "loc": loc}
                if rng.random() < 0.3:              # a Real: repeated for every trait by the setter
                    e = {"e": k, "loc": [loc[0]] * t, "scalar": True}
                edits.append(e)
            elif k == "setscale":
                sc = [canon.enc(rng.choice([1, 2, 4, Fraction(1, 2), 3, Fraction(5, 4), 10, 10, 0 if rng.random() < 0.3 else 1]))
                      for _ in range(t)]
                e = {"e": k, "scale": sc}
                if rng.random() < 0.3:
                    e = {"e": k, "scale": [sc[0]] * t, "scalar": True}
                edits.append(e)
            elif k == "remove":
                if cur <= 1:
                    continue
                idx = rng.sample(range(cur), rng.randint(1, cur - 1))
                form = "list"
                if len(idx) == 1 and rng.random() < 0.4:
                    form = "int"
                elif sorted(idx) == list(range(min(idx), max(idx) + 1)) and rng.random() < 0.5:
                    idx, form = sorted(idx), "slice"
                edits.append({"e": "op", "op": "remove", "idx": idx, "form": form})
                cur -= len(idx)
            elif k == "reorder":
                idx = list(range(cur))
                rng.shuffle(idx)
                edits.append({"e": "op", "op": "reorder", "idx": idx})
            elif k == "sort":
                edits.append({"e": "op", "op": "sort", "group": rng.random() < 0.5})
            elif k == "select":
                # copy-on-manipulation requests on the object AS IT IS NOW (stale / re-assigned location and scale):
                # the result must be from_numpy of what unscale() returns now; it replaces the object
                m = rng.randint(1, min(cur + 2, 8))
                idx = [rng.randrange(cur) for _ in range(m)]
                if rng.random() < 0.3:
                    idx = [i - cur if rng.random() < 0.5 else i for i in idx]
                edits.append({"e": "op", "op": "select", "idx": idx, "form": rng.choice(["list", "array"])})
                cur = m
            elif k == "delete":
                if cur <= 1:
                    continue
                idx = rng.sample(range(cur), rng.randint(1, cur - 1))
                if rng.random() < 0.5:
                    edits.append({"e": "op", "op": "delete", "obj": {"kind": "mask", "m": [i in set(idx) for i in range(cur)]}})
                else:
                    edits.append({"e": "op", "op": "delete", "idx": idx, "form": "list"})
                cur -= len(idx)
            else:
                m = rng.choice([1, 1, 2, 3])
                v = {"as": rng.choice(["nd", "nd", "bv"]), "rows": self._rows(rng, m, t, pool=["int", "dyadic", "two", "ties", "constant"]),
                     "taxa": list(range(fresh[0], fresh[0] + m))}
                fresh[0] += m
                if v["as"] == "nd" and rng.random() < 0.4:
                    cands = [dt for dt in ("int64", "int32", "float32") if _dtype_ok(v["rows"], dt)]
                    if cands:
                        v["dtype"] = rng.choice(cands)
                if k in ("insert", "adjoin") and cur <= 6 and rng.random() < 0.15:
                    v = {"as": "self"}          # the object in its current state as its own operand
                    fresh[0] -= m
                    m = cur
                e = {"e": "op", "op": k, "vals": v}
                if k in ("incorp", "insert"):
                    e["k"] = rng.randint(0, cur)
                    e["kform"] = rng.choice(["int", "list"])
                edits.append(e)
                cur += m
        case = {"kind": "state", "cls": rng.choice(["BV", "BV", "EBV", "GEBV"]), "generic": rng.random() < 0.3,
                "grp": rng.random() < 0.5, "ntrait": t, "rows": rows, "taxa": list(range(n)), "edits": edits}
        if rng.random() < 0.15:
            case["via"] = "pandas"
        if case["generic"] and rng.random() < 0.5:
            case["axis"] = -2
        return case

    def _scaledh(self, rng):
        """a DenseScaledMatrix object and 1-6 calls of transform / untransform / rescale / unscale"""
        n = rng.choice([1, 2, 3, 4, 4, 6, 6])
        t = rng.choice([1, 2, 3])
        rows = self._rows(rng, n, t)
        form = rng.choice(["array", "array", "int_array", "int_array", "scalar", "int_scalar", "int_scalar", "default"])
        if form in ("int_array", "int_scalar"):
            loc = [rng.choice([0, 0, 1, -2, 5, 1000]) for _ in range(t)]
            scale = [rng.choice([1, 1, 2, 3, 4]) for _ in range(t)]
        elif form == "default":
            loc, scale = [0] * t, [1] * t
        else:
            loc = [rng.choice([0, 1, -2, Fraction(1, 2), 10 ** 6, Fraction(-7, 4)]) for _ in range(t)]
            scale = [rng.choice([1, 2, 4, Fraction(1, 2), 3, Fraction(5, 4)]) for _ in range(t)]
        if form in ("scalar", "int_scalar"):
            loc, scale = [loc[0]] * t, [scale[0]] * t
        case = {"kind": "scaledh", "ntrait": t, "rows": rows, "form": form, "loc": [canon.enc(v) for v in loc],
                "scale": [canon.enc(v) for v in scale]}
        if n in (4, 6) and rng.random() < 0.5:
            case["shape"] = [2, n // 2]
        lay = rng.choice(["C", "C", "F", "strided"])
        if lay != "C":
            case["layout"] = lay
        mats, nxt = [0], 3           # identities of the matrix-shaped arrays, next identity
        steps = []
        for _ in range(rng.choice([1, 2, 3, 3, 4, 5, 6])):
            k = rng.choice(["transform", "untransform", "rescale", "rescale", "unscale", "unscale"])
            if k in ("transform", "untransform"):
                st = {"op": k, "copy": rng.random() < 0.5}
                if rng.random() < 0.6:
                    st["new"] = self._rows(rng, n, t)
                    lay = rng.choice(["C", "C", "F", "strided"])
                    if lay != "C":
                        st["layout"] = lay
                    xi = nxt
                    mats.append(nxt)
                    nxt += 1
                else:
                    xi = rng.choice(mats)
                    st["ref"] = xi
                if st["copy"]:
                    mats.append(nxt)
                    nxt += 1
            else:
                st = {"op": k, "inplace": rng.random() < 0.6}
                if not st["inplace"]:
                    mats.append(nxt)
                    nxt += 1
                elif k == "rescale":
                    nxt += 2
            steps.append(st)
        case["steps"] = steps
        return case

    def _scaled(self, rng):
        n = rng.choice([1, 2, 3, 4, 6])
        t = rng.choice([1, 2, 3])
        rows = self._rows(rng, n, t, pool=BASE_STYLES)
        loc = [canon.enc(rng.choice([0, 1, -2, Fraction(1, 2), 10 ** 6, Fraction(-7, 4)])) for _ in range(t)]
        scale = [canon.enc(rng.choice([1, 2, 4, Fraction(1, 2), 3, Fraction(5, 4)])) for _ in range(t)]
        x = self._rows(rng, rng.choice([1, 2, 3]), t, pool=BASE_STYLES)
        return {"kind": "scaled", "ntrait": t, "rows": rows, "loc": loc, "scale": scale, "x": x}

    def generate(self, rng, n, tier):
        out = []
        for _ in range(n):
            r = rng.random()
            if r < 0.04:
                out.append(self._scaled(rng))
            elif r < 0.16:
                out.append(self._scaledh(rng))
            elif r < 0.30:
                out.append(self._state(rng))
            else:
                out.append(self._history(rng, tier))
        return out

    def exhaustive(self, tier):
        """thorough tier: every history of length <= 2 over a fixed alphabet of ~30 valid operations of the
        four copy-on-manipulation methods and reorder, on a fixed 4 x 2 matrix with one NaN"""
        if tier != "thorough":
            return None
        rows = [[1, 7], [2, "nan"], [4, 9], [8, 3]]

        def alphabet(n, fresh):
            ops = [{"op": "select", "idx": [i, j, i]} for i in range(n) for j in range(n) if i != j]
            ops += [{"op": "delete", "idx": [i], "form": "int"} for i in range(n)]
            for how in ("nd", "bv"):
                v = {"as": how, "rows": [[10, "-3/2"]], "taxa": [fresh]}
                ops += [{"op": "insert", "k": k, "kform": "list", "vals": v} for k in range(n + 1)]
                ops.append({"op": "adjoin", "vals": v})
            ops += [{"op": "reorder", "idx": list(range(n))[::-1]}, {"op": "reorder", "idx": list(range(1, n)) + [0]}]
            return ops

        def size_after(n, op):
            return {"select": 3, "delete": n - 1, "insert": n + 1, "adjoin": n + 1, "reorder": n}[op["op"]]

        out = []
        calls = [{"op": "rescale", "inplace": True}, {"op": "rescale", "inplace": False},
                 {"op": "unscale", "inplace": True}, {"op": "unscale", "inplace": False},
                 {"op": "transform", "copy": True, "new": [[3, "nan"], [1, 2], ["-5/2", 4]]},
                 {"op": "transform", "copy": False, "new": [[3, "nan"], [1, 2], ["-5/2", 4]]},
                 {"op": "untransform", "copy": True, "ref": 0}, {"op": "untransform", "copy": False, "ref": 0}]
        seqs = [[a] for a in calls] + [[a, b] for a in calls for b in calls] + \
               [[a, b, c] for a in calls for b in calls for c in calls]
        for k, sq in enumerate(seqs):
            out.append({"kind": "scaledh", "ntrait": 2, "rows": [[1, 5], [3, 5], [8, "nan"]],
                        "form": ["int_array", "array", "int_scalar"][k % 3], "loc": [1, 1], "scale": [2, 2], "steps": sq})
        # one matrix past 1024 taxa (block sizes): small integers, one NaN
        big = [[(i * 37) % 101 - 50] for i in range(1030)]
        big[1027] = ["nan"]
        out.append({"kind": "history", "cls": "BV", "generic": False, "grp": True, "ntrait": 1, "rows": big,
                    "taxa": list(range(1030)), "ops": [{"op": "delete", "obj": {"kind": "slice", "a": 3, "b": 1026, "c": None}},
                                                       {"op": "select", "idx": [6, 0, 5, 5]}]})
        for a in alphabet(4, 4):
            out.append({"kind": "history", "cls": "BV", "generic": False, "ntrait": 2, "rows": rows,
                        "taxa": [0, 1, 2, 3], "ops": [a]})
            for b in alphabet(size_after(4, a), 5):
                out.append({"kind": "history", "cls": "BV", "generic": False, "ntrait": 2, "rows": rows,
                            "taxa": [0, 1, 2, 3], "ops": [a, b]})
        return out

    # ------------------------------------------------------------------ implementation
    def run_impl(self, case):
        if case["kind"] == "scaled":
            return self._run_scaled(case)
        if case["kind"] == "scaledh":
            return self._run_scaledh(case)
        if case["kind"] == "state":
            return self._run_state(case)
        classes = _classes()
        cls = classes[case["cls"]]
        t = case["ntrait"]
        notaxa = bool(case.get("notaxa"))
        raw = _layout(_np_rows(case["rows"], t), case.get("layout"))
        raw0 = raw.copy()
        grp = bool(case.get("grp"))
        b = _build(cls, raw, None if notaxa else _names(case["taxa"]), _grps(case["taxa"]) if grp else None, case.get("via"))
        ax = int(case.get("axis", 0))
        same = bool(_same(raw0, raw))
        raw[...] = 31337.0            # the caller's array is the caller's: overwriting it must not reach the matrix
        steps = [_snap(b)]
        alias = []                    # (step, what) — two-object aliasing observed along the history
        for nm in _stat_results_private(b):
            alias.append((0, "statistic_result_is_internal_state:" + nm))
        watch = []
        def settle(obj):
            # the caller of a copy-on-manipulation method still holds the operand and expects what it held then
            for w in list(watch):
                if obj is None or w[1] is obj:
                    watch.remove(w)
                    if _enc_cols(w[1].unscale()) != w[2]:
                        alias.append((w[0], "result_is_the_operand_and_was_edited_later"))

        for i, op in enumerate(case["ops"]):
            tt = op.get("vals", {}).get("ntrait", t) if isinstance(op.get("vals"), dict) else t
            prev = b
            try:
                b = _apply(cls, b, op, tt, case.get("generic", False), grp, notaxa, ax)
            except _ProbeMismatch as e:
                alias.append((i + 1, "stale_answer_on_one_object"))
            except Exception as e:      # attributed to the operation by the judge
                steps.append({"raised": canon.exc_tag(e), "text": f"{type(e).__name__}: {e}"[:200]})
                break
            steps.append(_snap(b))
            for nm in _stat_results_private(b):
                alias.append((i + 1, "statistic_result_is_internal_state:" + nm))
            if b is prev and op["op"] in ("select", "delete", "insert", "adjoin", "copy", "deepcopy", "concat"):
                # the "new" matrix is the operand itself: whatever is done to it later is done to the operand
                watch.append((i + 1, b, steps[-1]["unscale"]))
            if b is not prev:
                # a copy-on-manipulation result owns its data: the operand still reads as before, and writing
                # into the operand's arrays (or into an array unscale() returned) does not reach the result
                if _enc_cols(prev.unscale()) != steps[-2]["unscale"]:
                    alias.append((i + 1, "operand_changed"))
                settle(prev)
                u = b.unscale()
                u[...] = -271828.0
                prev.mat[...] = 777.0
                prev.location[...] = 55.0
                prev.scale[...] = 3.0
                if _enc_cols(b.unscale()) != steps[-1]["unscale"]:
                    alias.append((i + 1, "shares_arrays_with_operand"))
        settle(None)
        if "raised" not in steps[-1]:
            # the second way out: the table export on the original scale carries the values unscale() returns
            try:
                df = b.to_pandas(unscale=True)
                cols = [c for c in df.columns if c not in ("taxa", "taxa_grp")]
                tab = df[cols].to_numpy(dtype=float).reshape(b.mat.shape)
                if _enc_cols(tab) != steps[-1]["unscale"]:
                    alias.append((len(steps) - 1, "to_pandas_unscale_differs"))
            except Exception as e:
                alias.append((len(steps) - 1, "to_pandas_raised:" + type(e).__name__))
        return {"steps": steps, "input_untouched": same, "alias": alias}

    # ---- kind "state": ONE object, queried after every direct edit (class: prime a statistic, edit in
    # place / re-assign an attribute / call an in-place routine, re-query)
    def _run_state(self, case):
        cls = _classes()[case["cls"]]
        t = case["ntrait"]
        grp = bool(case.get("grp"))
        b = _build(cls, _np_rows(case["rows"], t), _names(case["taxa"]), _grps(case["taxa"]) if grp else None, case.get("via"))
        ax = int(case.get("axis", 0))
        steps = [_snap(b)]

        def probe():
            bad = _stat_results_private(b)
            if bad:
                steps[-1]["stat_alias"] = bad

        probe()
        for e in case["edits"]:
            try:
                k = e["e"]
                if k == "setitem":
                    b.mat[e["i"], e["j"]] = _f(e["v"])
                elif k == "setmat":
                    b.mat = _np_rows(e["rows"], t)
                elif k == "setloc":
                    # the setter takes an array or a Real (repeated for every trait)
                    b.location = _f(e["loc"][0]) if e.get("scalar") else numpy.array([_f(v) for v in e["loc"]], dtype=float)
                elif k == "setscale":
                    b.scale = _f(e["scale"][0]) if e.get("scalar") else numpy.array([_f(v) for v in e["scale"]], dtype=float)
                elif k == "op":
                    r = _apply(cls, b, e, t, case.get("generic", False), grp, False, ax)
                    if e["op"] in ("select", "delete", "insert", "adjoin"):
                        # a copy-on-manipulation request on an object in ANY state: the result replaces the object
                        if r is b:
                            raise RuntimeError("copy-on-manipulation routine returned the object itself")
                        b = r
                    elif r is not b:
                        raise RuntimeError("in-place routine returned another object")
                else:
                    raise ValueError(k)
            except Exception as ex:
                steps.append({"raised": canon.exc_tag(ex), "text": f"{type(ex).__name__}: {ex}"[:200]})
                break
            steps.append(_snap(b))
            probe()
        return {"steps": steps}

    # ---- kind "scaledh": a history of DenseScaledMatrix calls; every array the caller can reach keeps an
    # identity (position in `held`), so that what each call returns and writes is observed, not assumed
    def _run_scaledh(self, case):
        _, _, _, m_sm, _ = _mods()
        SM = m_sm.DenseScaledMatrix
        t = case["ntrait"]
        shape = case.get("shape")

        def arr(rows):
            a = _np_rows(rows, t)
            if shape:
                a = a.reshape(shape[0], shape[1], t)
            return a

        mat0 = _layout(arr(case["rows"]), case.get("layout"))
        form = case.get("form", "array")
        kw = {}
        if form == "array":
            kw = {"location": numpy.array([_f(v) for v in case["loc"]], dtype=float),
                  "scale": numpy.array([_f(v) for v in case["scale"]], dtype=float)}
        elif form == "int_array":
            kw = {"location": numpy.array([int(Fraction(v)) for v in case["loc"]], dtype=int),
                  "scale": numpy.array([int(Fraction(v)) for v in case["scale"]], dtype=int)}
        elif form == "scalar":
            kw = {"location": _f(case["loc"][0]), "scale": _f(case["scale"][0])}
        elif form == "int_scalar":
            kw = {"location": int(Fraction(case["loc"][0])), "scale": int(Fraction(case["scale"][0]))}
        m = SM(mat0, **kw)
        held = [m.mat, m.location, m.scale]
        flags = {"binds_given_arrays": m.mat is mat0 and (form not in ("array", "int_array") or
                                                          (m.location is kw["location"] and m.scale is kw["scale"]))}

        def ident(a):
            for i, h in enumerate(held):
                if h is a:
                    return i
            held.append(a)
            return len(held) - 1

        def enc_arr(a):
            a = numpy.asarray(a, dtype=float)
            if a.ndim == 1:
                return [[canon.enc(v)] for v in a]
            return _enc_cols(a.reshape(-1, a.shape[-1]))

        obs = []
        for st in case["steps"]:
            try:
                k = st["op"]
                if k in ("transform", "untransform"):
                    x = _layout(arr(st["new"]), st.get("layout")) if "new" in st else held[st["ref"]]
                    ident(x)
                    res = getattr(m, k)(x, copy=bool(st["copy"]))
                else:
                    res = getattr(m, k)(inplace=bool(st["inplace"]))
            except Exception as ex:
                obs.append({"raised": canon.exc_tag(ex), "text": f"{type(ex).__name__}: {ex}"[:200]})
                break
            o = {"res": ident(res), "mat": ident(m.mat), "loc": ident(m.location), "scale": ident(m.scale)}
            o["arrs"] = [enc_arr(a) for a in held]
            if _has_inf(o["arrs"]):
                o["arrs"] = _no_inf(o["arrs"])
                o["nonfinite"] = True
            obs.append(o)
        return {"obs": obs, "flags": flags}

    def _run_scaled(self, case):
        _, _, _, m_sm, _ = _mods()
        SM = m_sm.DenseScaledMatrix
        t = case["ntrait"]
        mat = _np_rows(case["rows"], t)
        loc = numpy.array([_f(v) for v in case["loc"]])
        scale = numpy.array([_f(v) for v in case["scale"]])
        x = _np_rows(case["x"], t)
        m = SM(mat.copy(), location=loc.copy(), scale=scale.copy())
        x0 = x.copy()
        tx = m.transform(x, copy=True)
        eqn = lambda a, b: bool(((a == b) | (numpy.isnan(a) & numpy.isnan(b))).all())
        flags = {"copy_untouched": eqn(x, x0)}
        ux = m.untransform(tx, copy=True)
        un0 = m.unscale(inplace=False)
        r0 = m.rescale(inplace=False)
        flags["notinplace_untouched"] = eqn(m.mat, mat) and eqn(m.location, loc) and eqn(m.scale, scale)
        m2 = copy.deepcopy(m)
        r1 = m2.rescale(inplace=True)
        flags["rescale_returns_mat"] = r1 is m2.mat
        resc = {"mat": _enc_cols(m2.mat), "loc": canon.enc(m2.location), "scale": canon.enc(m2.scale)}
        un1 = m2.unscale(inplace=False)
        m3 = copy.deepcopy(m)
        m3.unscale(inplace=True)
        ui = {"mat": _enc_cols(m3.mat), "loc": canon.enc(m3.location), "scale": canon.enc(m3.scale)}
        obs = {"transform": _enc_cols(tx), "untransform": _enc_cols(ux), "unscale": _enc_cols(un0),
               "rescale_out": _enc_cols(r0), "rescale": resc, "unscale_after_rescale": _enc_cols(un1),
               "unscale_inplace": ui, "flags": flags}
        if _has_inf([v for v in obs.values() if isinstance(v, list)]) or \
                any(_has_inf(list(d.values())) for d in (resc, ui)):
            obs = {k: ({kk: _no_inf(vv) for kk, vv in v.items()} if isinstance(v, dict) and k != "flags" else
                       (_no_inf(v) if isinstance(v, list) else v)) for k, v in obs.items()}
            obs["nonfinite"] = True
        return obs

    # ------------------------------------------------------------------ model requests
    def requests(self, case, obs):
        t = case["ntrait"]
        if case["kind"] == "state":
            edits = []
            for i, e in enumerate(case["edits"]):
                if e["e"] == "op" and e["op"] == "sort":
                    st = obs["steps"][i] if i < len(obs["steps"]) and "raised" not in obs["steps"][i] else None
                    edits.append({"e": "op", "op": "reorder",
                                  "idx": _sort_perm(st["taxa"], bool(case.get("grp"))) if st else []})
                elif e["e"] == "setmat":
                    edits.append({"e": "setmat", "cols": _cols(e["rows"], t)})
                elif e["e"] == "op":
                    edits.append(dict(_lean_op(e, t), e="op"))
                else:
                    edits.append(e)
            base = {"cols": _cols(case["rows"], t), "taxa": case["taxa"], "edits": edits}
            keep = ("taxa", "mat", "unscale", "loc", "scale", "targmax", "targmin", "nonfinite", *STATS)
            ob = [{"raised": True} if "raised" in s else _for_driver(s, keep) for s in obs["steps"]]
            return [dict(base, op="c15.state", needs_loc_scale=case["cls"] != "BV", repaired=_repaired()),
                    dict(base, op="c15.spec_state", obs=ob)]
        if case["kind"] == "scaledh":
            steps = []
            for st in case["steps"]:
                d = {k: v for k, v in st.items() if k not in ("new", "layout")}
                if "new" in st:
                    d["new"] = _cols(st["new"], t)
                steps.append(d)
            base = {"arrs0": [_cols(case["rows"], t), [[v] for v in case["loc"]], [[v] for v in case["scale"]]],
                    "steps": steps}
            ob = [{"raised": True} if "raised" in o else {k: o[k] for k in ("res", "mat", "loc", "scale", "arrs")}
                  for o in obs["obs"]]
            return [dict(base, op="c15.scaledh"), dict(base, op="c15.spec_scaledh", obs=ob)]
        if case["kind"] == "scaled":
            base = {"mat": _cols(case["rows"], t), "loc": case["loc"], "scale": case["scale"],
                    "x": _cols(case["x"], t)}
            o = {k: obs[k] for k in ("untransform", "unscale_after_rescale", "rescale", "unscale_inplace")}
            return [dict(base, op="c15.scaled"), dict(base, op="c15.spec_scaled", obs=o)]
        notaxa = bool(case.get("notaxa"))
        lean_ops = []
        for i, op in enumerate(case["ops"]):
            tt = op.get("vals", {}).get("ntrait", t) if isinstance(op.get("vals"), dict) else t
            if op["op"] in ("copy", "deepcopy", "sort", "probe"):
                # no model of their own: a copy is the identity on the content, sort_taxa()/group_taxa() the
                # reordering by numpy.lexsort((taxa, taxa_grp)) of the labels the matrix holds at that point
                st = obs["steps"][i] if i < len(obs["steps"]) and "raised" not in obs["steps"][i] else None
                if st is None:
                    idx = []
                elif op["op"] == "sort":
                    idx = _sort_perm(st["taxa"], bool(case.get("grp")))
                else:
                    idx = list(range(st["n"]))
                lean_ops.append({"op": "reorder", "idx": idx})
            else:
                lean_ops.append(_lean_op(op, tt))
        base = {"cols": _cols(case["rows"], t), "taxa": case["taxa"], "ops": lean_ops}
        keep = ("taxa", "mat", "unscale", "loc", "scale", "targmax", "targmin", "nonfinite", *STATS)
        ob = []
        for s in obs["steps"]:
            if "raised" in s:
                ob.append({"raised": True})
            else:
                d = _for_driver(s, keep)
                if d.get("taxa") is None:
                    d["taxa"] = []
                ob.append(d)
        return [dict(base, op="c15.history", needs_loc_scale=case["cls"] != "BV", repaired=_repaired()),
                dict(base, op="c15.spec", obs=ob, check_taxa=not notaxa)]

    @staticmethod
    def _corr_step(m, s, mag):
        """compare one model snapshot with one implementation snapshot; returns '' or what differs"""
        if s.get("nonfinite"):
            return "non-finite output"
        if s["taxa"] is not None and m["taxa"] != s["taxa"]:
            return f"taxa: model {m['taxa']} vs impl {s['taxa']}"
        if s.get("n", len(m["taxa"])) != len(m["taxa"]):
            return f"taxa axis: model {len(m['taxa'])} rows vs impl {s.get('n')}"
        t = len(m["mat"])
        for key in ("mat", "unscale", "loc", "scale"):
            if len(s[key]) != t:
                return f"{key}: {len(s[key])} traits, model {t}"
        for j in range(t):
            mcol, scol = m["mat"][j], s["mat"][j]
            if not _close_list(m["unscale"][j], s["unscale"][j], mag):
                return f"unscale[{j}]: model {m['unscale'][j]} vs impl {s['unscale'][j]}"
            if not _close(m["loc"][j], s["loc"][j], mag):
                return f"loc[{j}]: model {m['loc'][j]} vs impl {s['loc'][j]}"
            pres = [v for v in s["unscale"][j] if v not in ("nan", None)]
            model_const = m["scale"][j] == 1 and all(v in (0, None) for v in mcol)
            # a trait that is constant in exact arithmetic but whose float values carry rounding noise
            # from earlier steps: the stored values are noise / noise, nothing to compare
            noisy = model_const and len(set(pres)) > 1
            smag = 10 * mag
            if m["scale"][j] not in (None, "nan") and Fraction(m["scale"][j]) > 0:
                smag = 10 * max(mag, mag / float(Fraction(m["scale"][j])))
            if not noisy:
                if not _close(m["scale"][j], s["scale"][j], mag):
                    return f"scale[{j}]: model {m['scale'][j]} vs impl {s['scale'][j]}"
                if not _close_list(mcol, scol, smag):
                    return f"mat[{j}]: model {mcol} vs impl {scol}"
            if "tmax" not in s:
                continue
            for key in STATS:
                if noisy and key in ("tstd", "tvar"):
                    ok = s[key][j] not in ("nan", None) and abs(Fraction(s[key][j])) <= 1e-12 * mag
                else:
                    ok = _close(m[key][j], s[key][j], mag)
                if not ok:
                    return f"{key}[{j}]: model {m[key][j]} vs impl {s[key][j]}"
                if not noisy and not _close(m["s_" + key][j], s["s_" + key][j], smag):
                    return f"s_{key}[{j}]: model {m['s_' + key][j]} vs impl {s['s_' + key][j]}"
            for key in ("targmax", "targmin"):
                a, b = m[key][j], s[key][j]
                # equal, or pointing at values that agree to rounding (float noise breaks ties)
                if a != b and not (isinstance(b, int) and 0 <= b < len(mcol) and _close(m["unscale"][j][a], m["unscale"][j][b], mag)):
                    return f"{key}[{j}]: model {a} vs impl {b}"
        return ""

    # ------------------------------------------------------------------ judge
    def judge(self, case, obs, answers):
        for a in answers:
            if "err" in a:
                raise RuntimeError("driver error: " + a["err"])
        if case["kind"] == "scaled":
            return self._judge_scaled(case, obs, answers)
        if case["kind"] == "state":
            return self._judge_state(case, obs, answers)
        if case["kind"] == "scaledh":
            return self._judge_scaledh(case, obs, answers)
        model, verdicts = answers[0]["ok"], answers[1]["ok"]
        steps = obs["steps"]
        names = ["from_numpy"] + [op["op"] + "_taxa" for op in case["ops"]]
        # ---- correspondence
        corr, why = True, ""
        if len(model) != len(steps):
            corr, why = False, f"model has {len(model)} states, implementation {len(steps)}"
        run_mag = 1.0
        for i, (m, s) in enumerate(zip(model, steps)):
            if not corr:
                break
            if "err" in m or "raised" in s:
                if m.get("err") != s.get("raised"):
                    corr, why = False, f"step {i} ({names[i]}): model {m.get('err', 'ok')} vs impl {s.get('raised', 'ok')}"
                continue
            run_mag = max(run_mag, _mag(m["unscale"]))     # rounding errors persist along a history
            bad = self._corr_step(m, s, run_mag)
            if bad:
                corr, why = False, f"step {i} ({names[i]}) {bad}"
        # ---- Spec on the implementation's outputs
        fails = []        # (step, clause)
        for i, v in enumerate(verdicts):
            for c in v.get("fails", []):
                fails.append((i, c))
        if not obs.get("input_untouched", True):
            fails.append((0, "input_mutated"))
        for i, what in obs.get("alias", []):
            fails.append((i, "alias:" + what))
        # taxa_grp travels with the taxon (group = identity mod 3); absent iff never given
        for i, st in enumerate(steps):
            if "raised" in st or (i, "taxa") in fails:
                continue
            want = [x % 3 for x in st["taxa"]] if case.get("grp") and st["taxa"] is not None else None
            if case.get("grp") and st["taxa"] is None:
                continue
            if st.get("taxa_grp") != want and i < len(verdicts) and not verdicts[i].get("invalid_op"):
                fails.append((i, "taxa"))
        # ---- which failing clauses the known findings D23-D25 account for.  After an inherited in-place
        # routine the location/scale are stale (D24/D25: the clauses about the stored representation and
        # tmean, which returns the location); after append/incorp/concat the raw values themselves are lost
        # (D23/D24: every clause that compares with the true raw values, from then on).  Everything else the
        # as-is code still delivers in those states (theorems `*_any_state`), so any other failing clause is
        # NOT explained — and in those states the statistics are additionally judged against the matrix's
        # own unscale() (`self:` clauses), the only raw values left to compare with.
        stale, lost = [False], [False]
        rep = _repaired()
        for k, op in enumerate(case["ops"]):
            st, lo = stale[-1], lost[-1]
            kind = op["op"]
            if rep:
                pass
            elif kind in ("select", "delete", "insert", "adjoin"):
                st = False
            elif kind == "remove":
                st = True
            elif kind in ("append", "incorp", "concat"):
                st, lo = True, True
            stale.append(st)
            lost.append(lo)
        for i, v in enumerate(verdicts):
            if i < len(stale) and (stale[i] or lost[i]) and not v.get("invalid_op"):
                for c in v.get("self", []):
                    fails.append((i, c))

        def explained(f):
            i, c = f
            if i >= len(stale):
                return False
            if c == "raised":                                 # D23: concat_taxa of the estimated classes
                return (not rep) and case["ops"][i - 1]["op"] == "concat" and case["cls"] != "BV" if i >= 1 else False
            if c.startswith("self:"):
                return stale[i] and c == "self:stat:tmean"
            if c in ("raw", "standardised", "standardised:constant") or c.startswith("stat:"):
                if lost[i]:
                    return True
                return stale[i] and c in ("standardised", "standardised:constant", "stat:tmean")
            return False

        spec = not fails
        sig = None
        if fails:
            order = lambda f: (f[1] in STATELESS, f[0], CLAUSE_ORDER.index(f[1]) if f[1] in CLAUSE_ORDER else
                               (-1 if not f[1].startswith("self:") else 99))
            new = sorted([f for f in fails if not explained(f)], key=order)
            i, c = new[0] if new else sorted(fails, key=order)[0]
            sig = {"site": names[i] if i < len(names) else "?", "cond": c, "step": i}
            if new and any(explained(f) for f in fails):
                sig["beyond_known"] = True
        n, t = len(case["rows"]), case["ntrait"]
        applied = sum(1 for s in steps[1:] if "raised" not in s)
        nonconst = any(len({r[j] for r in case["rows"] if r[j] != "nan"}) > 1 for j in range(t))
        nontriv = n >= 2 and nonconst and (applied >= 1 or not case["ops"])
        detail = f"history[{case['cls']}] ops={[o['op'] for o in case['ops']]}"
        if fails:
            detail += f" SPEC fails {fails[:6]} (site={sig['site']} cond={sig['cond']})"
            if sig.get("beyond_known"):
                detail += (" — not accounted for by the known findings D23-D25: "
                           + str([f for f in fails if not explained(f)][:4]))
            i = sig["step"]
            if i < len(steps):
                s = steps[i]
                detail += " impl: " + str({k: s.get(k) for k in ("raised", "text", "unscale", "loc", "scale", "tstd", "tmean")
                                           if k in s})[:500]
        if not corr:
            detail += " CORR " + why[:600]
        return {"corr": corr, "spec": spec, "detail": detail, "nontrivial": nontriv, "sig": sig}

    def _judge_state(self, case, obs, answers):
        model, verdicts = answers[0]["ok"], answers[1]["ok"]
        steps = obs["steps"]
        names = ["from_numpy"] + [(e["op"] + "_taxa") if e["e"] == "op" else e["e"] for e in case["edits"]]
        corr, why = True, ""
        if len(model) != len(steps):
            corr, why = False, f"model has {len(model)} states, implementation {len(steps)}"
        run_mag = 1.0
        for i, (m, s) in enumerate(zip(model, steps)):
            if not corr:
                break
            if "err" in m or "raised" in s:
                if m.get("err") != s.get("raised"):
                    corr, why = False, f"step {i} ({names[i]}): model {m.get('err', 'ok')} vs impl {s.get('raised', 'ok')}"
                continue
            run_mag = max(run_mag, _mag(m["unscale"]), _mag([m["loc"]]),
                          max([1.0] + [abs(float(Fraction(sc))) * _mag([col]) for sc, col in zip(m["scale"], m["mat"])
                                       if sc not in (None, "nan")]))
            bad = self._corr_step(m, s, run_mag)
            if bad:
                corr, why = False, f"step {i} ({names[i]}) {bad}"
        fails = [(i, c) for i, v in enumerate(verdicts) for c in v.get("fails", [])]
        if len(verdicts) < len(steps) and "raised" in steps[-1] and (len(steps) - 1, "raised") not in fails:
            fails.append((len(steps) - 1, "raised"))
        for i, st in enumerate(steps):
            for nm in st.get("stat_alias", []):
                fails.append((i, "alias:statistic_result_is_internal_state:" + nm))
        sig = None
        if fails:
            i, c = fails[0]
            # never a known finding: the clauses of this kind are the ones the as-is code meets in every state
            sig = {"site": "state:" + (names[i] if i < len(names) else "?"), "cond": "state:" + c, "step": i}
        detail = f"state[{case['cls']}] edits={names[1:]}"
        if fails:
            detail += f" SPEC fails {fails[:6]}"
            i = fails[0][0]
            if i < len(steps):
                detail += " impl: " + str({k: steps[i].get(k) for k in ("raised", "text", "mat", "loc", "scale", "unscale",
                                                                         "tmax", "tstd", "tvar") if k in steps[i]})[:500]
        if not corr:
            detail += " CORR " + why[:600]
        return {"corr": corr, "spec": not fails, "detail": detail,
                "nontrivial": len(case["rows"]) >= 2 and len(steps) >= 2, "sig": sig}

    def _judge_scaledh(self, case, obs, answers):
        model, verdicts = answers[0]["ok"], answers[1]["ok"]
        ob = obs["obs"]
        corr, why = True, ""
        if len(model) != len(ob):
            corr, why = False, f"model has {len(model)} calls, implementation {len(ob)}"
        if not obs["flags"].get("binds_given_arrays", True):
            corr, why = False, "the constructor does not bind the arrays it is given"
        mag = max([1.0, _mag(_cols(case["rows"], case["ntrait"])), _mag([case["loc"]])])
        smax = max([1.0] + [abs(float(Fraction(v))) for v in case["scale"]])
        smin = 1.0
        for i, (m, o) in enumerate(zip(model, ob)):
            if not corr:
                break
            if "raised" in o:
                corr, why = False, f"call {i}: implementation raised {o.get('text')}"
                break
            for k in ("res", "mat", "loc", "scale"):
                if m[k] != o[k]:
                    corr, why = False, (f"call {i} ({case['steps'][i]['op']}): {k} is array #{o[k]}, model #{m[k]} "
                                        "(which array is returned / bound)")
                    break
            if corr and len(m["arrs"]) != len(o["arrs"]):
                corr, why = False, f"call {i}: {len(o['arrs'])} arrays reachable, model {len(m['arrs'])}"
            if not corr:
                break
            # a matrix standardised by a small deviation carries the rounding error of the raw values divided by it
            sc = [abs(Fraction(v[0])) for v in m["arrs"][m["scale"]] if v[0] not in (None, "nan") and Fraction(v[0]) != 0]
            smin = min(smin, float(min(sc))) if sc else smin
            for a in m["arrs"]:          # ... also when the deviation was used for a returned copy only
                for col in a:
                    xs = [float(Fraction(v)) for v in col if v not in (None, "nan")]
                    if len(xs) > 1:
                        mu = sum(xs) / len(xs)
                        sd = math.sqrt(sum((x - mu) ** 2 for x in xs) / len(xs))
                        if sd > 0:
                            smin = min(smin, sd)
            g = 100 * max(mag, _mag([c for a in m["arrs"] for c in a])) * smax / smin
            for a, (x, y) in enumerate(zip(m["arrs"], o["arrs"])):
                if not _close_list(x, y, g):
                    corr, why = False, f"call {i} ({case['steps'][i]['op']}): array #{a}: model {x} vs impl {y}"
                    break
        fails = [(i, c) for i, v in enumerate(verdicts) for c in v.get("fails", [])]
        for i, o in enumerate(ob):
            if o.get("nonfinite"):
                fails.append((i, "nonfinite"))
        sig = None
        if fails:
            i, c = fails[0]
            sig = {"site": "DenseScaledMatrix." + case["steps"][i]["op"], "cond": c, "step": i}
        detail = (f"scaledh form={case.get('form')} steps="
                  f"{[(st['op'], st.get('copy', st.get('inplace'))) for st in case['steps']]} fails={fails[:6]}")
        if fails and fails[0][0] < len(ob):
            o = ob[fails[0][0]]
            if "arrs" in o:
                detail += " impl: " + str({"mat": o["arrs"][o["mat"]], "loc": o["arrs"][o["loc"]],
                                           "scale": o["arrs"][o["scale"]], "res": o["arrs"][o["res"]]})[:500]
            else:
                detail += " impl: " + str(o)[:300]
        if not corr:
            detail += " CORR " + why[:500]
        return {"corr": corr, "spec": not fails, "detail": detail, "nontrivial": len(case["rows"]) >= 2, "sig": sig}

    def _judge_scaled(self, case, obs, answers):
        m, s = answers[0]["ok"], answers[1]["ok"]
        mag = max(_mag(m["unscale"]), _mag(_cols(case["x"], case["ntrait"])))
        smag = 10 * mag * max([1.0] + [1 / float(Fraction(v)) for v in case["scale"]])
        corr, why = True, ""
        pairs = [("transform", m["transform"], obs["transform"], smag),
                 ("untransform", m["untransform"], obs["untransform"], mag),
                 ("unscale", m["unscale"], obs["unscale"], mag),
                 ("rescale_out", m["rescale"]["mat"], obs["rescale_out"], smag),
                 ("rescale.mat", m["rescale"]["mat"], obs["rescale"]["mat"], smag),
                 ("rescale.loc", m["rescale"]["loc"], obs["rescale"]["loc"], mag),
                 ("rescale.scale", m["rescale"]["scale"], obs["rescale"]["scale"], mag),
                 ("unscale_inplace.mat", m["unscale_inplace"]["mat"], obs["unscale_inplace"]["mat"], mag),
                 ("unscale_inplace.loc", m["unscale_inplace"]["loc"], obs["unscale_inplace"]["loc"], 1),
                 ("unscale_inplace.scale", m["unscale_inplace"]["scale"], obs["unscale_inplace"]["scale"], 1)]
        for name, a, b, g in pairs:
            if not _close_list(a, b, g):
                corr, why = False, f"{name}: model {a} vs impl {b}"
                break
        fails = list(s["fails"])
        for k, v in obs["flags"].items():
            if not v:
                fails.append("flag:" + k)
        if obs.get("nonfinite"):
            fails.append("nonfinite")
        sig = {"site": "DenseScaledMatrix", "cond": fails[0]} if fails else None
        nontriv = len(case["rows"]) >= 2
        detail = f"scaled fails={fails}" + ("" if corr else " CORR " + why[:500])
        return {"corr": corr, "spec": not fails, "detail": detail, "nontrivial": nontriv, "sig": sig}

    def signature(self, case, obs, verdict):
        sig = {"kind": case["kind"], "cls": case.get("cls")}
        if verdict.get("sig"):
            sig.update({k: v for k, v in verdict["sig"].items() if k != "step"})
        elif isinstance(obs, dict) and "__exception__" in obs:
            sig.update({"site": "harness", "cond": "raised"})
        return sig

    # ------------------------------------------------------------------ shrinking
    def shrink(self, case):
        """smaller variants; when the case fails beyond the known findings only variants that still do are
        offered (the core keeps a variant as soon as its Spec is false, which a known finding also achieves)"""
        cands = list(self._shrink_candidates(case))
        if not cands:
            return
        try:
            from .. import core, findings
            known = findings.load(self.PID)
            v0 = core.evaluate(self, [case])[0]
            if v0["spec"] or findings.match(known, self.signature(case, v0["obs"], v0)) is not None:
                yield from cands
                return
            for c, v in zip(cands, core.evaluate(self, cands)):
                if not v["spec"] and findings.match(known, self.signature(c, v["obs"], v)) is None:
                    yield c
        except Exception:
            return

    def _shrink_candidates(self, case):
        if case["kind"] == "state":
            for i in range(len(case["edits"]) - 1, 0, -1):
                yield dict(case, edits=case["edits"][:i])
            return
        if case["kind"] == "scaledh":
            for i in range(len(case["steps"]) - 1, 0, -1):
                yield dict(case, steps=case["steps"][:i])
            return
        if case["kind"] != "history":
            return
        ops = case["ops"]
        for i in range(len(ops) - 1, -1, -1):          # drop trailing operations first
            c = dict(case)
            c["ops"] = ops[:i]
            yield c
        t = case["ntrait"]
        for j in range(t):                             # drop a trait everywhere
            if t > 1:
                c = copy.deepcopy(case)
                c["ntrait"] = t - 1
                c["rows"] = [r[:j] + r[j + 1:] for r in c["rows"]]
                for op in c["ops"]:
                    for v in ([op["vals"]] if "vals" in op else []) + op.get("others", []):
                        v["rows"] = [r[:j] + r[j + 1:] for r in v["rows"]]
                        if "ntrait" in v:
                            v["ntrait"] -= 1
                yield c
        if not ops:                                    # drop a taxon of a bare matrix
            for i in range(len(case["rows"])):
                if len(case["rows"]) > 1:
                    c = dict(case)
                    c["rows"] = case["rows"][:i] + case["rows"][i + 1:]
                    c["taxa"] = case["taxa"][:i] + case["taxa"][i + 1:]
                    yield c
        if case.get("cls") != "BV":
            yield dict(case, cls="BV")
        if case.get("generic"):
            yield dict(case, generic=False)
        if case.get("layout"):
            yield {k: v for k, v in case.items() if k != "layout"}

    # ------------------------------------------------------------------ self-test mutants
    def mutants(self):
        m_bv, m_ebv, m_gebv, m_sm, m_tm = _mods()
        BV = m_bv.DenseBreedingValueMatrix
        SM = m_sm.DenseScaledMatrix

        @contextlib.contextmanager
        def patch(obj, name, new):
            old = obj.__dict__[name]
            setattr(obj, name, new)
            try:
                yield
            finally:
                setattr(obj, name, old)

        def const_guard(mat, location, scale, same=None):
            # the `const` guard of the fix of D26, as in the tree under test (mutants of OTHER mechanisms keep it, so
            # that they are not killed by the D26 regression cases alone)
            if mat.size > 0:
                m2 = mat.reshape(-1, mat.shape[-1])
                lo = numpy.fmin.reduce(m2, axis=0)
                hi = numpy.fmax.reduce(m2, axis=0)
                const = (lo == hi) if same is None else same(m2, lo, hi)
                location[const] = lo[const]
                scale[const] = 1.0

        def from_numpy_factory(guard=True, center="nanmean", recip=True, cguard=True, same=None):
            def from_numpy(cls, mat, taxa=None, taxa_grp=None, trait=None, **kwargs):
                location = getattr(numpy, center)(mat, axis=0)
                scale = numpy.nanstd(mat, axis=0)
                if guard:
                    scale[scale == 0.0] = 1.0
                if cguard:
                    const_guard(mat, location, scale, same)
                mat = (1.0 / scale[None, :]) * (mat - location[None, :])
                return cls(mat=mat, location=location, scale=scale, taxa=taxa, taxa_grp=taxa_grp, trait=trait,
                           **kwargs)
            return classmethod(from_numpy)

        def from_numpy_one_pass(cls, mat, taxa=None, taxa_grp=None, trait=None, **kwargs):
            location = numpy.nanmean(mat, axis=0)
            scale = numpy.sqrt(numpy.nanmean(mat * mat, axis=0) - location * location)
            scale[scale == 0.0] = 1.0
            const_guard(mat, location, scale)
            mat = (1.0 / scale[None, :]) * (mat - location[None, :])
            return cls(mat=mat, location=location, scale=scale, taxa=taxa, taxa_grp=taxa_grp, trait=trait, **kwargs)

        def unscale_memoised(self):
            # cached once per object; the inherited in-place routines assign self._mat directly and
            # never drop the cache
            if self.__dict__.get("_unscaled") is None:
                self.__dict__["_unscaled"] = (self._scale * self._mat) + self._location
            return self.__dict__["_unscaled"]

        def tstd_shortcut(self, unscale=False):
            if unscale:
                return numpy.where((self._mat != 0.0).any(axis=self.taxa_axis), self._scale, 0.0)
            return self._mat.std(axis=self.taxa_axis)

        def unscale_wrong(self):
            return self._scale * (self._mat + self._location)

        def select_no_unscale(self, indices, **kwargs):
            mat = numpy.take(self.mat, indices, axis=self.taxa_axis)
            taxa = None if self.taxa is None else numpy.take(self.taxa, indices, axis=0)
            return self.__class__.from_numpy(mat=mat, taxa=taxa, trait=self.trait, **kwargs)

        def select_group_sorted(self, indices, **kwargs):
            mat = numpy.take(self.unscale(), indices, axis=self.taxa_axis)
            taxa = None if self.taxa is None else numpy.take(self.taxa, indices, axis=0)
            grp = None if self.taxa_grp is None else numpy.sort(numpy.take(self.taxa_grp, indices, axis=0))
            return self.__class__.from_numpy(mat=mat, taxa=taxa, taxa_grp=grp, trait=self.trait, **kwargs)

        def select_abs_indices(self, indices, **kwargs):
            ix = numpy.abs(numpy.asarray(indices, dtype=int))     # negative positions not wrapped
            mat = numpy.take(self.unscale(), ix, axis=self.taxa_axis)
            taxa = None if self.taxa is None else numpy.take(self.taxa, ix, axis=0)
            grp = None if self.taxa_grp is None else numpy.take(self.taxa_grp, ix, axis=0)
            return self.__class__.from_numpy(mat=mat, taxa=taxa, taxa_grp=grp, trait=self.trait, **kwargs)

        orig_insert = BV.__dict__["insert_taxa"]

        def insert_values_reversed(self, obj, values, taxa=None, taxa_grp=None, **kwargs):
            # several positions: the data rows go in reversed, the labels do not
            if isinstance(obj, list) and len(obj) > 1 and isinstance(values, numpy.ndarray) and values.shape[0] > 1:
                values = values[::-1]
            return orig_insert(self, obj, values, taxa=taxa, taxa_grp=taxa_grp, **kwargs)

        def delete_off_by_one(self, obj, **kwargs):
            mat = self.unscale()
            taxa = self.taxa
            keep = numpy.delete(numpy.arange(mat.shape[0]), obj)
            mat = mat[numpy.roll(keep, 1)]              # data rows rotated against their labels
            taxa = None if taxa is None else numpy.delete(taxa, obj, axis=0)
            return self.__class__.from_numpy(mat=mat, taxa=taxa, trait=self.trait, **kwargs)

        def adjoin_scaled_values(self, values, taxa=None, taxa_grp=None, **kwargs):
            if isinstance(values, self.__class__):
                taxa = values.taxa if taxa is None else taxa
                values = values.mat                      # forgot values.unscale()
            if values.ndim != self.mat_ndim or values.shape[1] != self.mat_shape[1]:
                raise ValueError("cannot adjoin")
            values = numpy.append(self.unscale(), values, axis=0)
            taxa = numpy.append(self.taxa, taxa, axis=0)
            return self.__class__.from_numpy(mat=values, taxa=taxa, trait=self.trait, **kwargs)

        def tmin_no_location(self, unscale=False):
            out = self._mat.min(axis=self.taxa_axis)
            if unscale:
                out *= self._scale
            return out

        def tmax_of_abs(self, unscale=False):
            out = numpy.abs(self._mat).max(axis=self.taxa_axis)
            if unscale:
                out *= self._scale
                out += self._location
            return out

        def trange_unscaled_plus_location(self, unscale=False):
            out = numpy.ptp(self._mat, axis=self.taxa_axis)
            if unscale:
                out *= self._scale
                out += self._location
            return out

        def tmean_stored(self, unscale=False):
            return self._mat.mean(axis=self.taxa_axis)

        def tvar_is_scale(self, unscale=False):
            return self._scale if unscale else self._mat.var(axis=self.taxa_axis)

        def tstd_prerepair(self, unscale=False):       # D9 as it was before 94b833ce
            return self._scale if unscale else self._mat.std(axis=self.taxa_axis)

        def tvar_prerepair(self, unscale=False):
            return self._scale ** 2 if unscale else self._mat.var(axis=self.taxa_axis)

        def targmax_last(self):
            m = self._mat
            return m.shape[0] - 1 - m[::-1].argmax(axis=self.taxa_axis)

        def targmin_is_argmax(self):
            return self._mat.argmax(axis=self.taxa_axis)

        def untransform_wrong_order(self, mat, copy=False):
            out = mat.copy() if copy else mat
            out += self.location
            out *= self.scale
            return out

        def rescale_keeps_location(self, inplace=True):
            out = self.mat if inplace else self.mat.copy()
            out *= self.scale
            out += self.location
            axes = tuple(range(out.ndim - 1))
            new_location = numpy.nanmean(out, axis=axes)
            new_scale = numpy.nanstd(out, axis=axes)
            new_scale[new_scale == 0.0] = 1.0
            const_guard(out, new_location, new_scale)
            out -= new_location
            out *= (1.0 / new_scale)
            if inplace:
                self.scale = new_scale                 # location not updated
            return out

        def unscale_inplace_keeps_scale(self, inplace=True):
            out = self.mat if inplace else self.mat.copy()
            out *= self.scale
            out += self.location
            if inplace:
                self.location[:] = 0.0                 # scale not reset
            return out

        def transform_no_center(self, mat, copy=False):
            out = mat.copy() if copy else mat
            out *= (1.0 / self.scale)
            return out

        # -- round 3: histories on one object, aliasing, magnitudes, argument forms
        def tvar_mean_square(self, unscale=False):
            # "stored columns are centred": true only straight out of from_numpy
            if unscale:
                return self._scale ** 2 * numpy.nanmean(self._mat * self._mat, axis=self.taxa_axis)
            return self._mat.var(axis=self.taxa_axis)

        def tstd_root_mean_square(self, unscale=False):
            if unscale:
                return self._scale * numpy.sqrt(numpy.nanmean(self._mat * self._mat, axis=self.taxa_axis))
            return self._mat.std(axis=self.taxa_axis)

        def tmax_cached(self, unscale=False):
            key = "_tmax_%d" % bool(unscale)
            if key not in self.__dict__:
                out = self._mat.max(axis=self.taxa_axis)
                if unscale:
                    out = out * self._scale + self._location
                self.__dict__[key] = out
            return self.__dict__[key].copy()

        def trange_from_cached_extrema(self, unscale=False):
            # extrema remembered from the first call; element writes and in-place routines do not refresh them
            if "_ext" not in self.__dict__:
                self.__dict__["_ext"] = (self._mat.max(axis=self.taxa_axis), self._mat.min(axis=self.taxa_axis))
            hi, lo = self.__dict__["_ext"]
            out = hi - lo
            return out * self._scale if unscale else out

        def targmax_of_unscaled_first_state(self):
            if "_amax" not in self.__dict__:
                self.__dict__["_amax"] = self._mat.argmax(axis=self.taxa_axis)
            return self.__dict__["_amax"]

        def from_numpy_in_place(cls, mat, taxa=None, taxa_grp=None, trait=None, **kwargs):
            location = numpy.nanmean(mat, axis=0)
            scale = numpy.nanstd(mat, axis=0)
            scale[scale == 0.0] = 1.0
            const_guard(mat, location, scale)
            mat -= location[None, :]                      # works in the caller's array and keeps it
            mat *= (1.0 / scale[None, :])
            return cls(mat=mat, location=location, scale=scale, taxa=taxa, taxa_grp=taxa_grp, trait=trait, **kwargs)

        def from_numpy_isclose_guard(cls, mat, taxa=None, taxa_grp=None, trait=None, **kwargs):
            location = numpy.nanmean(mat, axis=0)
            scale = numpy.nanstd(mat, axis=0)
            scale[numpy.isclose(scale, 0.0)] = 1.0        # absolute tolerance 1e-8: small spreads count as constant
            const_guard(mat, location, scale)
            mat = (1.0 / scale[None, :]) * (mat - location[None, :])
            return cls(mat=mat, location=location, scale=scale, taxa=taxa, taxa_grp=taxa_grp, trait=trait, **kwargs)

        def from_numpy_relative_guard(cls, mat, taxa=None, taxa_grp=None, trait=None, **kwargs):
            location = numpy.nanmean(mat, axis=0)
            scale = numpy.nanstd(mat, axis=0)
            scale[scale <= 1e-6 * numpy.abs(location)] = 1.0     # "constant relative to its level"
            const_guard(mat, location, scale)
            mat = (1.0 / scale[None, :]) * (mat - location[None, :])
            return cls(mat=mat, location=location, scale=scale, taxa=taxa, taxa_grp=taxa_grp, trait=trait, **kwargs)

        def from_numpy_memory_order(cls, mat, taxa=None, taxa_grp=None, trait=None, **kwargs):
            flat = mat.ravel(order="K").reshape(mat.shape)       # memory order taken for row-major order
            location = numpy.nanmean(flat, axis=0)
            scale = numpy.nanstd(flat, axis=0)
            scale[scale == 0.0] = 1.0
            const_guard(flat, location, scale)
            out = (1.0 / scale[None, :]) * (flat - location[None, :])
            return cls(mat=out, location=location, scale=scale, taxa=taxa, taxa_grp=taxa_grp, trait=trait, **kwargs)

        orig_select = BV.__dict__["select_taxa"]

        def select_identity_returns_self(self, indices, **kwargs):
            ix = numpy.asarray(indices)
            if ix.ndim == 1 and ix.shape[0] == self.ntaxa and (ix == numpy.arange(self.ntaxa)).all():
                return self                                     # "nothing to do"
            return orig_select(self, indices, **kwargs)

        orig_delete = BV.__dict__["delete_taxa"]

        def delete_nothing_shares_arrays(self, obj, **kwargs):
            if isinstance(obj, (list, numpy.ndarray)) and len(obj) == 0:
                return self.__class__(mat=self._mat, location=self._location, scale=self._scale, taxa=self._taxa,
                                      taxa_grp=self._taxa_grp, trait=self._trait)
            return orig_delete(self, obj, **kwargs)

        orig_adjoin = BV.__dict__["adjoin_taxa"]

        def adjoin_exact_class_only(self, values, taxa=None, taxa_grp=None, **kwargs):
            if not isinstance(values, numpy.ndarray) and type(values) is not type(self):
                raise ValueError("cannot adjoin: 'values' must be of type {0} or numpy.ndarray".format(self.__class__))
            return orig_adjoin(self, values, taxa=taxa, taxa_grp=taxa_grp, **kwargs)

        def bv_copy_shares_matrix(self):
            out = self.__class__(mat=self.mat, location=self.location, scale=self.scale, taxa=copy.copy(self.taxa),
                                 taxa_grp=copy.copy(self.taxa_grp), trait=copy.copy(self.trait))
            return out

        orig_reorder = m_tm.DenseTaxaMatrix.__dict__["reorder_taxa"]

        def reorder_labels_only_when_grouped(self, indices, **kwargs):
            if self._taxa_grp is not None and self._taxa is not None:
                self._taxa = self._taxa[indices]
                self._taxa_grp = self._taxa_grp[indices]
                return
            return orig_reorder(self, indices, **kwargs)

        def rescale_writes_into_parameter_arrays(self, inplace=True):
            out = self.mat if inplace else self.mat.copy()
            out *= self.scale
            out += self.location
            axes = tuple(range(out.ndim - 1))
            new_location = numpy.nanmean(out, axis=axes)
            new_scale = numpy.nanstd(out, axis=axes)
            new_scale[new_scale == 0.0] = 1.0
            const_guard(out, new_location, new_scale)
            out -= new_location
            out *= (1.0 / new_scale)
            if inplace:
                self.location[:] = new_location           # integer parameter arrays truncate
                self.scale[:] = new_scale
            return out

        def rescale_copy_forgotten(self, inplace=True):
            out = self.mat                                 # inplace=False works on the object's matrix as well
            out *= self.scale
            out += self.location
            axes = tuple(range(out.ndim - 1))
            new_location = numpy.nanmean(out, axis=axes)
            new_scale = numpy.nanstd(out, axis=axes)
            new_scale[new_scale == 0.0] = 1.0
            const_guard(out, new_location, new_scale)
            out -= new_location
            out *= (1.0 / new_scale)
            self.location = new_location
            self.scale = new_scale
            return out if inplace else out.copy()

        def rescale_first_two_axes_only(self, inplace=True):
            out = self.mat if inplace else self.mat.copy()
            out *= self.scale
            out += self.location
            new_location = numpy.nanmean(out, axis=0)
            new_scale = numpy.nanstd(out, axis=0)
            while new_location.ndim > 1:                   # more than two axes: only the leading one was reduced
                new_location = new_location[0]
                new_scale = new_scale[0]
            new_scale[new_scale == 0.0] = 1.0
            const_guard(out, new_location, new_scale)
            out -= new_location
            out *= (1.0 / new_scale)
            if inplace:
                self.location = new_location
                self.scale = new_scale
            return out

        def transform_copy_flag_ignored(self, mat, copy=False):
            out = mat
            out -= self.location
            out *= (1.0 / self.scale)
            return out

        def untransform_into_view(self, mat, copy=False):
            out = numpy.ascontiguousarray(mat) if not copy else mat.copy()   # a strided argument is silently copied
            out *= self.scale
            out += self.location
            return out

        def unscale_not_inplace_resets_parameters(self, inplace=True):
            out = self.mat if inplace else self.mat.copy()
            out *= self.scale
            out += self.location
            self.scale[:] = 1.0                            # also when a copy was asked for
            self.location[:] = 0.0
            return out

        def transform_integer_reciprocal(self, mat, copy=False):
            out = mat.copy() if copy else mat
            out -= self.location
            out *= (1 // self.scale) if self.scale.dtype.kind == "i" else (1.0 / self.scale)
            return out

        # -- round 4: the fix of D26 and the mechanisms around it
        def rescale_prerepair(self, inplace=True):          # D26 as it was: no `const` guard in the second copy
            out = self.mat if inplace else self.mat.copy()
            out *= self.scale
            out += self.location
            axes = tuple(range(out.ndim - 1))
            new_location = numpy.nanmean(out, axis=axes)
            new_scale = numpy.nanstd(out, axis=axes)
            new_scale[new_scale == 0.0] = 1.0
            out -= new_location
            out *= (1.0 / new_scale)
            if inplace:
                self.location = new_location
                self.scale = new_scale
            return out

        def rescale_guard_leading_axis_only(self, inplace=True):
            out = self.mat if inplace else self.mat.copy()
            out *= self.scale
            out += self.location
            axes = tuple(range(out.ndim - 1))
            new_location = numpy.nanmean(out, axis=axes)
            new_scale = numpy.nanstd(out, axis=axes)
            new_scale[new_scale == 0.0] = 1.0
            if out.size > 0:                                # constancy judged on the first slice of a 3-axis matrix
                first = out[0] if out.ndim > 2 else out
                lo = numpy.fmin.reduce(first.reshape(-1, out.shape[-1]), axis=0)
                hi = numpy.fmax.reduce(first.reshape(-1, out.shape[-1]), axis=0)
                const = (lo == hi)
                new_location[const] = lo[const]
                new_scale[const] = 1.0
            out -= new_location
            out *= (1.0 / new_scale)
            if inplace:
                self.location = new_location
                self.scale = new_scale
            return out

        same_isclose = lambda m2, lo, hi: numpy.isclose(lo, hi)                   # spreads below 1e-8 / 1e-5 relative
        same_ends = lambda m2, lo, hi: m2[0] == m2[-1]                            # first taxon == last taxon
        same_nanprop = lambda m2, lo, hi: m2.min(axis=0) == m2.max(axis=0)        # NaN-propagating extrema: never
                                                                                  # constant when a value is missing
        same_rounded = lambda m2, lo, hi: numpy.round(lo, 6) == numpy.round(hi, 6)

        def unscale_skips_unit_scale(self):
            # "nothing to do for a trait stored with scale 1" — forgets the location
            out = self._mat.copy()
            sel = self._scale != 1.0
            out[:, sel] = self._scale[sel] * self._mat[:, sel] + self._location[sel]
            return out

        def tmean_of_unscaled_zero_filled(self, unscale=False):
            if unscale:
                return numpy.nan_to_num(self.unscale()).mean(axis=self.taxa_axis)   # missing values count as 0
            return self._mat.mean(axis=self.taxa_axis)

        def trange_nan_ignoring_on_stored_only(self, unscale=False):
            out = numpy.nanmax(self._mat, axis=self.taxa_axis) - numpy.nanmin(self._mat, axis=self.taxa_axis)
            return out * numpy.abs(self._location) if unscale else out             # scaled by the wrong parameter

        # -- round 4: second factory, axis-generic entry points, requests on an object in any state, Real setters
        import pybrops.core.mat.DenseTaxaTraitMatrix as m_ttm
        TTM = m_ttm.DenseTaxaTraitMatrix
        orig_from_pandas = BV.__dict__["from_pandas"].__func__

        def from_pandas_as_scaled(cls, df, location=0.0, scale=1.0, **kwargs):
            # the table taken as ALREADY standardised values under the given location / scale (defaults 0 / 1)
            out = orig_from_pandas(cls, df, **kwargs)
            raw = out.unscale()
            t = raw.shape[1]
            out._mat = raw
            out._location = numpy.repeat(float(location), t)
            out._scale = numpy.repeat(float(scale), t)
            return out

        def from_pandas_dropna(cls, df, **kwargs):
            return orig_from_pandas(cls, df.dropna().reset_index(drop=True), **kwargs)

        def select_negative_axis_to_trait(self, indices, axis=-1, **kwargs):
            if axis == self.taxa_axis:                      # compared before normalisation: -2 is not 0
                return self.select_taxa(indices, **kwargs)
            return self.select_trait(indices, **kwargs)

        orig_generic_delete = TTM.__dict__["delete"]

        def delete_negative_axis_flipped(self, obj, axis=-1, **kwargs):
            if isinstance(axis, int) and axis < 0 and isinstance(obj, (list, numpy.ndarray)) and not isinstance(obj, slice):
                o = numpy.asarray(obj)
                if o.dtype != bool and o.size > 0:
                    obj = (-1 - o).tolist()                  # "from the end" applied to the positions as well
            return orig_generic_delete(self, obj, axis=axis, **kwargs)

        def adjoin_pooled_location(self, values, taxa=None, taxa_grp=None, **kwargs):
            # new location from the stored one (n1 * location + sum of the new values) / (n1 + n2): right only while the
            # stored location IS the mean of what the matrix holds
            out = orig_adjoin(self, values, taxa=taxa, taxa_grp=taxa_grp, **kwargs)
            new = values.unscale() if not isinstance(values, numpy.ndarray) else values
            n1 = (~numpy.isnan(self._mat)).sum(axis=0)
            n2 = (~numpy.isnan(new)).sum(axis=0)
            ok = (n1 + n2) > 0
            loc = out._location.copy()
            loc[ok] = (n1[ok] * numpy.nan_to_num(self._location[ok]) + numpy.nansum(new, axis=0)[ok]) / (n1 + n2)[ok]
            raw = out.unscale()
            out._location = loc
            out._mat = (1.0 / out._scale[None, :]) * (raw - loc[None, :])
            return out

        def insert_in_operand_dtype(self, obj, values, taxa=None, taxa_grp=None, **kwargs):
            # the combined raw matrix is built in the dtype of the incoming block
            if isinstance(values, numpy.ndarray) and values.dtype != numpy.float64:
                class _Cast(type(self)):
                    def unscale(me):
                        return type(self).unscale(me).astype(values.dtype)
                me = copy.copy(self)
                me.__class__ = _Cast
                try:
                    out = orig_insert(me, obj, values, taxa=taxa, taxa_grp=taxa_grp, **kwargs)
                finally:
                    me.__class__ = type(self)
                out.__class__ = type(self)
                return out
            return orig_insert(self, obj, values, taxa=taxa, taxa_grp=taxa_grp, **kwargs)

        def scale_setter_per_taxon(self, value):
            if isinstance(value, numpy.ndarray):
                self._scale = value
            else:
                self._scale = numpy.repeat(value, self.ntaxa)      # a Real repeated along the wrong axis

        def location_setter_int_array(self, value):
            if isinstance(value, numpy.ndarray):
                self._location = value
            else:
                self._location = numpy.repeat(int(value), self.ntrait)   # a Real truncated to an integer

        orig_to_pandas = BV.__dict__["to_pandas"]

        def to_pandas_forgets_location(self, *args, **kwargs):
            un = kwargs.pop("unscale", False)
            df = orig_to_pandas(self, *args, unscale=False, **kwargs)
            if un:
                cols = [c for c in df.columns if c not in ("taxa", "taxa_grp")]
                for j, c in enumerate(cols):
                    df[c] = df[c] * self._scale[j]
            return df

        # -- round 5: a MOMENT on the original scale recomputed from the stored column with numpy's NaN-propagating
        # reduction (the shape tmax / tmin have): right to rounding error for complete data, NaN for the whole trait as
        # soon as one taxon has no record
        def tmean_recomputed_nan_propagating(self, unscale=False):
            out = self._mat.mean(axis=self.taxa_axis)
            if unscale:
                out *= self._scale
                out += self._location
            return out

        def tstd_recomputed_nan_propagating(self, unscale=False):
            out = self._mat.std(axis=self.taxa_axis)
            return self._scale * out if unscale else out

        def tvar_recomputed_nan_propagating(self, unscale=False):
            out = self._mat.var(axis=self.taxa_axis)
            return self._scale ** 2 * out if unscale else out

        return [
            # round 5: moments of a trait with a missing value
            ("tmean_recomputed_from_stored_column_nan_propagating", lambda: patch(BV, "tmean", tmean_recomputed_nan_propagating)),
            ("tstd_recomputed_from_stored_column_nan_propagating", lambda: patch(BV, "tstd", tstd_recomputed_nan_propagating)),
            ("tvar_recomputed_from_stored_column_nan_propagating", lambda: patch(BV, "tvar", tvar_recomputed_nan_propagating)),
            # round 4: D26 (fixed) in both copies of the mechanism, and near-miss versions of the guard
            ("from_numpy_without_constant_guard_D26", lambda: patch(BV, "from_numpy", from_numpy_factory(cguard=False))),
            ("rescale_without_constant_guard_D26", lambda: patch(SM, "rescale", rescale_prerepair)),
            ("rescale_constant_guard_first_slice_only", lambda: patch(SM, "rescale", rescale_guard_leading_axis_only)),
            ("from_numpy_constant_guard_isclose", lambda: patch(BV, "from_numpy", from_numpy_factory(same=same_isclose))),
            ("from_numpy_constant_guard_first_equals_last", lambda: patch(BV, "from_numpy", from_numpy_factory(same=same_ends))),
            ("from_numpy_constant_guard_nan_propagating", lambda: patch(BV, "from_numpy", from_numpy_factory(same=same_nanprop))),
            ("from_numpy_constant_guard_rounded_6_digits", lambda: patch(BV, "from_numpy", from_numpy_factory(same=same_rounded))),
            ("unscale_skips_traits_with_unit_scale", lambda: patch(BV, "unscale", unscale_skips_unit_scale)),
            ("tmean_unscaled_missing_as_zero", lambda: patch(BV, "tmean", tmean_of_unscaled_zero_filled)),
            ("trange_scaled_by_location", lambda: patch(BV, "trange", trange_nan_ignoring_on_stored_only)),
            ("from_pandas_table_taken_as_standardised", lambda: patch(BV, "from_pandas", classmethod(from_pandas_as_scaled))),
            ("from_pandas_drops_taxa_with_missing_values", lambda: patch(BV, "from_pandas", classmethod(from_pandas_dropna))),
            ("generic_select_negative_axis_goes_to_traits", lambda: patch(TTM, "select", select_negative_axis_to_trait)),
            ("generic_delete_negative_axis_flips_positions", lambda: patch(TTM, "delete", delete_negative_axis_flipped)),
            ("adjoin_taxa_pooled_location_from_stored_location", lambda: patch(BV, "adjoin_taxa", adjoin_pooled_location)),
            ("insert_taxa_combined_matrix_in_operand_dtype", lambda: patch(BV, "insert_taxa", insert_in_operand_dtype)),
            ("scale_setter_real_repeated_per_taxon", lambda: patch(BV, "scale", property(BV.__dict__["scale"].fget,
                                                                                          scale_setter_per_taxon))),
            ("location_setter_real_truncated", lambda: patch(BV, "location", property(BV.__dict__["location"].fget,
                                                                                       location_setter_int_array))),
            # round 3
            ("to_pandas_unscale_without_location", lambda: patch(BV, "to_pandas", to_pandas_forgets_location)),
            ("tvar_mean_square_assumes_centred_columns", lambda: patch(BV, "tvar", tvar_mean_square)),
            ("tstd_root_mean_square_assumes_centred_columns", lambda: patch(BV, "tstd", tstd_root_mean_square)),
            ("tmax_cached_on_the_object", lambda: patch(BV, "tmax", tmax_cached)),
            ("trange_from_extrema_of_first_call", lambda: patch(BV, "trange", trange_from_cached_extrema)),
            ("targmax_remembered", lambda: patch(BV, "targmax", targmax_of_unscaled_first_state)),
            ("from_numpy_works_in_callers_array", lambda: patch(BV, "from_numpy", classmethod(from_numpy_in_place))),
            ("from_numpy_isclose_scale_guard", lambda: patch(BV, "from_numpy", classmethod(from_numpy_isclose_guard))),
            ("from_numpy_relative_scale_guard", lambda: patch(BV, "from_numpy", classmethod(from_numpy_relative_guard))),
            ("from_numpy_memory_order_as_row_major", lambda: patch(BV, "from_numpy", classmethod(from_numpy_memory_order))),
            ("select_taxa_identity_returns_self", lambda: patch(BV, "select_taxa", select_identity_returns_self)),
            ("delete_taxa_nothing_shares_arrays", lambda: patch(BV, "delete_taxa", delete_nothing_shares_arrays)),
            ("adjoin_taxa_rejects_subclass_operand", lambda: patch(BV, "adjoin_taxa", adjoin_exact_class_only)),
            ("copy_shares_the_stored_matrix", lambda: patch(BV, "__copy__", bv_copy_shares_matrix)),
            ("reorder_taxa_labels_only_when_grouped", lambda: patch(m_tm.DenseTaxaMatrix, "reorder_taxa",
                                                                    reorder_labels_only_when_grouped)),
            ("rescale_writes_into_parameter_arrays", lambda: patch(SM, "rescale", rescale_writes_into_parameter_arrays)),
            ("rescale_not_inplace_forgets_copy", lambda: patch(SM, "rescale", rescale_copy_forgotten)),
            ("rescale_reduces_leading_axis_only", lambda: patch(SM, "rescale", rescale_first_two_axes_only)),
            ("transform_copy_flag_ignored", lambda: patch(SM, "transform", transform_copy_flag_ignored)),
            ("untransform_strided_argument_copied", lambda: patch(SM, "untransform", untransform_into_view)),
            ("unscale_copy_resets_parameters", lambda: patch(SM, "unscale", unscale_not_inplace_resets_parameters)),
            ("transform_integer_reciprocal_of_integer_scale", lambda: patch(SM, "transform", transform_integer_reciprocal)),
            # mechanism 1: from_numpy
            ("from_numpy_scale_not_guarded", lambda: patch(BV, "from_numpy", from_numpy_factory(guard=False, cguard=False))),
            ("from_numpy_location_nanmedian", lambda: patch(BV, "from_numpy", from_numpy_factory(center="nanmedian"))),
            ("from_numpy_one_pass_scale", lambda: patch(BV, "from_numpy", classmethod(from_numpy_one_pass))),
            # mechanism 2: unscale and the structural operations
            ("unscale_memoised_not_invalidated", lambda: patch(BV, "unscale", unscale_memoised)),
            ("unscale_scale_times_mat_plus_location", lambda: patch(BV, "unscale", unscale_wrong)),
            ("select_taxa_without_unscaling", lambda: patch(BV, "select_taxa", select_no_unscale)),
            ("select_taxa_groups_sorted_apart_from_taxa", lambda: patch(BV, "select_taxa", select_group_sorted)),
            ("select_taxa_negative_positions_not_wrapped", lambda: patch(BV, "select_taxa", select_abs_indices)),
            ("insert_taxa_several_positions_rows_reversed", lambda: patch(BV, "insert_taxa", insert_values_reversed)),
            ("delete_taxa_rows_rotated", lambda: patch(BV, "delete_taxa", delete_off_by_one)),
            ("adjoin_taxa_operand_not_unscaled", lambda: patch(BV, "adjoin_taxa", adjoin_scaled_values)),
            # mechanism 3: statistics
            ("tmin_without_location", lambda: patch(BV, "tmin", tmin_no_location)),
            ("tmax_of_absolute_values", lambda: patch(BV, "tmax", tmax_of_abs)),
            ("trange_adds_location", lambda: patch(BV, "trange", trange_unscaled_plus_location)),
            ("tmean_of_stored_values", lambda: patch(BV, "tmean", tmean_stored)),
            ("tvar_returns_scale", lambda: patch(BV, "tvar", tvar_is_scale)),
            ("tstd_returns_stored_scale_D9", lambda: patch(BV, "tstd", tstd_prerepair)),
            ("tvar_returns_stored_scale_squared_D9", lambda: patch(BV, "tvar", tvar_prerepair)),
            ("tstd_scale_wherever_stored_nonzero", lambda: patch(BV, "tstd", tstd_shortcut)),
            ("targmax_last_occurrence", lambda: patch(BV, "targmax", targmax_last)),
            ("targmin_is_argmax", lambda: patch(BV, "targmin", targmin_is_argmax)),
            # mechanism 4: DenseScaledMatrix
            ("untransform_adds_before_scaling", lambda: patch(SM, "untransform", untransform_wrong_order)),
            ("transform_without_centering", lambda: patch(SM, "transform", transform_no_center)),
            ("rescale_keeps_old_location", lambda: patch(SM, "rescale", rescale_keeps_location)),
            ("unscale_inplace_keeps_scale", lambda: patch(SM, "unscale", unscale_inplace_keeps_scale)),
        ]


PROP = C15()
