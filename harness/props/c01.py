"""C01 — Mendelian fidelity of the seven mating protocols (and of the mat_*/dense_* utilities).

Correspondence: the real `<Protocol>.mate()` is run through its public interface with a *recording*
generator (a subclass of numpy's Generator / RandomState, so `check_is_Generator_or_RandomState`
passes): either a genuine bit generator whose `uniform` draws are logged, or a scripted one that
returns boundary values (exactly 0.0, ties `r == xoprob`, one step below a tie).  The logged draw
matrices are the oracle inputs of the Lean model `Mating.mate`; outputs must be equal.
Spec: `Mating.specMate` (Lean, driver op `c01.spec_mate`) on the implementation's inputs/outputs, plus
snapshot comparisons for "parents untouched" and "marker metadata carried over".
"""
import contextlib
import copy
import importlib
import inspect
import random
from fractions import Fraction

import numpy

from .. import canon, compat
from ..core import Prop

compat.install()

PROTOS = {
    "self": ("SelfCross", 1, "sx"),
    "2w": ("TwoWayCross", 2, "2w"),
    "2wdh": ("TwoWayDHCross", 2, "dh"),
    "3w": ("ThreeWayCross", 3, "3w"),
    "3wdh": ("ThreeWayDHCross", 3, "dh"),
    "4w": ("FourWayCross", 4, "4w"),
    "4wdh": ("FourWayDHCross", 4, "dh"),
}
VRNT_FIELDS = ["vrnt_chrgrp", "vrnt_phypos", "vrnt_name", "vrnt_genpos", "vrnt_xoprob", "vrnt_hapgrp",
               "vrnt_hapalt", "vrnt_hapref", "vrnt_mask",
               "vrnt_chrgrp_name", "vrnt_chrgrp_stix", "vrnt_chrgrp_spix", "vrnt_chrgrp_len"]
KNOWN_META = {"vrnt_hapalt", "vrnt_hapref"}       # finding D18
TWO53 = 2 ** 53

_cache = {}


def _mods():
    if not _cache:
        compat.import_pybrops()
        for k, (cn, _, _) in PROTOS.items():
            m = importlib.import_module("pybrops.breed.prot.mate." + cn)
            _cache[k] = (m, getattr(m, cn))
        _cache["util"] = importlib.import_module("pybrops.breed.prot.mate.util")
        _cache["core"] = importlib.import_module("pybrops.core.util.mate")
        _cache["D"] = importlib.import_module(
            "pybrops.popgen.gmat.DensePhasedGenotypeMatrix").DensePhasedGenotypeMatrix
    return _cache


# ---------------------------------------------------------------------------------- generators
def _script(rs, xo, den, shape):
    """boundary-seeking draws in [0,1), all multiples of 1/den; column j is compared with xo[j]"""
    n, m = shape
    out = numpy.empty(shape, dtype=float)
    for i in range(n):
        for j in range(m):
            x = Fraction(xo[j])
            t = rs.random()
            if t < 0.25:
                v = Fraction(0)
            elif t < 0.45:
                v = x                                     # tie  r == xoprob  (no crossover)
            elif t < 0.60:
                v = x - Fraction(1, den)                  # one step below the tie (crossover)
            else:
                v = Fraction(rs.randrange(den), den)
            if not (0 <= v < 1):
                v = Fraction(rs.randrange(den), den)
            out[i, j] = float(v)
    return out


class _RecGen(numpy.random.Generator):
    """numpy Generator whose `uniform` calls are logged (and optionally scripted)"""

    def __init__(self, bitgen, script=None):
        super().__init__(bitgen)
        self.log = []
        self.calls = []
        self._script = script

    def uniform(self, low=0.0, high=1.0, size=None):
        self.calls.append((float(low), float(high), tuple(size) if size is not None else None))
        if self._script is None:
            x = super().uniform(low, high, size)
        else:
            x = self._script(tuple(size))
        self.log.append(numpy.array(x, dtype=float).copy())
        return x


class _RecRS(numpy.random.RandomState):
    def __init__(self, seed):
        super().__init__(seed)
        self.log = []
        self.calls = []

    def uniform(self, low=0.0, high=1.0, size=None):
        self.calls.append((float(low), float(high), tuple(size) if size is not None else None))
        x = super().uniform(low, high, size)
        self.log.append(numpy.array(x, dtype=float).copy())
        return x


def _make_rng(spec, xo):
    mode = spec["mode"]
    if mode == "pcg64":
        return _RecGen(numpy.random.PCG64(spec["seed"])), TWO53
    if mode == "mt19937":
        return _RecGen(numpy.random.MT19937(spec["seed"])), TWO53
    if mode == "randomstate":
        return _RecRS(spec["seed"]), TWO53
    if mode == "explicit":
        mats = [numpy.array(m, dtype=float).reshape(len(m), len(xo)) / spec["den"] for m in spec["mats"]]
        it = iter(mats)

        def nxt(shape):
            m = next(it)
            if m.shape != tuple(shape):
                raise RuntimeError(f"explicit draws: code requested {shape}, case supplies {m.shape}")
            return m
        return _RecGen(numpy.random.PCG64(0), script=nxt), spec["den"]
    if mode == "const":
        # call k of uniform returns a matrix whose entries all equal vals[k % len(vals)] / den
        state = {"k": 0}

        def const(shape):
            v = spec["vals"][state["k"] % len(spec["vals"])] / spec["den"]
            state["k"] += 1
            return numpy.full(shape, v, dtype=float)
        return _RecGen(numpy.random.PCG64(0), script=const), spec["den"]
    if mode == "scripted":
        rs = random.Random(spec["seed"])
        den = spec["den"]
        return _RecGen(numpy.random.PCG64(0), script=lambda shape: _script(rs, xo, den, shape)), den
    raise ValueError(mode)


def _draws_json(log, den):
    out = []
    for m in log:
        rows = []
        for r in numpy.atleast_2d(m):
            row = []
            for v in r:
                q = Fraction(float(v)) * den
                if q.denominator != 1:
                    raise RuntimeError(f"draw {v!r} is not a multiple of 1/{den}")
                row.append(int(q))
            rows.append(row)
        if m.size == 0:
            rows = [[] for _ in range(m.shape[0])]
        out.append(rows)
    return out


def _fr(x):
    return Fraction(x)


def _obj(a):
    return numpy.array(a, dtype=object)


def _same(a, b):
    if a is None or b is None:
        return a is None and b is None
    a = numpy.asarray(a)
    b = numpy.asarray(b)
    if a.shape != b.shape:
        return False
    if a.dtype.kind == "f" and b.dtype.kind == "f":
        return bool(numpy.array_equal(a, b, equal_nan=True))
    return bool(numpy.array_equal(a, b))


def _build_pgmat(case):
    D = _mods()["D"]
    mat = numpy.array(case["geno"], dtype="int8")
    ntaxa, nv = mat.shape[1], mat.shape[2]
    xo = numpy.array([float(_fr(v)) for v in case["xo"]], dtype=float)
    meta = case.get("meta", "full")
    kw = {}
    if meta != "none":
        # two chromosome groups, already sorted, so that group_vrnt() is the identity permutation
        half = (nv + 1) // 2
        kw.update(
            vrnt_chrgrp=numpy.array([1] * half + [2] * (nv - half), dtype="int64"),
            vrnt_phypos=numpy.arange(nv, dtype="int64") * 7 + 3,
            vrnt_name=_obj([f"m{j:03d}" for j in range(nv)]),
            vrnt_genpos=numpy.arange(nv, dtype=float) / 8.0,
            vrnt_hapgrp=numpy.arange(nv, dtype="int64")[::-1].copy(),
            vrnt_mask=numpy.array([(j % 3) != 0 for j in range(nv)], dtype=bool),
        )
    if meta == "alleles":
        kw.update(vrnt_hapalt=_obj(["ACGT"[j % 4] for j in range(nv)]),
                  vrnt_hapref=_obj(["TGCA"[j % 4] for j in range(nv)]))
    g = D(mat=mat, taxa=_obj([f"par{t:02d}" for t in range(ntaxa)]),
          taxa_grp=numpy.array([t // 2 for t in range(ntaxa)], dtype="int64"),
          vrnt_xoprob=xo, **kw)
    if meta != "none" and nv > 0:
        g.group_vrnt()
    return g, xo


def _meta_json(obj):
    """the thirteen marker-metadata arrays in the driver's canonical encoding (None -> null)"""
    return {f: (None if getattr(obj, f) is None else canon.enc(numpy.asarray(getattr(obj, f)))) for f in VRNT_FIELDS}


def _snapshot(g):
    s = {"mat": g.mat.copy(), "taxa": copy.deepcopy(g.taxa), "taxa_grp": copy.deepcopy(g.taxa_grp)}
    for f in VRNT_FIELDS:
        s[f] = copy.deepcopy(getattr(g, f))
    return s


# ---------------------------------------------------------------------------------- python Spec for the utilities
def _mosaic(srcs, xo, out):
    """exact decidable mosaic test (same recurrence as Mating.mosaicDP)"""
    if any(len(s) != len(out) for s in srcs) or len(xo) != len(out) or not srcs:
        return False
    reach = [True] * len(srcs)
    for j, a in enumerate(out):
        anyr = any(reach)
        reach = [(s[j] == a) and (reach[k] or (xo[j] > 0 and anyr)) for k, s in enumerate(srcs)]
    return any(reach)


class C01(Prop):
    PID = "C01"
    MODULE = "PybropsModel.Props.C01"
    N_QUICK = 600
    N_THOROUGH = 6000
    RULE = ("all seven protocols through the public mate(): 1-8 parents x 1-24 markers, allele codes unique per "
            "(taxon, phase[, marker]) or arbitrary int8 incl. -128/127; xconfig with selfs, repeated parents and "
            "repeated crosses, parents addressed from the end (negative indices), 0-4 crosses; scalar and per-cross array "
            "counts incl. zeros; one corpus case with 4100 gametes in one meiosis call; nself 0-3; xoprob with "
            "exact 0 / 0.5 / 1 entries; counters incl. the 10^7 name-width rollover; genuine PCG64 / MT19937 / "
            "RandomState streams and scripted draws (exact 0.0, ties r == xoprob, one step below); a 6 % stream of "
            "inputs the code must reject; the mat_* / dense_* utilities directly.  Non-trivial = at least one "
            "crossover drawn, at least one progeny and a cross with two distinct parents (or a heterozygous selfed parent)")
    TRUSTED = ["numpy.repeat / arange / stack / lexsort / unique as modelled (Np.repeatEach, Np.arange, List.zip, "
               "Np.stableSort, Np.uniqueRuns); Python str order = code-point lexicographic order",
               "numpy Generator / RandomState: `uniform(0,1,size)` returns multiples of 2^-53 in [0,1); the model takes the "
               "recorded draws as input (a recording subclass logs them)",
               "DensePhasedGenotypeMatrix constructor and group_taxa() (modelled as the stable (family, name) sort + unique runs)"]
    ASSUMPTIONS = ["diploid input (two phases); selection indices in [-ntaxa, ntaxa) (numpy's index rule is modelled by wrapIdx)",
                   "progeny/family counters are non-negative",
                   "generation order of names is demanded only while progeny_counter + count <= 10^7 (7-digit zero fill); "
                   "beyond that the sorted arrangement is demanded (see order_preserved_counterexample)"]
    _mask_known = False      # set while a self-test mutant runs: the known finding must not count as a kill

    # ------------------------------------------------------------------ generation
    @staticmethod
    def _mk(proto, geno, xo, xconfig, nmating, nprogeny, nself, pc, fc, rng, meta="full"):
        return {"kind": proto, "geno": geno, "xo": canon.enc(xo), "xconfig": xconfig, "nmating": nmating,
                "nprogeny": nprogeny, "nself": nself, "pc": pc, "fc": fc, "rng": rng, "meta": meta}

    @staticmethod
    def _geno(rng, ntaxa, nv, style):
        g = [[[0] * nv for _ in range(ntaxa)] for _ in range(2)]
        for p in range(2):
            for t in range(ntaxa):
                for j in range(nv):
                    if style == "copy":            # provenance fully observable
                        v = 2 * t + p - 128
                    elif style == "cell":          # every cell distinct (needs 2*ntaxa*nv <= 256)
                        v = (p * ntaxa + t) * nv + j - 128
                    elif style == "biallelic":
                        v = rng.randint(0, 1)
                    else:
                        v = rng.choice([-128, 127, -1, 0, 1, rng.randint(-128, 127)])
                    g[p][t][j] = v
        return g

    @staticmethod
    def _xo(rng, nv, den):
        style = rng.random()
        out = []
        for j in range(nv):
            if style < 0.1:
                v = Fraction(0)
            elif style < 0.2:
                v = Fraction(1, 2)
            else:
                v = rng.choice([Fraction(0), Fraction(0), Fraction(1, 2), Fraction(1, 4), Fraction(1, 8),
                                Fraction(3, 4), Fraction(1), Fraction(rng.randrange(den // 2), den)])
            if j == 0 and style >= 0.2 and rng.random() < 0.6:
                v = Fraction(1, 2)
            out.append(v)
        return out

    def _case(self, rng, proto=None, tier="quick"):
        proto = proto or rng.choice(list(PROTOS))
        npar = PROTOS[proto][1]
        mode = rng.choice(["scripted", "scripted", "pcg64", "mt19937", "randomstate"])
        big = tier == "thorough" and rng.random() < 0.3
        ntaxa = rng.choice([1, 2, 3, 4, 5, 6, 8] + ([12] if big else []))
        nv = rng.choice(([1, 2, 3, 5, 8, 12, 24] + ([30] if big else [])) if mode == "scripted" else [1, 2, 4, 6, 9])
        gs = rng.choice(["copy", "copy", "cell", "biallelic", "int8"])
        if gs == "cell" and 2 * ntaxa * nv > 256:
            gs = "copy"
        den = 64
        geno = self._geno(rng, ntaxa, nv, gs)
        xo = self._xo(rng, nv, den)
        ncross = rng.choice([0, 1, 1, 2, 2, 3, 4] + ([5, 6] if big else []))
        xc = []
        for _ in range(ncross):
            r = rng.random()
            if r < 0.15:
                row = [rng.randrange(ntaxa)] * npar                  # self / all parents equal
            elif r < 0.3 and xc:
                row = list(rng.choice(xc))                           # repeated cross
            elif ntaxa >= npar and r < 0.8:
                row = rng.sample(range(ntaxa), npar)                 # distinct parents
            else:
                row = [rng.randrange(ntaxa) for _ in range(npar)]
            xc.append(row)
        if rng.random() < 0.2:                                       # numpy index rule: -k names taxon ntaxa-k
            xc = [[v - ntaxa if rng.random() < 0.5 else v for v in row] for row in xc]

        def cnt(hi):
            if rng.random() < 0.45:
                return rng.randint(0 if rng.random() < 0.1 else 1, hi)
            return [rng.randint(0 if rng.random() < 0.2 else 1, hi) for _ in range(ncross)]
        nmating, nprogeny = cnt(4 if big else 3), cnt(4 if big else 3)
        nself = rng.choice([0, 0, 0, 1, 1, 2, 3])
        r = rng.random()
        if r < 0.7:
            pc = rng.randint(0, 60)
        elif r < 0.9:
            pc = 10 ** 7 - rng.randint(0, 12)
        else:
            pc = rng.choice([10 ** 7 + rng.randint(0, 5), 99999995, 123456789])
        fc = rng.choice([0, 0, 1, 7, 98, 10 ** 6])
        spec = {"mode": mode, "seed": rng.randrange(2 ** 31)}
        if mode == "scripted":
            spec["den"] = den
        meta = rng.choice(["full"] * 7 + ["none", "none", "alleles"])
        return self._mk(proto, geno, xo, xc, nmating, nprogeny, nself, pc, fc, spec, meta)

    def _bad_case(self, rng):
        c = self._case(rng)
        while not c["xconfig"]:
            c = self._case(rng)
        ntaxa = len(c["geno"][0])
        k = rng.randrange(3)
        c = dict(c)
        c["expect_error"] = True
        if k == 0:                                      # selection index outside the matrix
            c["xconfig"] = [list(r) for r in c["xconfig"]]
            c["xconfig"][rng.randrange(len(c["xconfig"]))][rng.randrange(len(c["xconfig"][0]))] = \
                rng.choice([ntaxa + rng.randint(0, 2), -ntaxa - 1 - rng.randint(0, 2)])
            c["nmating"] = 1
            c["nprogeny"] = rng.randint(1, 2)
        elif k == 1:                                    # count array of the wrong length
            c["nmating"] = [1] * (len(c["xconfig"]) + 1)
        else:                                           # xconfig of the wrong width
            c["xconfig"] = [list(r) + [0] for r in c["xconfig"]]
        return c

    def _util_case(self, rng):
        ntaxa = rng.randint(1, 5)
        nv = rng.choice([1, 2, 4, 7, 12])
        den = 64
        fn = rng.choice(["meiosis", "dh", "mate"])
        c = {"kind": "util", "fn": fn, "module": rng.choice(["util", "core"]),
             "geno": self._geno(rng, ntaxa, nv, rng.choice(["copy", "cell" if 2 * ntaxa * nv <= 256 else "copy", "int8"])),
             "xo": canon.enc(self._xo(rng, nv, den)),
             "sel": [rng.randrange(ntaxa) for _ in range(rng.randint(0, 5))],
             "rng": {"mode": rng.choice(["scripted", "pcg64", "randomstate"]), "seed": rng.randrange(2 ** 31), "den": den}}
        if fn == "mate":
            mt = rng.randint(1, 4)
            c["mgeno"] = self._geno(rng, mt, nv, "int8")
            c["msel"] = [rng.randrange(mt) for _ in c["sel"]]
        return c

    @staticmethod
    def _np_case(rng):
        fn = rng.choice(["repeat", "lexsort", "zfill"])
        if fn == "repeat":
            n = rng.randint(0, 6)
            return {"kind": "np", "fn": fn, "counts": [rng.randint(0, 3) for _ in range(n)],
                    "vals": [rng.randint(-5, 5) for _ in range(n)]}
        if fn == "lexsort":
            n = rng.randint(0, 8)
            alpha = "0129w-Az"
            names = ["".join(rng.choice(alpha) for _ in range(rng.randint(0, 4))) for _ in range(n)]
            return {"kind": "np", "fn": fn, "names": names, "grp": [rng.randint(0, 2) for _ in range(n)]}
        return {"kind": "np", "fn": fn, "ns": [rng.choice([0, 7, 9999999, 10 ** 7, 10 ** 7 + 1, 123456789012,
                                                            rng.randrange(10 ** rng.randint(1, 20))]) for _ in range(4)]}

    def corpus(self):
        g2 = [[[1, 2, 3], [4, 5, 6]], [[11, 12, 13], [14, 15, 16]]]
        g4 = self._geno(random.Random(1), 4, 6, "cell")
        half = Fraction(1, 2)
        xo3 = [half, 0, half]
        xo6 = [half, Fraction(1, 8), 0, half, Fraction(1, 4), 0]
        sc = lambda s: {"mode": "scripted", "seed": s, "den": 64}
        out = [
            self._mk("2w", g2, xo3, [[0, 1]], 1, 2, 0, 5, 2, sc(1)),
            self._mk("self", g2, xo3, [[1]], 2, 2, 1, 0, 0, sc(2)),
            self._mk("2wdh", g4, xo6, [[0, 1], [2, 3]], [2, 1], [1, 3], 1, 0, 0, sc(3)),
            self._mk("3w", g4, xo6, [[0, 1, 2], [3, 2, 1]], [1, 2], [2, 1], 0, 3, 1, sc(4)),
            self._mk("3wdh", g4, xo6, [[0, 1, 2], [3, 2, 1]], [1, 2], [2, 1], 2, 3, 1, {"mode": "pcg64", "seed": 5}),
            self._mk("4w", g4, xo6, [[0, 1, 2, 3], [3, 2, 1, 0]], [2, 1], [1, 2], 0, 0, 0, sc(6)),
            self._mk("4wdh", g4, xo6, [[0, 1, 2, 3], [1, 1, 1, 1]], 2, [1, 2], 1, 0, 0, {"mode": "randomstate", "seed": 7}),
            # all probabilities zero, every draw zero: no crossover may happen
            self._mk("2w", g4, [0] * 6, [[0, 1], [2, 2]], 2, 2, 2, 0, 0, sc(8)),
            # zero crosses / zero counts
            self._mk("2w", g4, xo6, [], 1, 1, 0, 0, 0, sc(9)),
            self._mk("3wdh", g4, xo6, [[0, 1, 2]], [0], 3, 1, 0, 0, sc(10)),
            # the 7-digit name field overflows inside one family: group_taxa() reorders it
            self._mk("2w", g4, xo6, [[0, 1]], 2, 2, 0, 9999998, 3, sc(11)),
            self._mk("4wdh", g4, xo6, [[0, 1, 2, 3], [3, 2, 1, 0]], 2, 3, 0, 9999995, 0, sc(12)),
            # finding D18: allele metadata present on the parents
            self._mk("2w", g4, xo6, [[0, 1]], 1, 2, 0, 0, 0, sc(13), meta="alleles"),
            self._mk("3wdh", g4, xo6, [[0, 1, 2]], 1, 2, 1, 0, 0, sc(14), meta="alleles"),
        ]
        for i, k in enumerate(PROTOS):
            n = PROTOS[k][1]
            out.append(self._mk(k, g4, xo6, [list(range(n))], 1, 1, 0, 0, 0, sc(20 + i), meta="alleles"))
        # more than 4096 gametes in one mat_meiosis call (1 marker, two families of 4096 + 4 progeny, distinct
        # parents with distinct alleles): a block-wise / chunked rewrite of the draw or copy loop must keep the
        # row index global.  Call k of uniform returns a constant matrix (0 = crossover, 1/2 = tie, none).
        g1 = [[[-128], [-126], [-124], [-122]], [[-127], [-125], [-123], [-121]]]
        out.append(self._mk("2w", g1, [half], [[0, 1], [2, 3]], [1, 1], [4096, 4], 0, 0, 0,
                            {"mode": "const", "den": 64, "vals": [0, 32]}, meta="none"))
        # negative indices (numpy counts from the end) and an index below -ntaxa that is never used
        out.append(self._mk("3w", g4, xo6, [[-1, 0, -3], [2, -4, 1]], [1, 2], [2, 1], 1, 0, 0, sc(40)))
        out.append(self._mk("4wdh", g4, xo6, [[-1, -2, -3, -4], [0, 1, 2, -9]], [1, 0], [2, 3], 2, 0, 0, sc(41)))
        out.append({"kind": "util", "fn": "meiosis", "module": "core", "geno": g4, "xo": canon.enc(xo6),
                    "sel": [3, 0, 0], "rng": sc(30)})
        out.append({"kind": "util", "fn": "dh", "module": "util", "geno": g4, "xo": canon.enc(xo6),
                    "sel": [1, 2], "rng": sc(31)})
        return out

    def exhaustive(self, tier):
        """thorough tier: every crossover mask of 1-4 markers through both meiosis implementations, and
        every combination of draws in {0, 1/2} (xoprob = 1/2 everywhere: draw 0 = crossover) for one
        progeny of each protocol (2 markers while the protocol makes <= 4 uniform calls, else 1)"""
        if tier != "thorough":
            return None
        import itertools
        out = []
        for nv in (1, 2, 3, 4):
            geno = [[[10 + j for j in range(nv)]], [[20 + j for j in range(nv)]]]
            for bits in itertools.product((0, 1), repeat=nv):
                for module in ("util", "core"):
                    out.append({"kind": "util", "fn": "meiosis", "module": module, "geno": geno,
                                "xo": canon.enc([Fraction(1, 2)] * nv), "sel": [0],
                                "rng": {"mode": "explicit", "den": 2, "mats": [[list(bits)]]}})
        ncalls = {"self": 2, "2w": 2, "2wdh": 3, "3w": 4, "3wdh": 5, "4w": 6, "4wdh": 7}
        for k, (_, npar, _) in PROTOS.items():
            nv = 2 if ncalls[k] <= 4 else 1
            geno = self._geno(random.Random(0), 4, nv, "cell")
            for bits in itertools.product((0, 1), repeat=nv * ncalls[k]):
                mats = [[list(bits[i * nv:(i + 1) * nv])] for i in range(ncalls[k])]
                out.append(self._mk(k, geno, [Fraction(1, 2)] * nv, [list(range(npar))], 1, 1, 0, 0, 0,
                                    {"mode": "explicit", "den": 2, "mats": mats}))
        return out

    def generate(self, rng, n, tier):
        out = []
        protos = list(PROTOS)
        for i in range(n):
            r = rng.random()
            if r < 0.06:
                out.append(self._bad_case(rng))
            elif r < 0.16:
                out.append(self._util_case(rng))
            elif r < 0.20:
                out.append(self._np_case(rng))
            else:
                out.append(self._case(rng, protos[i % len(protos)], tier))
        return out

    # ------------------------------------------------------------------ implementation
    def run_impl(self, case):
        mods = _mods()
        if case["kind"] == "np":
            if case["fn"] == "repeat":
                return {"res": [int(v) for v in numpy.repeat(numpy.array(case["vals"], dtype="int64"),
                                                              numpy.array(case["counts"], dtype="int64"))]}
            if case["fn"] == "lexsort":
                ix = numpy.lexsort((_obj(case["names"]), numpy.array(case["grp"], dtype="int64"))) \
                    if case["names"] else []
                return {"res": [int(v) for v in ix]}
            return {"res": [str(n).zfill(7) for n in case["ns"]]}
        if case["kind"] == "util":
            return self._run_util(case, mods)
        modname, cls = mods[case["kind"]]
        g, xo = _build_pgmat(case)
        snap = _snapshot(g)
        meta_in = _meta_json(g)
        rng, den = _make_rng(case["rng"], [_fr(v) for v in case["xo"]])
        prot = cls(progeny_counter=case["pc"], family_counter=case["fc"], rng=rng)
        npar = PROTOS[case["kind"]][1]
        xc = numpy.array(case["xconfig"], dtype="int64").reshape(len(case["xconfig"]),
                                                                   len(case["xconfig"][0]) if case["xconfig"] else npar)
        nm = case["nmating"] if isinstance(case["nmating"], int) else numpy.array(case["nmating"], dtype="int64")
        npg = case["nprogeny"] if isinstance(case["nprogeny"], int) else numpy.array(case["nprogeny"], dtype="int64")
        try:
            out = prot.mate(g, xc, nm, npg, nself=case["nself"])
        except Exception as e:
            if case.get("expect_error"):
                return {"error": canon.exc_tag(e), "text": f"{type(e).__name__}: {e}"[:200]}
            raise
        after = _snapshot(g)
        untouched = [k for k in snap if not _same(snap[k], after[k])]
        lost = [f for f in VRNT_FIELDS if not _same(snap[f], getattr(out, f))]
        bad_calls = [c for c in rng.calls if c[0] != 0.0 or c[1] != 1.0]
        return {
            "mat": out.mat.astype(int).tolist(), "dtype": str(out.mat.dtype),
            "taxa": [str(t) for t in out.taxa], "taxa_grp": [int(v) for v in out.taxa_grp],
            "pc": int(prot.progeny_counter), "fc": int(prot.family_counter),
            "grp_name": [int(v) for v in out.taxa_grp_name], "grp_stix": [int(v) for v in out.taxa_grp_stix],
            "grp_spix": [int(v) for v in out.taxa_grp_spix], "grp_len": [int(v) for v in out.taxa_grp_len],
            "draws": _draws_json(rng.log, den), "dden": den,
            "shapes": [list(m.shape) for m in rng.log], "bad_calls": bad_calls,
            "parents_changed": untouched, "meta_lost": lost,
            "meta_in": meta_in, "meta": _meta_json(out),
        }

    def _run_util(self, case, mods):
        mod = mods[case["module"]]
        names = {"util": ("mat_meiosis", "mat_dh", "mat_mate"), "core": ("dense_meiosis", "dense_dh", "dense_cross")}[case["module"]]
        fn = getattr(mod, names[["meiosis", "dh", "mate"].index(case["fn"])])
        geno = numpy.array(case["geno"], dtype="int8")
        g0 = geno.copy()
        xo = numpy.array([float(_fr(v)) for v in case["xo"]])
        sel = numpy.array(case["sel"], dtype="int64")
        rng, den = _make_rng(case["rng"], [_fr(v) for v in case["xo"]])
        if case["fn"] == "mate":
            mg = numpy.array(case["mgeno"], dtype="int8")
            res = fn(geno, mg, sel, numpy.array(case["msel"], dtype="int64"), xo, rng)
        else:
            res = fn(geno, sel, xo, rng)
        return {"res": res.astype(int).tolist(), "draws": _draws_json(rng.log, den), "dden": den,
                "untouched": bool((g0 == geno).all()), "dtype": str(res.dtype)}

    # ------------------------------------------------------------------ model requests
    @staticmethod
    def _args(case):
        return {"proto": case["kind"], "geno": case["geno"], "xo": case["xo"], "xconfig": case["xconfig"],
                "nmating": case["nmating"], "nprogeny": case["nprogeny"], "nself": case["nself"],
                "pc": case["pc"], "fc": case["fc"]}

    def requests(self, case, obs):
        if case["kind"] == "np":
            return [{"op": "c01.np", **{k: v for k, v in case.items() if k != "kind"}}]
        if case["kind"] == "util":
            r = {"op": "c01.util", "fn": case["fn"], "geno": case["geno"], "sel": case["sel"], "xo": case["xo"],
                 "draws": obs["draws"], "dden": obs["dden"]}
            if case["fn"] == "mate":
                r["mgeno"], r["msel"] = case["mgeno"], case["msel"]
            return [r]
        a = self._args(case)
        if "error" in obs:
            # the draws the code would have requested are unknown: let the model fail first on the
            # same check (every rejection modelled here happens before / independently of the draws)
            return [{"op": "c01.mate", **a, "draws": self._dummy_draws(case), "dden": 1}]
        return [{"op": "c01.mate", **a, "draws": obs["draws"], "dden": obs["dden"], "meta": obs["meta_in"]},
                {"op": "c01.spec_mate", **a,
                 "out": {k: obs[k] for k in ("mat", "taxa", "taxa_grp", "pc", "fc")}}]

    @staticmethod
    def _dummy_draws(case):
        """zero draws of the shapes the first uniform calls would have (an out-of-range index is met in
        one of the first two mat_mate calls; the other rejections happen before any draw)"""
        nv = len(case["xo"])
        xc = case["xconfig"]
        try:
            n = len(xc)
            nm = case["nmating"] if isinstance(case["nmating"], list) else [case["nmating"]] * n
            npg = case["nprogeny"] if isinstance(case["nprogeny"], list) else [case["nprogeny"]] * n
            T = sum(a * b for a, b in zip(nm, npg))
            M = sum(nm)
        except Exception:
            T = M = 0
        rows = {"self": [T, T], "2w": [T, T], "2wdh": [M, M], "3w": [M, M, T, T]}.get(case["kind"], [M, M, M, M])
        return [[[0] * nv for _ in range(k)] for k in rows]

    def judge(self, case, obs, answers):
        for a in answers:
            if "err" in a:
                raise RuntimeError("driver error: " + a["err"])
        if case["kind"] == "np":
            m = answers[0]["ok"]
            return {"corr": m == obs["res"], "spec": True, "nontrivial": False, "failed": [],
                    "detail": f"numpy conformance {case['fn']}: model={m} numpy={obs['res']}"}
        if case["kind"] == "util":
            return self._judge_util(case, obs, answers[0]["ok"])
        m = answers[0]["ok"]
        if "error" in obs:
            # the property says nothing about how an invalid input is rejected: only "both reject" is compared
            corr = "error" in m
            return {"corr": corr, "spec": True, "nontrivial": False,
                    "detail": f"rejected input: impl={obs['error']} ({obs['text']}) model={m.get('error', 'accepted')}"}
        s = answers[1]["ok"]
        keys = ("mat", "taxa", "taxa_grp", "pc", "fc", "grp_name", "grp_stix", "grp_spix", "grp_len", "meta")
        diff = [k for k in keys if m.get(k) != obs[k]] if "error" not in m else ["model rejected: " + m["error"]]
        corr = not diff and not obs["bad_calls"]
        lost = list(obs["meta_lost"])
        if self._mask_known:
            lost = [f for f in lost if f not in KNOWN_META]
        failed = []
        if not s["ok"]:
            failed.append("lean:" + s["detail"])
        if obs["parents_changed"]:
            failed.append("parents_changed:" + ",".join(obs["parents_changed"]))
        if lost:
            failed.append("meta_lost:" + ",".join(lost))
        spec = not failed
        return {"corr": corr, "spec": spec, "nontrivial": self._nontrivial(case, obs), "failed": failed,
                "detail": f"{case['kind']} spec_failed={failed} model_vs_impl_diff={diff} "
                          f"uniform_calls={obs['shapes']} bad_calls={obs['bad_calls']} dtype={obs['dtype']}"}

    @staticmethod
    def _nontrivial(case, obs):
        if not obs["mat"] or not obs["mat"][0]:
            return False
        xo = [_fr(v) for v in case["xo"]]
        den = obs["dden"]
        xover = any(Fraction(v, den) < xo[j] for m in obs["draws"] for r in m for j, v in enumerate(r))
        g = case["geno"]
        nt = len(g[0])
        het = any(len({v % nt for v in r}) > 1 or g[0][r[0] % nt] != g[1][r[0] % nt] for r in case["xconfig"])
        return xover and het

    def _judge_util(self, case, obs, m):
        xo = [_fr(v) for v in case["xo"]]
        g = case["geno"]
        res = obs["res"]
        fn = case["fn"]
        ok = obs["untouched"]
        if fn == "meiosis":
            corr = m.get("gamete") == res and m.get("closed") == res
            spec = ok and len(res) == len(case["sel"]) and all(
                _mosaic([g[0][s], g[1][s]], xo, row) for s, row in zip(case["sel"], res))
        elif fn == "dh":
            corr = m.get("mat") == res
            spec = ok and len(res) == 2 and res[0] == res[1] and len(res[0]) == len(case["sel"]) and all(
                _mosaic([g[0][s], g[1][s]], xo, row) for s, row in zip(case["sel"], res[0]))
        else:
            mg = case["mgeno"]
            corr = m.get("mat") == res
            spec = ok and len(res) == 2 and len(res[0]) == len(case["sel"]) == len(res[1]) and all(
                _mosaic([g[0][s], g[1][s]], xo, row) for s, row in zip(case["sel"], res[0])) and all(
                _mosaic([mg[0][s], mg[1][s]], xo, row) for s, row in zip(case["msel"], res[1]))
        den = obs["dden"]
        xover = any(Fraction(v, den) < xo[j] for mm in obs["draws"] for r in mm for j, v in enumerate(r))
        return {"corr": corr, "spec": spec, "nontrivial": bool(xover and case["sel"]),
                "failed": [] if spec else ["util:" + fn],
                "detail": f"util {case['module']}.{fn} model={str(m)[:300]} impl={str(res)[:300]}"}

    # ------------------------------------------------------------------ findings / shrinking
    def signature(self, case, obs, verdict):
        failed = verdict.get("failed") or []
        sig = {"kind": case.get("kind"), "site": "mate" if case.get("kind") != "util" else "util"}
        if failed and all(f.startswith("meta_lost:") for f in failed):
            lost = set(failed[0].split(":", 1)[1].split(","))
            sig["cond"] = "hapalt_hapref_dropped" if lost <= KNOWN_META else "vrnt_metadata_dropped"
        elif verdict.get("exception"):
            sig["cond"] = "exception:" + str(verdict["exception"])
        else:
            sig["cond"] = ";".join(f.split(":", 1)[0] for f in failed) or "correspondence"
        return sig

    def shrink(self, case):
        if case.get("kind") == "np":
            return
        if case.get("kind") == "util":
            for i in range(len(case["sel"])):
                c = dict(case)
                c["sel"] = case["sel"][:i] + case["sel"][i + 1:]
                if "msel" in case:
                    c["msel"] = case["msel"][:i] + case["msel"][i + 1:]
                yield c
            return
        xc = case["xconfig"]
        for i in range(len(xc)):                          # drop a cross
            c = dict(case)
            c["xconfig"] = xc[:i] + xc[i + 1:]
            for k in ("nmating", "nprogeny"):
                if isinstance(case[k], list):
                    c[k] = case[k][:i] + case[k][i + 1:]
            yield c
        nv = len(case["xo"])
        for j in range(nv):                                # drop a marker
            if nv > 1:
                c = dict(case)
                c["xo"] = case["xo"][:j] + case["xo"][j + 1:]
                c["geno"] = [[r[:j] + r[j + 1:] for r in ph] for ph in case["geno"]]
                yield c
        ntaxa = len(case["geno"][0])
        if any(v < 0 for r in xc for v in r) and not case.get("expect_error"):
            yield dict(case, xconfig=[[v % ntaxa for v in r] for r in xc])     # address parents from the front
        used = {v for r in xc for v in r}
        for t in range(ntaxa):                             # drop an unused parent
            if t not in used and ntaxa > 1 and all(v >= 0 for v in used):
                c = dict(case)
                c["geno"] = [ph[:t] + ph[t + 1:] for ph in case["geno"]]
                c["xconfig"] = [[v - (v > t) for v in r] for r in xc]
                yield c
        if case["nself"] > 0:
            yield dict(case, nself=case["nself"] - 1)
        for k in ("nmating", "nprogeny"):
            if isinstance(case[k], list):
                for i, v in enumerate(case[k]):
                    if v > 1:
                        yield dict(case, **{k: case[k][:i] + [v - 1] + case[k][i + 1:]})
                if case[k] and len(set(case[k])) == 1:
                    yield dict(case, **{k: case[k][0]})
            elif case[k] > 1:
                yield dict(case, **{k: case[k] - 1})
        if case["pc"]:
            yield dict(case, pc=0)
        if case["fc"]:
            yield dict(case, fc=0)
        if case.get("meta") == "full":
            yield dict(case, meta="none")

    # ------------------------------------------------------------------ self-test mutants
    def mutants(self):
        mods = _mods()
        prop = self

        @contextlib.contextmanager
        def masked(inner):
            prop._mask_known = True
            try:
                with inner():
                    yield
            finally:
                prop._mask_known = False

        @contextlib.contextmanager
        def setattr_ctx(obj, name, new):
            old = getattr(obj, name)
            setattr(obj, name, new)
            try:
                yield
            finally:
                setattr(obj, name, old)

        def mutate_src(fn, old, new, which="first"):
            """recompile `fn` from its source with one occurrence of `old` replaced (in memory only);
            `old`/`new` may be lists of equal length (several edits of one function)"""
            src = inspect.getsource(fn).replace("\r\n", "\n")
            olds, news = ([old], [new]) if isinstance(old, str) else (old, new)
            for old, new in zip(olds, news):
                if src.count(old) < 1:
                    raise RuntimeError(f"mutant anchor not found in {fn.__qualname__}: {old!r}")
                if which == "first":
                    src = src.replace(old, new, 1)
                elif which == "last":
                    k = src.rindex(old)
                    src = src[:k] + new + src[k + len(old):]
                else:
                    src = src.replace(old, new)
            if src[:1] in " \t":
                src = "if True:\n" + src
            ns = {}
            exec(compile(src, f"<mutant {fn.__qualname__}>", "exec"), fn.__globals__, ns)
            return ns[fn.__name__]

        def src_mutant(owner, fname, old, new, which="first"):
            newfn = mutate_src(getattr(owner, fname), old, new, which)
            return lambda: setattr_ctx(owner, fname, newfn)

        def everywhere(name, new):
            """rebind a utility function in its home module and in every protocol module that imported it"""
            owners = [m for m in [mods["util"], mods["core"]] + [mods[k][0] for k in PROTOS] if hasattr(m, name)]

            @contextlib.contextmanager
            def ctx():
                with contextlib.ExitStack() as st:
                    for o in owners:
                        st.enter_context(setattr_ctx(o, name, new))
                    yield
            return ctx

        def both_meiosis(old, new):
            a = src_mutant(mods["util"], "mat_meiosis", old, new)
            b = src_mutant(mods["core"], "dense_meiosis", old, new)

            @contextlib.contextmanager
            def ctx():
                with a(), b():
                    yield
            return ctx

        def cls(k):
            return mods[k][1]

        U, Cc = mods["util"], mods["core"]

        def swapped_sides(orig):
            return lambda fg, mg, fs, ms, xo, rng: orig(mg, fg, ms, fs, xo, rng)

        def dh_het(meiosis):
            def f(geno, sel, xoprob, rng):
                g = meiosis(geno, sel, xoprob, rng)
                other = g.copy()
                if other.shape[1] > 0 and len(sel):
                    other[:, -1] = geno[1, sel, -1]
                    other[:, 0] = geno[0, sel, 0]
                return numpy.stack([g, other])
            return f

        def writes_parent(orig):
            def f(geno, sel, xoprob, rng):
                out = orig(geno, sel, xoprob, rng)
                if geno.size and len(sel):
                    geno[0, sel[0], 0] = numpy.int8(int(geno[0, sel[0], 0]) ^ 1)
                return out
            return f

        def blockwise(blk):
            def f(geno, sel, xoprob, rng):
                gshape = (len(sel), len(xoprob))
                gamete = numpy.empty(gshape, dtype=geno.dtype)
                for j, s_ in enumerate(sel):
                    i = j % blk                       # position of the gamete within its block ...
                    if i == 0:
                        rnd = rng.uniform(0, 1, (min(blk, gshape[0] - j), gshape[1]))
                    xoix = numpy.flatnonzero(rnd[i] < xoprob)
                    phase, stix = 0, 0
                    for spix in xoix:
                        gamete[i, stix:spix] = geno[phase, s_, stix:spix]      # ... also used as the output row
                        stix = spix
                        phase = 1 - phase
                    gamete[i, stix:] = geno[phase, s_, stix:]
                return gamete
            return f

        def blockwise_ctx():
            @contextlib.contextmanager
            def ctx():
                with setattr_ctx(U, "mat_meiosis", blockwise(4096)), setattr_ctx(Cc, "dense_meiosis", blockwise(4096)):
                    yield
            return ctx

        REP = "numpy.repeat(nprogeny, nmating)"
        ms = [
            # -- mechanism 1: segment-copy loop (both copies: mat_meiosis and dense_meiosis)
            ("meiosis_le", both_meiosis("rnd[i] < xoprob", "rnd[i] <= xoprob")),
            ("meiosis_start_phase_1", both_meiosis("phase = 0", "phase = 1")),
            ("meiosis_no_alternation", both_meiosis("phase = 1 - phase", "phase = phase")),
            ("meiosis_segment_reversed", both_meiosis("gamete[i,stix:spix] = geno[phase,s,stix:spix]",
                                                      "gamete[i,stix:spix] = geno[phase,s,stix:spix][::-1]")),
            ("meiosis_tail_of_first_selected", both_meiosis("gamete[i,stix:] = geno[phase,s,stix:]",
                                                            "gamete[i,stix:] = geno[phase,sel[0],stix:]")),
            ("meiosis_writes_parent", lambda: setattr_ctx(U, "mat_meiosis", writes_parent(U.mat_meiosis))),
            ("meiosis_blockwise_draws_local_row_index", blockwise_ctx()),
            # -- mechanism 2: gamete stacking
            ("mat_mate_stack_swapped", everywhere("mat_mate", mutate_src(
                U.mat_mate, "numpy.stack([fgamete, mgamete])", "numpy.stack([mgamete, fgamete])"))),
            ("dense_cross_stack_swapped", src_mutant(Cc, "dense_cross", "numpy.stack([fgamete, mgamete])",
                                                     "numpy.stack([mgamete, fgamete])")),
            ("mat_dh_not_doubled", everywhere("mat_dh", dh_het(U.mat_meiosis))),
            ("dense_dh_not_doubled", lambda: setattr_ctx(Cc, "dense_dh", dh_het(Cc.dense_meiosis))),
            # -- mechanism 3: parent index expansion
            ("self_second_gamete_other_parent", src_mutant(cls("self"), "mate",
                "sgeno = mat_mate(geno, geno, fsel, fsel, xoprob, self.rng)",
                "sgeno = mat_mate(geno, geno, fsel, fsel[::-1], xoprob, self.rng)")),
            ("2w_swap_fsel_msel", lambda: setattr_ctx(mods["2w"][0], "mat_mate", swapped_sides(mods["2w"][0].mat_mate))),
            ("2w_fsel_counts_reversed", src_mutant(cls("2w"), "mate",
                "fsel = numpy.repeat(xconfig[:,0], nmating * nprogeny)",
                "fsel = numpy.repeat(xconfig[:,0], (nmating * nprogeny)[::-1])")),
            ("2w_self_other_hybrid", src_mutant(cls("2w"), "mate",
                "hgeno = mat_mate(hgeno, hgeno, asel, asel, xoprob, self.rng)",
                "hgeno = mat_mate(hgeno, hgeno, asel, asel[::-1], xoprob, self.rng)")),
            ("2wdh_progeny_counts_reversed", src_mutant(cls("2wdh"), "mate", REP, REP + "[::-1]", "first")),
            ("2wdh_male_from_female_column", src_mutant(cls("2wdh"), "mate",
                "msel = numpy.repeat(xconfig[:,1], nmating)", "msel = numpy.repeat(xconfig[:,0], nmating)")),
            ("3w_recurrent_from_column_1", src_mutant(cls("3w"), "mate",
                "rsel = numpy.repeat(xconfig[:,0], nmating * nprogeny)",
                "rsel = numpy.repeat(xconfig[:,1], nmating * nprogeny)")),
            ("3w_f1_of_other_mating", src_mutant(cls("3w"), "mate",
                "numpy.arange(f1geno.shape[1]),", "numpy.arange(f1geno.shape[1])[::-1],")),
            ("3wdh_hybrid_of_other_cross", src_mutant(cls("3wdh"), "mate",
                "hsel = numpy.arange(f1geno.shape[1])", "hsel = numpy.arange(f1geno.shape[1])[::-1]")),
            ("3wdh_recurrent_from_column_2", src_mutant(cls("3wdh"), "mate",
                "rsel = numpy.repeat(xconfig[:,0], nmating)", "rsel = numpy.repeat(xconfig[:,2], nmating)")),
            ("4w_f1_female_from_column_0", src_mutant(cls("4w"), "mate",
                "f1sel = numpy.repeat(xconfig[:,2], nmating)", "f1sel = numpy.repeat(xconfig[:,0], nmating)")),
            ("4w_sides_swapped", src_mutant(cls("4w"), "mate",
                "hgeno = mat_mate(abgeno, cdgeno, absel, cdsel, xoprob, self.rng)",
                "hgeno = mat_mate(cdgeno, abgeno, cdsel, absel, xoprob, self.rng)")),
            ("4wdh_progeny_counts_reversed", src_mutant(cls("4wdh"), "mate", REP, REP + "[::-1]", "first")),
            ("4wdh_m1_from_column_1", src_mutant(cls("4wdh"), "mate",
                "m1sel = numpy.repeat(xconfig[:,3], nmating)", "m1sel = numpy.repeat(xconfig[:,1], nmating)")),
            # -- mechanism 4: family labels, names, counters
            ("2w_family_counts_reversed", src_mutant(cls("2w"), "mate",
                "nmating * nprogeny", "(nmating * nprogeny)[::-1]", "last")),
            ("3wdh_family_counts_reversed", src_mutant(cls("3wdh"), "mate", REP, REP + "[::-1]", "last")),
            ("3w_family_labels_shifted_by_one", src_mutant(cls("3w"), "mate",
                ["self.family_counter,        # start family number (inclusive)",
                 "self.family_counter + nfam, # stop family number (exclusive)"],
                ["self.family_counter + 1,    # start family number (inclusive)",
                 "self.family_counter + nfam + 1, # stop family number (exclusive)"])),
            ("self_progeny_counter_off_by_one", src_mutant(cls("self"), "mate",
                "self.progeny_counter += progcnt", "self.progeny_counter += progcnt + 1")),
            ("4w_family_counter_plus_one_only", src_mutant(cls("4w"), "mate",
                "self.family_counter += nfam", "self.family_counter += 1")),
            ("2wdh_names_shifted_by_one", src_mutant(cls("2wdh"), "mate",
                ["self.progeny_counter,               # start progeny number (inclusive)",
                 "self.progeny_counter + progcnt      # stop progeny number (exclusive)"],
                ["self.progeny_counter + 1,           # start progeny number (inclusive)",
                 "self.progeny_counter + progcnt + 1  # stop progeny number (exclusive)"])),
            ("4wdh_rows_reversed_after_grouping", src_mutant(cls("4wdh"), "mate",
                "progeny.group_taxa()",
                "progeny.group_taxa(); progeny.reorder_taxa(numpy.arange(progeny.ntaxa)[::-1])")),
            # -- metadata / parents
            ("3wdh_genpos_reversed", src_mutant(cls("3wdh"), "mate",
                "vrnt_genpos = pgmat.vrnt_genpos,", "vrnt_genpos = pgmat.vrnt_genpos[::-1],")),
            ("self_mask_dropped", src_mutant(cls("self"), "mate",
                "vrnt_mask = pgmat.vrnt_mask,", "vrnt_mask = None,")),
        ]
        return [(n, (lambda f=f: masked(f))) for n, f in ms]


PROP = C01()
