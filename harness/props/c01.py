"""C01 — Mendelian fidelity of the seven mating protocols (and of the mat_*/dense_* utilities).

Round 5: the PARENTS' family labels in narrow integer dtypes (int8 .. uint64) with the family counter at / beyond the limit of
that dtype, variant metadata in narrow integer dtypes, `cycle` histories (4-7 mate() calls with 15-50 crosses on one object:
the counter GROWS past 127 / 255), numpy integer scalars as counters, counters beyond int32 / uint32 / 2^53, parents that are a
grouped matrix.  Lean: Mating.mateSeq (histories) + history_calls / history_family_labels, labelsInDtype (label dtype).

Round 4: the per-cross product nmating*nprogeny is formed in int64 by the repaired code (D70): its corpus cases are
regression cases that must pass, mutants undo the repair in memory; new case kinds (unsorted / multi-chromosome variant
metadata, strided xoprob, parent label forms, constructor kwargs, deep selfing, > 32767 lines); scripted generators no
longer raise when the code asks for draws of another shape (a harmless rewrite of the draw pattern is a correspondence
difference, not a crash); self-test economy (see run_impl).

Round 3: histories on one protocol object, aliasing probes, narrow index dtypes, wide / long / many-cross sizes, tiny
magnitudes, rarely used argument forms, draws through random()/random_sample(); util Spec evaluated in Lean.

Correspondence: the real `<Protocol>.mate()` is run through its public interface with a *recording*
generator (a subclass of numpy's Generator / RandomState, so `check_is_Generator_or_RandomState`
passes): either a genuine bit generator whose `uniform` draws are logged, or a scripted one that
returns boundary values (exactly 0.0, ties `r == xoprob`, one step below a tie).  The logged draw
matrices are the oracle inputs of the Lean model `Mating.mate`; outputs must be equal.
Spec: `Mating.specMate` (Lean, driver op `c01.spec_mate`) on the implementation's inputs/outputs, plus
snapshot comparisons for "parents untouched" and "marker metadata carried over".
"""
import contextlib
import copy
import importlib
import inspect
import json
import os
import random
from fractions import Fraction

import numpy

from .. import canon, compat
from ..core import Prop

compat.install()

PROTOS = {
    "self": ("SelfCross", 1, "sx"),
    "2w": ("TwoWayCross", 2, "2w"),
    "2wdh": ("TwoWayDHCross", 2, "dh"),
    "3w": ("ThreeWayCross", 3, "3w"),
    "3wdh": ("ThreeWayDHCross", 3, "dh"),
    "4w": ("FourWayCross", 4, "4w"),
    "4wdh": ("FourWayDHCross", 4, "dh"),
}
VRNT_FIELDS = ["vrnt_chrgrp", "vrnt_phypos", "vrnt_name", "vrnt_genpos", "vrnt_xoprob", "vrnt_hapgrp",
               "vrnt_hapalt", "vrnt_hapref", "vrnt_mask",
               "vrnt_chrgrp_name", "vrnt_chrgrp_stix", "vrnt_chrgrp_spix", "vrnt_chrgrp_len"]
KNOWN_META = {"vrnt_hapalt", "vrnt_hapref"}       # finding D18
TWO53 = 2 ** 53

_cache = {}


def _mods():
    if not _cache:
        compat.import_pybrops()
        for k, (cn, _, _) in PROTOS.items():
            m = importlib.import_module("pybrops.breed.prot.mate." + cn)
            _cache[k] = (m, getattr(m, cn))
        _cache["util"] = importlib.import_module("pybrops.breed.prot.mate.util")
        _cache["core"] = importlib.import_module("pybrops.core.util.mate")
        _cache["D"] = importlib.import_module(
            "pybrops.popgen.gmat.DensePhasedGenotypeMatrix").DensePhasedGenotypeMatrix
    return _cache


# ---------------------------------------------------------------------------------- generators
_ANCHORS = ("pybrops/breed/prot/mate/", "pybrops/core/util/mate.py", "pybrops/popgen/gmat/", "pybrops/core/mat/")
_changed = []


def _tree_changed():
    """source watch (DESIGN 5.6): does an anchored source file differ from the recorded baseline?  Then the few very
    large cases (> 32767 lines: ~15 s of model time) join the quick corpus; on the unchanged tree they run in the
    thorough tier only.  VERIF_HEAVY=1 / 0 forces the answer."""
    if os.environ.get("VERIF_HEAVY") in ("0", "1"):
        return os.environ["VERIF_HEAVY"] == "1"
    if not _changed:
        try:
            from .. import srcwatch
            diff, _ = srcwatch.changed(compat.REPO)
            _changed.append(bool(diff) and any(d.startswith(_ANCHORS) for d in diff))
        except Exception:
            _changed.append(False)
    return _changed[0]


def _script(rs, xo, den, shape):
    """boundary-seeking draws in [0,1), all multiples of 1/den; column j is compared with xo[j].
    Exact 0.0, the tie r == xoprob (no crossover), one step below the tie (crossover), and -- the values
    tolerance-style rewrites (isclose / eps / clip) trip over -- tiny positive draws (2^-53 .. ~1e-5)"""
    if len(shape) != 2 or shape[1] != len(xo):
        # the code asks for draws of a shape other than (gametes, markers) (a rewrite that draws transposed /
        # flat / per chromosome): boundary seeking against xoprob[j] is meaningless, deliver plain multiples of
        # 1/den; the model will not accept these shapes, so the difference shows as a correspondence failure
        # while the Spec is still evaluated on what the code returns
        flat = [rs.randrange(den) / den for _ in range(int(numpy.prod(shape)))]
        return numpy.array(flat, dtype=float).reshape(shape)
    n, m = shape
    out = numpy.empty(shape, dtype=float)
    tiny = [Fraction(1, den)] + [Fraction(1, 2 ** k) for k in (50, 40, 30, 27, 17) if den % (2 ** k) == 0]
    for i in range(n):
        for j in range(m):
            x = Fraction(xo[j])
            t = rs.random()
            if t < 0.22:
                v = Fraction(0)
            elif t < 0.40:
                v = x                                     # tie  r == xoprob  (no crossover)
            elif t < 0.54:
                v = x - Fraction(1, den)                  # one step below the tie (crossover)
            elif t < 0.62:
                v = rs.choice(tiny)                       # tiny but positive
            elif t < 0.66:
                v = x + rs.choice(tiny)                   # just above the tie (no crossover)
            else:
                v = Fraction(rs.randrange(den), den)
            if not (0 <= v < 1):
                v = Fraction(rs.randrange(den), den)
            out[i, j] = float(v)
    return out


class _RecGen(numpy.random.Generator):
    """numpy Generator whose unit-interval draws (`uniform`, `random`) are logged (and optionally scripted)"""

    def __init__(self, bitgen, script=None):
        super().__init__(bitgen)
        self.log = []
        self.calls = []
        self._script = script

    def uniform(self, low=0.0, high=1.0, size=None):
        self.calls.append((float(low), float(high), tuple(size) if size is not None else None))
        if self._script is None:
            x = super().uniform(low, high, size)
        else:
            x = self._script(tuple(size))
        self.log.append(numpy.array(x, dtype=float).copy())
        return x

    def random(self, size=None, dtype=numpy.float64, out=None):
        shape = tuple(size) if isinstance(size, (tuple, list)) else (None if size is None else (int(size),))
        self.calls.append((0.0, 1.0, shape))
        if self._script is None or shape is None:
            x = super().random(size, dtype=dtype, out=out)
        else:
            x = numpy.asarray(self._script(shape)).astype(dtype)
            if out is not None:
                out[...] = x
                x = out
        self.log.append(numpy.array(x, dtype=float).copy())
        return x


class _RecRS(numpy.random.RandomState):
    """RandomState whose `uniform` / `random_sample` (= `random`, `rand`) draws are logged (optionally scripted)"""

    def __init__(self, seed, script=None):
        super().__init__(seed)
        self.log = []
        self.calls = []
        self._script = script

    def uniform(self, low=0.0, high=1.0, size=None):
        self.calls.append((float(low), float(high), tuple(size) if size is not None else None))
        if self._script is None:
            x = super().uniform(low, high, size)
        else:
            x = self._script(tuple(size))
        self.log.append(numpy.array(x, dtype=float).copy())
        return x

    def random_sample(self, size=None):
        shape = tuple(size) if isinstance(size, (tuple, list)) else (None if size is None else (int(size),))
        self.calls.append((0.0, 1.0, shape))
        if self._script is None or shape is None:
            x = super().random_sample(size)
        else:
            x = self._script(shape)
        self.log.append(numpy.array(x, dtype=float).copy())
        return x


def _make_rng(spec, xo):
    """`xo` is either the list of crossover probabilities or a holder {"xo": [...]} that a history updates
    before each call (scripted draws seek the ties of the probabilities in force)"""
    hold = xo if isinstance(xo, dict) else {"xo": xo}
    mode = spec["mode"]
    if mode == "pcg64":
        return _RecGen(numpy.random.PCG64(spec["seed"])), TWO53
    if mode == "mt19937":
        return _RecGen(numpy.random.MT19937(spec["seed"])), TWO53
    if mode == "randomstate":
        return _RecRS(spec["seed"]), TWO53
    if mode == "explicit":
        mats = [numpy.array(m, dtype=float).reshape(len(m), len(hold["xo"])) / spec["den"] for m in spec["mats"]]
        it = iter(mats)

        def nxt(shape):
            m = next(it, None)
            if m is None or m.shape != tuple(shape):
                # the code requests other shapes / more draws than the case scripts (a rewrite of the draw
                # pattern): no crossover anywhere from here on (draw 1 - 1/den is below no probability < 1 ... and
                # ties with xoprob = 1 only); reported through the correspondence, not as an exception
                return numpy.full(tuple(shape), (spec["den"] - 1) / spec["den"], dtype=float)
            return m
        return _RecGen(numpy.random.PCG64(0), script=nxt), spec["den"]
    if mode == "const":
        # call k of uniform returns a matrix whose entries all equal vals[k % len(vals)] / den
        state = {"k": 0}

        def const(shape):
            v = spec["vals"][state["k"] % len(spec["vals"])] / spec["den"]
            state["k"] += 1
            return numpy.full(shape, v, dtype=float)
        return _RecGen(numpy.random.PCG64(0), script=const), spec["den"]
    if mode in ("scripted", "scripted_rs"):
        rs = random.Random(spec["seed"])
        den = spec["den"]
        fn = lambda shape: _script(rs, hold["xo"], den, shape)
        if mode == "scripted_rs":
            return _RecRS(0, script=fn), den
        return _RecGen(numpy.random.PCG64(0), script=fn), den
    raise ValueError(mode)


def _draws_json(log, den):
    out = []
    for m in log:
        rows = []
        for r in numpy.atleast_2d(m):
            row = []
            for v in r:
                q = Fraction(float(v)) * den
                if q.denominator != 1:
                    raise RuntimeError(f"draw {v!r} is not a multiple of 1/{den}")
                row.append(int(q))
            rows.append(row)
        if m.size == 0:
            rows = [[] for _ in range(m.shape[0])]
        out.append(rows)
    return out


def _fr(x):
    return Fraction(x)


def _obj(a):
    return numpy.array(a, dtype=object)


def _same(a, b):
    if a is None or b is None:
        return a is None and b is None
    a = numpy.asarray(a)
    b = numpy.asarray(b)
    if a.shape != b.shape:
        return False
    if a.dtype.kind == "f" and b.dtype.kind == "f":
        return bool(numpy.array_equal(a, b, equal_nan=True))
    return bool(numpy.array_equal(a, b))


def _build_pgmat(case):
    D = _mods()["D"]
    mat = _layout(numpy.array(case["geno"], dtype="int8"), case.get("gorder", "C"))
    ntaxa, nv = mat.shape[1], mat.shape[2]
    xo = _layout(numpy.array([float(_fr(v)) for v in case["xo"]], dtype=float), case.get("xoorder", "C"))
    meta = case.get("meta", "full")
    kw = {}
    if meta in ("unsorted", "chr3"):
        # "unsorted": variants neither sorted nor grouped (chromosome labels interleaved, positions descending); the
        #   matrix is used as it is (no group_vrnt()): the progeny must carry exactly this order and no group arrays.
        # "chr3": several chromosomes, single-marker ones included (sizes in case["chr"]), grouped.
        if meta == "unsorted":
            chrgrp = [[2, 1, 3, 1, 2][j % 5] for j in range(nv)]
            phypos = [100 * nv - 13 * j for j in range(nv)]
        else:
            chrgrp = [k + 1 for k, n in enumerate(case["chr"]) for _ in range(n)]
            phypos = [5 * j + 2 for j in range(nv)]
        kw.update(
            vrnt_chrgrp=numpy.array(chrgrp, dtype="int64"),
            vrnt_phypos=numpy.array(phypos, dtype="int64"),
            vrnt_name=_obj([f"v{(7 * j) % 1000:03d}_{j}" for j in range(nv)]),
            vrnt_genpos=numpy.array([((11 * j) % 17) / 16.0 for j in range(nv)], dtype=float) if meta == "unsorted"
            else numpy.arange(nv, dtype=float) / 4.0,
            vrnt_hapgrp=numpy.array([(3 * j) % 5 for j in range(nv)], dtype="int64"),
            vrnt_mask=numpy.array([(j % 2) == 0 for j in range(nv)], dtype=bool),
            vrnt_hapalt=_obj(["ACGT"[(j + 1) % 4] for j in range(nv)]),
            vrnt_hapref=_obj(["TGCA"[(j + 2) % 4] for j in range(nv)]),
        )
    elif meta != "none":
        # two chromosome groups, already sorted, so that group_vrnt() is the identity permutation
        half = (nv + 1) // 2
        kw.update(
            vrnt_chrgrp=numpy.array([1] * half + [2] * (nv - half), dtype="int64"),
            vrnt_phypos=numpy.arange(nv, dtype="int64") * 7 + 3,
            vrnt_name=_obj([f"m{j:03d}" for j in range(nv)]),
            vrnt_genpos=numpy.arange(nv, dtype=float) / 8.0,
            vrnt_hapgrp=numpy.arange(nv, dtype="int64")[::-1].copy(),
            vrnt_mask=numpy.array([(j % 3) != 0 for j in range(nv)], dtype=bool),
        )
    if meta == "alleles":
        kw.update(vrnt_hapalt=_obj(["ACGT"[j % 4] for j in range(nv)]),
                  vrnt_hapref=_obj(["TGCA"[j % 4] for j in range(nv)]))
    gdt = case.get("gdtype", "int64")                         # dtype in which the PARENTS store their family labels
    if case.get("vdtype") and "vrnt_chrgrp" in kw:            # narrow integer dtypes of the variant metadata
        d1, d2 = case["vdtype"]
        kw["vrnt_chrgrp"] = kw["vrnt_chrgrp"].astype(d1)
        kw["vrnt_phypos"] = kw["vrnt_phypos"].astype(d2)
        kw["vrnt_hapgrp"] = kw["vrnt_hapgrp"].astype(d2)
    ptaxa = "bare" if case.get("bare_taxa") else case.get("ptaxa", "both")
    if ptaxa == "bare":
        g = D(mat=mat, vrnt_xoprob=xo, **kw)                  # parents without names / groups
    elif ptaxa == "names":                                    # names, no family labels
        g = D(mat=mat, taxa=_obj([f"par{t:02d}" for t in range(ntaxa)]), vrnt_xoprob=xo, **kw)
    elif ptaxa == "unsorted":                                 # family labels neither sorted nor grouped, duplicate names
        g = D(mat=mat, taxa=_obj([f"par{(5 * t) % 3:02d}" for t in range(ntaxa)]),
              taxa_grp=numpy.array([(7 * t + 2) % 3 for t in range(ntaxa)], dtype=gdt), vrnt_xoprob=xo, **kw)
    else:
        g = D(mat=mat, taxa=_obj([f"par{t:02d}" for t in range(ntaxa)]),
              taxa_grp=numpy.array([(t // 2) % 100 if "gdtype" in case else t // 2 for t in range(ntaxa)], dtype=gdt),
              vrnt_xoprob=xo, **kw)
    if meta not in ("none", "unsorted") and nv > 0:
        g.group_vrnt()
    if case.get("pgrouped") and ptaxa == "both":
        g.group_taxa()          # labels t // 2 and names par00, par01, ... are sorted already: the row order stays, the
        #                         parents now carry taxa_grp_name / _stix / _spix / _len (as every progeny matrix does)
    return g, xo


def _layout(a, order):
    """the same values in another memory layout: Fortran order, or a non-contiguous view of a larger buffer"""
    if order == "F":
        return numpy.asfortranarray(a)
    if order == "view":
        big = numpy.full(tuple(2 * n + 1 for n in a.shape), 77, dtype=a.dtype)
        v = big[tuple(slice(1, None, 2) for _ in a.shape)]
        v[...] = a
        return v
    if order == "rev":
        return numpy.ascontiguousarray(a[..., ::-1])[..., ::-1]
    return numpy.ascontiguousarray(a)


def _counts(v, cdtype):
    """nmating / nprogeny as the case prescribes: Python int, numpy integer scalar, or array of a given dtype"""
    if isinstance(v, int):
        return v if cdtype is None else getattr(numpy, cdtype)(v)
    return numpy.array(v, dtype=cdtype or "int64")


def _meta_json(obj):
    """the thirteen marker-metadata arrays in the driver's canonical encoding (None -> null)"""
    return {f: (None if getattr(obj, f) is None else canon.enc(numpy.asarray(getattr(obj, f)))) for f in VRNT_FIELDS}


def _snapshot(g):
    s = {"mat": g.mat.copy(), "taxa": copy.deepcopy(g.taxa), "taxa_grp": copy.deepcopy(g.taxa_grp)}
    for f in VRNT_FIELDS:
        s[f] = copy.deepcopy(getattr(g, f))
    return s


# ---------------------------------------------------------------------------------- python Spec for the utilities
def _mosaic(srcs, xo, out):
    """exact decidable mosaic test (same recurrence as Mating.mosaicDP)"""
    if any(len(s) != len(out) for s in srcs) or len(xo) != len(out) or not srcs:
        return False
    reach = [True] * len(srcs)
    for j, a in enumerate(out):
        anyr = any(reach)
        reach = [(s[j] == a) and (reach[k] or (xo[j] > 0 and anyr)) for k, s in enumerate(srcs)]
    return any(reach)


class C01(Prop):
    PID = "C01"
    MODULE = "PybropsModel.Props.C01"
    N_QUICK = 600
    N_THOROUGH = 6000
    RULE = ("all seven protocols through the public mate(): 1-8 parents x 1-24 markers, allele codes unique per "
            "(taxon, phase[, marker]), arbitrary int8 incl. -128/127, biallelic, or partly inbred (homozygous runs next to "
            "heterozygous ones); xconfig with selfs, repeated parents and repeated crosses, parents addressed from the end "
            "(negative indices), 0-4 crosses; scalar and per-cross array counts incl. zeros and unequal entries; nself 0-3; "
            "xoprob with exact 0 / 0.5 / 1 and tiny (2^-52 .. 2^-17, 1-2^-53) entries; counters incl. the 10^7 name-width "
            "rollover; genuine PCG64 / MT19937 / RandomState streams and scripted Generator / RandomState draws (exact 0.0, "
            "ties r == xoprob, one step below / above, tiny positive 2^-53 .. 2^-17) delivered through uniform() AND random() / "
            "random_sample() (float32 requests included).  Round-3 kinds: `hist` = 2-3 mate() calls on ONE protocol object with "
            "the parental matrix replaced / kept / edited in place (genotypes overwritten, vrnt_xoprob re-assigned or "
            "overwritten) and the xconfig array re-used after an in-place edit, every earlier result re-inspected at the end; "
            "aliasing probes (write into the progeny matrix, inspect the parents, and vice versa); `narrow` = xconfig in "
            "int8 / uint8 / int16 with more matings / rows than the dtype counts (129-139, 257-267); `wide` = 129-300 candidate "
            "taxa with parents beyond index 127 / 255; `long` = 1025-2050 markers with crossovers next to block boundaries; "
            ">1024 crosses, >4096 gametes in one meiosis call; rarely used argument forms (xconfig / count dtypes int8..uint64, "
            "Fortran-ordered / strided / reversed xconfig and genotype arrays, numpy scalar counts and nself, miscout, "
            "rng=None -> global_prng, parents without names); a 5 % stream of inputs the code must reject; the mat_* / dense_* "
            "utilities directly (dense_* against the buffer-level model of core/util/mate.py, from-the-end and narrow-dtype "
            "selections, partly inbred parents).  Round-4 kinds: count arrays of a narrow dtype whose per-cross product "
            "exceeds the dtype (D70 regression: 132 / 256 / 260 / 381 / 510 progeny from int8 / uint8 counts, 33124 from int16) "
            "and > 32767 lines to self; variant metadata neither sorted nor grouped (no group arrays), 3-6 chromosomes incl. "
            "single-marker ones (with and without 0.5 at chromosome starts), vrnt_xoprob as a strided / reversed float64 view, "
            "parents with names but no family labels / unsorted labels and duplicate names, constructor keywords through "
            "mate(**kwargs), selfing depth 4-8.  Round-5 kinds: the PARENTS keep their family labels (taxa_grp) in int8 / uint8 / int16 / "
            "uint16 / int32 / uint32 / uint64 while the family counter stands at, just below or beyond the limit of that dtype "
            "(126 / 127 / 254 / 32766 / 2^31-2 / 2^32-1 / twice the limit), variant metadata (chrgrp / phypos / hapgrp) in "
            "narrow integer dtypes; `cycle` histories = 4-7 mate() calls with 15-50 crosses each on ONE object so that the "
            "family counter grows from 0-20 past 127 / 255 (parents' labels int8 / uint8 / int16, some cycles use the previous "
            "progeny as parents); counters given as numpy.int64 / int32 scalars; progeny / family counters 2^31-2, 2^32-3, "
            "2^53+1; parents that are a grouped matrix (group_taxa() called: taxa_grp_name / _stix / _spix / _len present) with "
            "labels reaching the family counter.  Non-trivial = at least one crossover drawn, at least one progeny and a cross "
            "with two distinct parents (or a heterozygous selfed parent)")
    TRUSTED = ["numpy.repeat / arange / stack / lexsort / unique as modelled (Np.repeatEach, Np.arange, List.zip, "
               "Np.stableSort, Np.uniqueRuns); Python str order = code-point lexicographic order",
               "numpy Generator / RandomState: unit-interval draws are multiples of 2^-53 in [0,1); the model takes the "
               "recorded draws as input (a recording subclass logs uniform / random / random_sample)",
               "DensePhasedGenotypeMatrix constructor and group_taxa() (modelled as the stable (family, name) sort + unique runs)",
               "heap model (Model/MateHeap.lean): 'numpy.empty / numpy.stack / fancy indexing return fresh arrays, basic slices "
               "assigned by mat_meiosis target only the buffer it allocated' is read off the source, the snapshot and "
               "aliasing probes of every case test it on the real objects"]
    ASSUMPTIONS = ["diploid input (two phases); selection indices in [-ntaxa, ntaxa) (numpy's index rule is modelled by wrapIdx)",
                   "progeny/family counters are non-negative; every per-cross product nmating*nprogeny below 2^63 (the code "
                   "forms it in int64; exact for every count dtype of at most 32 bits: count_product_exact)",
                   "generation order of names is demanded only while progeny_counter + count <= 10^7 (7-digit zero fill); "
                   "beyond that the Spec demands a permutation with every name in its family, the model (and "
                   "order_characterised) the string-sorted arrangement (see order_preserved_counterexample)",
                   "family labels are demanded as the NUMBERS family_counter + cross index whatever integer dtype the progeny "
                   "matrix stores them in and whatever dtype the parents use; fc + ncross <= 2^63 (the code stores int64: "
                   "family_labels_int64_exact_partial).  The dtype of the parents' labels / variant metadata, numpy-scalar "
                   "counters and grouped parents have no counterpart in the Lean model (the code ignores them; the model takes "
                   "numbers): for these classes the evidence is correspondence + Spec on the real objects only; histories are "
                   "in the model (Mating.mateSeq, history_calls)",
                   "aliasing between the progeny matrix and the parental matrix, and a later call changing an earlier "
                   "result, count as violations (a progeny that changes after it was returned is no longer the mosaic it was)"]
    _mask_known = False      # set while a self-test mutant runs: the known finding must not count as a kill
    _scope = None            # while a self-test mutant runs: (kinds it can affect or None = all, about sizes?)
    _obs_memo = {}           # id(case) -> (case, observation on the unmutated code, running number, heavy?)
    _memo_n = 0
    _ncorpus = 0
    _first = None

    # ------------------------------------------------------------------ generation
    @staticmethod
    def _mk(proto, geno, xo, xconfig, nmating, nprogeny, nself, pc, fc, rng, meta="full"):
        return {"kind": proto, "geno": geno, "xo": canon.enc(xo), "xconfig": xconfig, "nmating": nmating,
                "nprogeny": nprogeny, "nself": nself, "pc": pc, "fc": fc, "rng": rng, "meta": meta}

    @staticmethod
    def _geno(rng, ntaxa, nv, style):
        g = [[[0] * nv for _ in range(ntaxa)] for _ in range(2)]
        for p in range(2):
            for t in range(ntaxa):
                for j in range(nv):
                    if style == "copy":            # provenance fully observable
                        v = 2 * t + p - 128
                    elif style == "cell":          # every cell distinct (needs 2*ntaxa*nv <= 256)
                        v = (p * ntaxa + t) * nv + j - 128
                    elif style == "biallelic":
                        v = rng.randint(0, 1)
                    elif style == "partinbred":    # homozygous at some loci (own code), heterozygous at others
                        v = 2 * t + p - 128
                    elif style == "wide":          # (taxon, copy) written in base 256 over the markers (ntaxa > 127)
                        v = ((2 * t + p) // (256 ** (j % 2))) % 256 - 128
                    else:
                        v = rng.choice([-128, 127, -1, 0, 1, rng.randint(-128, 127)])
                    g[p][t][j] = v
        if style == "partinbred":
            for t in range(ntaxa):
                run = rng.random() < 0.5
                for j in range(nv):
                    if rng.random() < 0.35:
                        run = not run
                    if run:
                        g[1][t][j] = g[0][t][j]
        return g

    @staticmethod
    def _xo(rng, nv, den, tiny=False):
        style = rng.random()
        out = []
        for j in range(nv):
            if tiny:       # magnitudes at which isclose / eps / clip style rewrites change the verdict of r < xoprob
                v = rng.choice([Fraction(0), Fraction(0), Fraction(1, 2 ** 52), Fraction(1, 2 ** 30), Fraction(1, 2 ** 27),
                                Fraction(1, 2 ** 17), Fraction(1, 2), Fraction(1), Fraction(1) - Fraction(1, 2 ** 53)])
                out.append(v)
                continue
            if style < 0.1:
                v = Fraction(0)
            elif style < 0.2:
                v = Fraction(1, 2)
            else:
                v = rng.choice([Fraction(0), Fraction(0), Fraction(1, 2), Fraction(1, 4), Fraction(1, 8),
                                Fraction(3, 4), Fraction(1), Fraction(rng.randrange(den // 2), den)])
            if j == 0 and style >= 0.2 and rng.random() < 0.6:
                v = Fraction(1, 2)
            out.append(v)
        return out

    def _case(self, rng, proto=None, tier="quick", plain=False):
        proto = proto or rng.choice(list(PROTOS))
        npar = PROTOS[proto][1]
        mode = rng.choice(["scripted", "scripted", "scripted_rs", "pcg64", "mt19937", "randomstate"])
        big = tier == "thorough" and rng.random() < 0.3
        ntaxa = rng.choice([1, 2, 3, 4, 5, 6, 8] + ([12] if big else []))
        nv = rng.choice(([1, 2, 3, 5, 8, 12, 24] + ([30] if big else [])) if mode.startswith("scripted") else [1, 2, 4, 6, 9])
        nself = rng.choice([0, 0, 0, 1, 1, 2, 3])
        if rng.random() < 0.04:
            nself = rng.choice([4, 5, 6, 8])                  # deep single-seed descent (per-copy test only)
        if nself in (1, 2) and proto in ("4w", "4wdh", "3wdh"):
            nv = min(nv, 8 if nself == 1 else 5)              # joint pedigree test: 2^9 .. 2^11 hidden states per marker
        gs = rng.choice(["copy", "copy", "cell", "biallelic", "int8", "partinbred"])
        if gs == "cell" and 2 * ntaxa * nv > 256:
            gs = "copy"
        tiny = mode.startswith("scripted") and rng.random() < 0.25
        den = TWO53 if tiny else 64
        geno = self._geno(rng, ntaxa, nv, gs)
        xo = self._xo(rng, nv, den, tiny)
        ncross = rng.choice([0, 1, 1, 2, 2, 3, 4] + ([5, 6] if big else []))
        xc = []
        for _ in range(ncross):
            r = rng.random()
            if r < 0.15:
                row = [rng.randrange(ntaxa)] * npar                  # self / all parents equal
            elif r < 0.3 and xc:
                row = list(rng.choice(xc))                           # repeated cross
            elif ntaxa >= npar and r < 0.8:
                row = rng.sample(range(ntaxa), npar)                 # distinct parents
            else:
                row = [rng.randrange(ntaxa) for _ in range(npar)]
            xc.append(row)
        neg = rng.random() < 0.2
        if neg:                                                      # numpy index rule: -k names taxon ntaxa-k
            xc = [[v - ntaxa if rng.random() < 0.5 else v for v in row] for row in xc]

        def cnt(hi):
            if rng.random() < 0.45:
                return rng.randint(0 if rng.random() < 0.1 else 1, hi)
            return [rng.randint(0 if rng.random() < 0.2 else 1, hi) for _ in range(ncross)]
        nmating, nprogeny = cnt(4 if big else 3), cnt(4 if big else 3)
        r = rng.random()
        if r < 0.7:
            pc = rng.randint(0, 60)
        elif r < 0.9:
            pc = 10 ** 7 - rng.randint(0, 12)
        else:
            pc = rng.choice([10 ** 7 + rng.randint(0, 5), 99999995, 123456789, 2 ** 31 - 2, 2 ** 32 - 3, 2 ** 53 + 1])
        fc = rng.choice([0, 0, 1, 7, 98, 126, 254, 10 ** 6, 2 ** 31 - 1, 2 ** 32 - 2, 2 ** 53 + 1])
        spec = {"mode": mode, "seed": rng.randrange(2 ** 31)}
        if mode.startswith("scripted"):
            spec["den"] = den
        meta = rng.choice(["full"] * 7 + ["none", "none", "alleles", "unsorted", "unsorted", "chr3", "chr3"])
        c = self._mk(proto, geno, xo, xc, nmating, nprogeny, nself, pc, fc, spec, meta)
        if meta == "chr3":
            c["chr"] = self._chr_sizes(rng, nv)
            if rng.random() < 0.5:                            # independent assortment written into xoprob
                st, xs = 0, list(xo)
                for n_ in c["chr"]:
                    xs[st] = Fraction(1, 2)
                    st += n_
                c["xo"] = canon.enc(xs)
        if rng.random() < 0.3:
            self._label_dtype(rng, c)
        if rng.random() < 0.2:
            c["pgrouped"] = True       # the parents are a GROUPED matrix (taxa_grp_name / _stix / _spix / _len present)
        if not plain and rng.random() < 0.4:
            self._options(rng, c, neg)
        return c

    GDTYPES = ["int8", "int8", "int8", "uint8", "uint8", "int16", "uint16", "int32", "uint32", "uint64", "int64"]

    @classmethod
    def _label_dtype(cls, rng, c):
        """round 5: the PARENTS store their family labels in a narrow integer dtype (any integer dtype is legal for
        taxa_grp) while the family counter of the protocol object stands next to / beyond the range of that dtype: the
        labels of the progeny are family_counter + cross index whatever the parents' labels look like"""
        gdt = rng.choice(cls.GDTYPES)
        c["gdtype"] = gdt
        lim = int(numpy.iinfo(gdt).max)
        r = rng.random()
        if gdt not in ("int64", "uint64") and r < 0.7:
            c["fc"] = max(0, lim - rng.randint(-2, 3))           # the labels of this call cross (or lie beyond) the limit
        elif gdt not in ("int64", "uint64") and r < 0.8:
            c["fc"] = 2 * (lim + 1) + rng.randint(0, 5)           # beyond the unsigned range of the same width as well
        if rng.random() < 0.3 and c.get("meta") != "none":
            c["vdtype"] = rng.choice([["int8", "int16"], ["uint8", "int32"], ["int16", "uint16"], ["int32", "uint32"]])

    @staticmethod
    def _chr_sizes(rng, nv):
        """a partition of the markers into chromosomes, single-marker chromosomes included"""
        out, left = [], nv
        while left > 0:
            n = min(left, rng.choice([1, 1, 2, 3, 5]))
            out.append(n)
            left -= n
        return out

    @staticmethod
    def _options(rng, c, neg):
        """rarely used argument forms: index / count dtypes, memory layouts, numpy scalars, miscout, rng=None,
        parents without names"""
        if rng.random() < 0.6:
            c["xdtype"] = rng.choice(["int8", "int16", "int32"] + ([] if neg else ["uint8", "uint16", "uint32", "uint64"]))
        if rng.random() < 0.5:
            c["xorder"] = rng.choice(["F", "F", "view", "rev"])
        if rng.random() < 0.5:
            c["cdtype"] = rng.choice(["int8", "uint8", "int16", "int32", "uint32", "int64"])
        if rng.random() < 0.35:
            c["gorder"] = rng.choice(["F", "F", "view", "rev"])
        if rng.random() < 0.2:
            c["nself_np"] = True
        if rng.random() < 0.2:
            c["miscout"] = True
        if rng.random() < 0.15:
            c["rng_none"] = True
        if rng.random() < 0.15:
            c["bare_taxa"] = True
        elif rng.random() < 0.2:
            c["ptaxa"] = rng.choice(["names", "unsorted"])
        if rng.random() < 0.25:
            c["xoorder"] = rng.choice(["view", "rev"])
        if rng.random() < 0.15:
            c["ctor_kwargs"] = True
        if rng.random() < 0.2:
            c["ctr_np"] = rng.choice(["int64", "int32"])

    def _narrow_case(self, rng, proto=None, force=None):
        """xconfig stored in a narrow integer dtype and more matings / progeny / candidate taxa than that dtype
        can count: positional index arrays built `like` the parental selections wrap around (int8: 128 -> -128,
        uint8: 256 -> 0).  The rows past the limit belong to the LAST cross and a wrapped index lands in the FIRST
        cross; the two have disjoint parents with distinct allele codes, so a wrapped row shows foreign alleles."""
        proto = proto or rng.choice(list(PROTOS))
        npar = PROTOS[proto][1]
        xdtype, lim = rng.choice([("int8", 127), ("int8", 127), ("uint8", 255), ("uint8", 255), ("int16", 127)])
        if force:
            xdtype, lim = force
        ntaxa = 8
        nv = rng.choice([1, 1, 2, 3])
        geno = self._geno(rng, ntaxa, nv, "copy")
        xo = [Fraction(1, 2)] + [rng.choice([Fraction(0), Fraction(1, 4), Fraction(1, 2)]) for _ in range(nv - 1)]
        ncross = rng.choice([2, 3, 4, 5])
        first = list(range(npar))
        last = list(range(npar, 2 * npar)) if 2 * npar <= ntaxa else [ntaxa - 1 - k for k in range(npar)]
        if npar == 1:
            first, last = [0], [ntaxa - 1]
        xc = [first] + [rng.sample(range(ntaxa), npar) for _ in range(ncross - 2)] + [last]
        target = lim + rng.randint(6, 30)                     # total number of matings: past the limit
        over = target - lim
        base = target // ncross
        nmating = [base] * ncross
        nmating[-1] += target - base * ncross
        if rng.random() < 0.5 and ncross > 2:                 # unequal entries (first and last cross stay large)
            d = rng.randint(1, base - 1)
            nmating[1] -= d
            nmating[0 if rng.random() < 0.5 else -1] += d
        assert nmating[-1] >= over and nmating[0] >= over + 1
        nprogeny = rng.choice([1, 1, [rng.randint(1, 2) for _ in range(ncross)]])
        if proto in ("self", "2w"):                           # one meiosis pair per progeny: matings x progeny rows
            nself = rng.choice([1, 1, 2])
        else:
            nself = rng.choice([0, 0, 1])
        spec = {"mode": rng.choice(["scripted", "pcg64", "randomstate"]), "seed": rng.randrange(2 ** 31), "den": 64}
        c = self._mk(proto, geno, xo, xc, nmating, nprogeny, nself, rng.randint(0, 50), rng.choice([0, 3]), spec,
                     rng.choice(["full", "none"]))
        c["xdtype"] = xdtype
        if rng.random() < 0.3:
            c["cdtype"] = rng.choice(["int16", "int32", "uint16"])
        return c

    def _wide_case(self, rng, proto=None):
        """more candidate taxa than an int8 / uint8 index can address; parents taken from both ends"""
        proto = proto or rng.choice(list(PROTOS))
        npar = PROTOS[proto][1]
        ntaxa = rng.choice([129, 130, 200, 257, 300])
        nv = rng.choice([2, 3, 4])
        geno = self._geno(rng, ntaxa, nv, "wide")
        xo = [Fraction(1, 2)] + [Fraction(0)] * (nv - 1)       # whole haplotypes: the (taxon, copy) code stays readable
        if rng.random() < 0.3:
            xo[-1] = Fraction(1, 4)
        hi = [t for t in range(ntaxa) if t >= 128]
        ncross = rng.choice([1, 2, 3])
        xc = []
        for _ in range(ncross):
            row = [rng.choice(hi) if rng.random() < 0.7 else rng.randrange(ntaxa) for _ in range(npar)]
            if rng.random() < 0.3:
                row = [v - ntaxa if rng.random() < 0.5 else v for v in row]
            xc.append(row)
        spec = {"mode": rng.choice(["scripted", "pcg64"]), "seed": rng.randrange(2 ** 31), "den": 64}
        c = self._mk(proto, geno, xo, xc, rng.choice([1, 2]), rng.choice([1, 2, [rng.randint(1, 2) for _ in range(ncross)]]),
                     rng.choice([0, 0, 1]), rng.randint(0, 50), 0, spec, "none")
        if rng.random() < 0.5:
            c["xdtype"] = rng.choice(["int16", "int32", "uint16"] if all(v >= 0 for r in xc for v in r) else ["int16", "int32"])
        return c

    def _long_case(self, rng, proto=None, nv=None):
        """more markers than a column-chunked rewrite of the copy loop handles in one block (1024 / 4096)"""
        proto = proto or rng.choice(["2w", "self", "2wdh", "3w"])
        npar = PROTOS[proto][1]
        nv = nv or rng.choice([1025, 1030, 2050])
        ntaxa = 3
        geno = self._geno(rng, ntaxa, nv, "copy")
        # sparse crossovers: probability 1/2 at a few markers next to (never at) the multiples of 64 where a block
        # of a chunked rewrite could start, 0 elsewhere: a phase that restarts at a block start is an illegal switch
        hot = {0, 3, 1023, 1025, nv - 1, 4095, 4097} | {rng.randrange(nv) | 1 for _ in range(6)}
        xo = [Fraction(1, 2) if (j in hot and (j % 64 or j == 0)) else Fraction(0) for j in range(nv)]
        xc = [rng.sample(range(ntaxa), npar) if npar <= ntaxa else [rng.randrange(ntaxa) for _ in range(npar)]]
        spec = {"mode": "pcg64", "seed": rng.randrange(2 ** 31)}
        return self._mk(proto, geno, xo, xc, 1, rng.choice([2, 3]), rng.choice([0, 1]), 0, 0, spec, "none")

    @staticmethod
    def _count(st):
        n = len(st["xconfig"])
        nm = st["nmating"] if isinstance(st["nmating"], list) else [st["nmating"]] * n
        npg = st["nprogeny"] if isinstance(st["nprogeny"], list) else [st["nprogeny"]] * n
        return sum(a * b for a, b in zip(nm, npg))

    def _hist_case(self, rng, proto=None):
        """two or three mate() calls on one protocol object, with the parental matrix replaced / kept / edited in
        place between the calls (same shapes, different content: whatever the object remembers is stale)"""
        proto = proto or rng.choice(list(PROTOS))
        npar = PROTOS[proto][1]
        first = self._case(rng, proto, plain=True)
        while not first["xconfig"]:
            first = self._case(rng, proto, plain=True)
        ntaxa, nv = len(first["geno"][0]), len(first["xo"])
        den = first["rng"].get("den", 64)
        steps = []
        for k in range(rng.choice([2, 2, 3])):
            if k == 0:
                st = {f: first[f] for f in ("geno", "xo", "xconfig", "nmating", "nprogeny", "nself", "meta", "chr", "gdtype",
                                            "vdtype", "pgrouped") if f in first}
            else:
                prev = steps[-1]
                pcount = self._count(prev)
                how = rng.choice(["new", "same", "inplace", "inplace"] + (["chain", "chain"] if pcount >= 1 else []))
                st = dict(prev)
                st["reuse"] = how
                st.pop("xreuse", None)
                if how == "chain":
                    # the progeny of the previous call are the parents of this one (recurrent use of mate());
                    # the model is given the genotypes the previous call actually returned
                    nc = rng.choice([1, 2, 2, 3])
                    st["geno"] = None
                    st["xconfig"] = [[rng.randrange(pcount) for _ in range(npar)] for _ in range(nc)]
                    st["nmating"] = rng.choice([rng.randint(1, 2), [rng.randint(1, 2) for _ in range(nc)]])
                    st["nprogeny"] = rng.choice([rng.randint(1, 2), [rng.randint(1, 2) for _ in range(nc)]])
                    st["nself"] = rng.choice([0, 0, 1])
                    steps.append(st)
                    ntaxa = pcount
                    continue
                if prev.get("reuse") == "chain" and how in ("same", "inplace"):
                    st["reuse"] = how = "new"
                if st["geno"] is None or len(st["geno"][0]) != ntaxa:
                    ntaxa = rng.choice([2, 3, 4, 5])
                    st["geno"] = self._geno(rng, ntaxa, nv, "copy")
                if how != "same":
                    gs = rng.choice(["copy", "partinbred", "int8"])
                    st["geno"] = self._geno(rng, ntaxa, nv, gs)
                    if gs == "copy":                            # same codes, other taxa: a stale matrix shows
                        perm = list(range(ntaxa))
                        rng.shuffle(perm)
                        st["geno"] = [[ph[t] for t in perm] for ph in st["geno"]]
                    # crossover probabilities move: zero where they were positive and vice versa
                    st["xo"] = canon.enc([Fraction(0) if (_fr(v) > 0 and rng.random() < 0.6) else
                                          (Fraction(1, 2) if rng.random() < 0.5 else _fr(v)) for v in prev["xo"]])
                    st["xo_assign"] = rng.random() < 0.5
                r = rng.random()
                if r < 0.6 or prev.get("reuse") == "chain":     # same shape, other parents
                    st["xconfig"] = [[rng.randrange(ntaxa) for _ in range(npar)] for _ in prev["xconfig"]]
                    st["xreuse"] = rng.random() < 0.5
                    if isinstance(prev["nmating"], list) and rng.random() < 0.5:
                        st["nmating"] = [rng.randint(1, 3) for _ in prev["xconfig"]]
                    if rng.random() < 0.3:
                        st["nprogeny"] = rng.randint(1, 3)
                elif r < 0.8:                                   # another number of crosses
                    nc = rng.choice([1, 2, 3])
                    st["xconfig"] = [[rng.randrange(ntaxa) for _ in range(npar)] for _ in range(nc)]
                    st["nmating"] = rng.choice([rng.randint(1, 2), [rng.randint(1, 2) for _ in range(nc)]])
                    st["nprogeny"] = rng.choice([rng.randint(1, 2), [rng.randint(1, 2) for _ in range(nc)]])
                if rng.random() < 0.3:
                    st["nself"] = rng.choice([0, 1, 2])
                st["prime"] = rng.random() < 0.4
            steps.append(st)
        c = {"kind": "hist", "proto": proto, "steps": steps, "pc": first["pc"], "fc": first["fc"], "rng": first["rng"]}
        if rng.random() < 0.15:
            c["rng_none"] = True
        if rng.random() < 0.15:
            c["ctr_np"] = rng.choice(["int64", "int32"])
        return c

    def _cycle_case(self, rng, proto=None, gdtype=None):
        """round 5: a breeding programme re-uses ONE protocol object cycle after cycle: 4-7 mate() calls with 15-50
        crosses each, so that the family counter GROWS (from a small start) past 127 / 255 during the history (and the
        progeny counter past a few hundred); the parents keep their family labels in a narrow dtype; in some cycles
        the progeny of the previous cycle are the parents of the next one (`chain`).  One or two markers keep it cheap."""
        proto = proto or rng.choice(list(PROTOS))
        npar = PROTOS[proto][1]
        gdt = gdtype or rng.choice(["int8", "int8", "uint8", "int16", "int64"])
        ntaxa = rng.choice([3, 5, 12])
        nv = rng.choice([1, 1, 2])
        xo = canon.enc([Fraction(1, 2)] + [rng.choice([Fraction(0), Fraction(1, 4)]) for _ in range(nv - 1)])
        goal = {"int8": 127, "uint8": 255}.get(gdt, rng.choice([127, 255]))
        nstep = rng.choice([4, 5, 6, 7])
        fc = rng.choice([0, 0, 3, 20])
        per = (goal + 20 - fc) // (nstep - 1) + 1          # the limit is crossed in the last but one call or earlier
        steps, pcount = [], 0
        for k in range(nstep):
            nc = max(1, per + rng.randint(-3, 3))
            chain = k > 0 and pcount >= 1 and rng.random() < 0.3
            src = pcount if chain else ntaxa
            st = {"geno": None if chain else self._geno(rng, ntaxa, nv, "copy"), "xo": xo,
                  "xconfig": [[rng.randrange(src) for _ in range(npar)] for _ in range(nc)],
                  "nmating": rng.choice([1, 1, [rng.randint(1, 2) for _ in range(nc)]]),
                  "nprogeny": rng.choice([1, [rng.randint(0, 2) for _ in range(nc)], [rng.randint(1, 2) for _ in range(nc)]]),
                  "nself": rng.choice([0, 0, 0, 1]), "meta": "none", "gdtype": gdt}
            if k > 0:
                st["reuse"] = "chain" if chain else rng.choice(["new", "same"])
                if st["reuse"] == "same" and steps[-1].get("reuse") != "chain" and steps[-1]["geno"] is not None:
                    st["geno"] = steps[-1]["geno"]
                elif st["reuse"] == "same":
                    st["reuse"] = "new"
            pcount = self._count(st)
            steps.append(st)
        return {"kind": "hist", "proto": proto, "steps": steps, "pc": rng.choice([0, 5, 9999000]), "fc": fc,
                "rng": {"mode": rng.choice(["pcg64", "scripted"]), "seed": rng.randrange(2 ** 31), "den": 64}}

    def _bad_case(self, rng):
        c = self._case(rng, plain=True)
        while not c["xconfig"]:
            c = self._case(rng, plain=True)
        ntaxa = len(c["geno"][0])
        k = rng.randrange(3)
        c = dict(c)
        c["expect_error"] = True
        if rng.random() < 0.3:
            c["xdtype"] = rng.choice(["int8", "int16", "int32"])
        if k == 0:                                      # selection index outside the matrix
            c["xconfig"] = [list(r) for r in c["xconfig"]]
            c["xconfig"][rng.randrange(len(c["xconfig"]))][rng.randrange(len(c["xconfig"][0]))] = \
                rng.choice([ntaxa + rng.randint(0, 2), -ntaxa - 1 - rng.randint(0, 2)])
            c["nmating"] = 1
            c["nprogeny"] = rng.randint(1, 2)
        elif k == 1:                                    # count array of the wrong length
            c["nmating"] = [1] * (len(c["xconfig"]) + 1)
        else:                                           # xconfig of the wrong width
            c["xconfig"] = [list(r) + [0] for r in c["xconfig"]]
        return c

    def _util_case(self, rng):
        ntaxa = rng.randint(1, 5)
        nv = rng.choice([1, 2, 4, 7, 12])
        den = 64
        fn = rng.choice(["meiosis", "dh", "mate"])
        c = {"kind": "util", "fn": fn, "module": rng.choice(["util", "core"]),
             "geno": self._geno(rng, ntaxa, nv, rng.choice(["copy", "cell" if 2 * ntaxa * nv <= 256 else "copy", "int8",
                                                             "partinbred", "partinbred", "biallelic"])),
             "xo": canon.enc(self._xo(rng, nv, den)),
             "sel": [rng.randrange(ntaxa) for _ in range(rng.randint(0, 5))],
             "rng": {"mode": rng.choice(["scripted", "scripted_rs", "pcg64", "randomstate"]), "seed": rng.randrange(2 ** 31),
                     "den": den}}
        if rng.random() < 0.3:
            c["sdtype"] = rng.choice(["int8", "int16", "int32", "uint8", "uint32"])
        if rng.random() < 0.2 and c["sel"]:
            c["sel"] = [v - ntaxa if rng.random() < 0.5 else v for v in c["sel"]]        # from-the-end indices
            c["sdtype"] = rng.choice(["int8", "int64"])
        if rng.random() < 0.25:
            c["gorder"] = rng.choice(["F", "view", "rev"])
        if rng.random() < 0.2:
            c["xoorder"] = rng.choice(["view", "rev"])
        if fn == "mate":
            mt = rng.randint(1, 4)
            c["mgeno"] = self._geno(rng, mt, nv, "int8")
            c["msel"] = [rng.randrange(mt) for _ in c["sel"]]
        return c

    @staticmethod
    def _np_case(rng):
        fn = rng.choice(["repeat", "lexsort", "zfill", "mulwrap", "mul64"])
        if fn == "mul64":
            # the repaired per-cross product numpy.multiply(nmating, nprogeny, dtype="int64") on narrow count dtypes
            dt = rng.choice(["int8", "uint8", "int16", "uint16", "int32", "uint32", "int64"])
            n = rng.randint(1, 5)
            hi = int(numpy.iinfo(dt).max) if dt != "int64" else 2 ** 31
            pick = lambda: rng.choice([hi, hi - 1, rng.randint(0, hi), rng.randint(0, min(hi, 300))])
            return {"kind": "np", "fn": fn, "dtype": dt, "a": [pick() for _ in range(n)], "b": [pick() for _ in range(n)]}
        if fn == "mulwrap":
            dt = rng.choice(["int8", "uint8", "int16", "uint16"])
            n = rng.randint(1, 5)
            hi = 127 if dt == "int8" else 255 if dt == "uint8" else 400
            return {"kind": "np", "fn": fn, "dtype": dt, "bits": 8 if dt.endswith("8") else 16, "signed": not dt.startswith("u"),
                    "a": [rng.randint(0, hi) for _ in range(n)], "b": [rng.randint(0, hi) for _ in range(n)]}
        if fn == "repeat":
            n = rng.randint(0, 6)
            return {"kind": "np", "fn": fn, "counts": [rng.randint(0, 3) for _ in range(n)],
                    "vals": [rng.randint(-5, 5) for _ in range(n)]}
        if fn == "lexsort":
            n = rng.randint(0, 8)
            alpha = "0129w-Az"
            names = ["".join(rng.choice(alpha) for _ in range(rng.randint(0, 4))) for _ in range(n)]
            return {"kind": "np", "fn": fn, "names": names, "grp": [rng.randint(0, 2) for _ in range(n)]}
        return {"kind": "np", "fn": fn, "ns": [rng.choice([0, 7, 9999999, 10 ** 7, 10 ** 7 + 1, 123456789012,
                                                            rng.randrange(10 ** rng.randint(1, 20))]) for _ in range(4)]}

    def corpus(self):
        g2 = [[[1, 2, 3], [4, 5, 6]], [[11, 12, 13], [14, 15, 16]]]
        g4 = self._geno(random.Random(1), 4, 6, "cell")
        half = Fraction(1, 2)
        xo3 = [half, 0, half]
        xo6 = [half, Fraction(1, 8), 0, half, Fraction(1, 4), 0]
        sc = lambda s: {"mode": "scripted", "seed": s, "den": 64}
        out = [
            self._mk("2w", g2, xo3, [[0, 1]], 1, 2, 0, 5, 2, sc(1)),
            self._mk("self", g2, xo3, [[1]], 2, 2, 1, 0, 0, sc(2)),
            self._mk("2wdh", g4, xo6, [[0, 1], [2, 3]], [2, 1], [1, 3], 1, 0, 0, sc(3)),
            self._mk("3w", g4, xo6, [[0, 1, 2], [3, 2, 1]], [1, 2], [2, 1], 0, 3, 1, sc(4)),
            self._mk("3wdh", g4, xo6, [[0, 1, 2], [3, 2, 1]], [1, 2], [2, 1], 2, 3, 1, {"mode": "pcg64", "seed": 5}),
            self._mk("4w", g4, xo6, [[0, 1, 2, 3], [3, 2, 1, 0]], [2, 1], [1, 2], 0, 0, 0, sc(6)),
            self._mk("4wdh", g4, xo6, [[0, 1, 2, 3], [1, 1, 1, 1]], 2, [1, 2], 1, 0, 0, {"mode": "randomstate", "seed": 7}),
            # all probabilities zero, every draw zero: no crossover may happen
            self._mk("2w", g4, [0] * 6, [[0, 1], [2, 2]], 2, 2, 2, 0, 0, sc(8)),
            # zero crosses / zero counts
            self._mk("2w", g4, xo6, [], 1, 1, 0, 0, 0, sc(9)),
            self._mk("3wdh", g4, xo6, [[0, 1, 2]], [0], 3, 1, 0, 0, sc(10)),
            # the 7-digit name field overflows inside one family: group_taxa() reorders it
            self._mk("2w", g4, xo6, [[0, 1]], 2, 2, 0, 9999998, 3, sc(11)),
            self._mk("4wdh", g4, xo6, [[0, 1, 2, 3], [3, 2, 1, 0]], 2, 3, 0, 9999995, 0, sc(12)),
            # finding D18: allele metadata present on the parents
            self._mk("2w", g4, xo6, [[0, 1]], 1, 2, 0, 0, 0, sc(13), meta="alleles"),
            self._mk("3wdh", g4, xo6, [[0, 1, 2]], 1, 2, 1, 0, 0, sc(14), meta="alleles"),
        ]
        for i, k in enumerate(PROTOS):
            n = PROTOS[k][1]
            out.append(self._mk(k, g4, xo6, [list(range(n))], 1, 1, 0, 0, 0, sc(20 + i), meta="alleles"))
        # more than 4096 gametes in one mat_meiosis call (1 marker, two families of 4096 + 4 progeny, distinct
        # parents with distinct alleles): a block-wise / chunked rewrite of the draw or copy loop must keep the
        # row index global.  Call k of uniform returns a constant matrix (0 = crossover, 1/2 = tie, none).
        g1 = [[[-128], [-126], [-124], [-122]], [[-127], [-125], [-123], [-121]]]
        out.append(self._mk("2w", g1, [half], [[0, 1], [2, 3]], [1, 1], [4096, 4], 0, 0, 0,
                            {"mode": "const", "den": 64, "vals": [0, 32]}, meta="none"))
        # negative indices (numpy counts from the end) and an index below -ntaxa that is never used
        out.append(self._mk("3w", g4, xo6, [[-1, 0, -3], [2, -4, 1]], [1, 2], [2, 1], 1, 0, 0, sc(40)))
        out.append(self._mk("4wdh", g4, xo6, [[-1, -2, -3, -4], [0, 1, 2, -9]], [1, 0], [2, 3], 2, 0, 0, sc(41)))
        # --- round 3: classes of inputs the earlier generator never reached
        # (a) narrow index dtypes with more matings / rows than the dtype counts (all protocols), uint8 past 255
        for i, k in enumerate(PROTOS):
            out.append(self._narrow_case(random.Random(300 + i), k, ("int8", 127)))
        for i, k in enumerate(PROTOS):
            out.append(self._narrow_case(random.Random(310 + i), k, ("uint8", 255)))
        # (b) more candidate taxa than int8 / uint8 address
        out.append(self._wide_case(random.Random(320), "2w"))
        out.append(self._wide_case(random.Random(321), "4wdh"))
        out.append(self._wide_case(random.Random(322), "3w"))
        gw = self._geno(random.Random(324), 260, 3, "wide")
        out.append(self._mk("self", gw, [half, 0, 0], [[200], [130], [259]], [1, 2, 1], 2, 1, 0, 0, sc(324), meta="none"))
        # (c) more markers than one column block
        out.append(self._long_case(random.Random(330), "2w", 1030))
        out.append(self._long_case(random.Random(331), "2wdh", 1025))
        #     more markers than an int16 index counts (utilities only: the per-copy mosaic oracle is linear in markers)
        nv_ = 33000
        hot_ = {0, 100, 32767, 32769, 32999}
        for mod_ in ("util", "core"):
            out.append({"kind": "util", "fn": "meiosis", "module": mod_,
                        "geno": [[[((j * 7) % 100) - 128 for j in range(nv_)]], [[((j * 11) % 100) for j in range(nv_)]]],
                        "xo": canon.enc([half if j in hot_ else 0 for j in range(nv_)]), "sel": [0, 0],
                        "rng": {"mode": "pcg64", "seed": 336}})
        # (c') more crosses than 1024 (per-cross arrays with unequal entries, zeros included)
        for i, k in enumerate(["2wdh", "3w"]):
            r_ = random.Random(335 + i)
            nc_ = 1030
            out.append(self._mk(k, self._geno(r_, 5, 1, "copy"), [half],
                                [[r_.randrange(5) for _ in range(PROTOS[k][1])] for _ in range(nc_)],
                                [r_.choice([1, 1, 1, 2, 0]) for _ in range(nc_)], [r_.choice([1, 1, 2]) for _ in range(nc_)],
                                0, 0, 0, {"mode": "pcg64", "seed": 335 + i}, meta="none"))
        # (d) tiny crossover probabilities and tiny / zero draws (den 2^53), Generator and RandomState
        for i, (k, mode) in enumerate([("2w", "scripted"), ("3wdh", "scripted_rs"), ("self", "scripted"), ("4w", "scripted")]):
            r_ = random.Random(340 + i)
            nv_ = 8
            out.append(self._mk(k, self._geno(r_, 4, nv_, "cell"), self._xo(r_, nv_, TWO53, True),
                                [list(range(PROTOS[k][1])), [3, 2, 1, 0][:PROTOS[k][1]]], 2, [1, 2], i % 2, 0, 0,
                                {"mode": mode, "seed": 340 + i, "den": TWO53}))
        # (e) histories on one protocol object
        for i, k in enumerate(PROTOS):
            out.append(self._hist_case(random.Random(360 + i), k))
        #     crossover probabilities that move between two calls on one object (every draw = 1/4: crossover at every
        #     marker while xoprob = 1/2, none at all once xoprob = 0), same parents object edited in place
        g44 = self._geno(random.Random(2), 4, 4, "cell")
        for k in ("3w", "2wdh"):
            xc_ = [list(range(PROTOS[k][1])), [3, 2, 1, 0][:PROTOS[k][1]]]
            st0 = {"geno": g44, "xo": canon.enc([half] * 4), "xconfig": xc_, "nmating": 1, "nprogeny": 2, "nself": 0, "meta": "full"}
            st1 = dict(st0, xo=canon.enc([0] * 4), reuse="inplace", xo_assign=True)
            st2 = dict(st0, xo=canon.enc([0, half, 0, half]), reuse="inplace", xo_assign=False)
            out.append({"kind": "hist", "proto": k, "steps": [st0, st1, st2], "pc": 0, "fc": 0,
                        "rng": {"mode": "const", "den": 64, "vals": [16]}})
        # D70 regression (repaired: the per-cross product is formed in int64): nmating * nprogeny beyond the range of a
        # narrow count dtype (self / two-way / three-way form the product; the DH / four-way protocols never did)
        for k, cd, nm_, np_ in (("self", "uint8", [20], [13]), ("2w", "int8", [16], [16]), ("2w", "int8", [12], [11]),
                                ("3w", "uint8", [20], [13]),
                                ("2wdh", "uint8", [20], [13]), ("3wdh", "int8", [16], [16]), ("3w", "int8", [12, 3], [11, 50]),
                                ("self", "int8", [127], [3]), ("2w", "uint8", [255, 2], [2, 100]), ("4w", "uint8", [20], [13])):
            c_ = self._mk(k, g4, xo6, [list(range(PROTOS[k][1]))] * len(nm_), nm_, np_, 0, 0, 0,
                          {"mode": "pcg64", "seed": 70}, meta="none")
            c_["cdtype"] = cd
            out.append(c_)
        #     int16 counts 182 x 182 = 33124 > 32767 (one marker keeps the case small)
        #     and more lines to self than an int16 index counts
        #     (~15 s of model time: in the quick tier only when an anchored source differs from the baseline; always
        #     in the thorough tier, see generate())
        if _tree_changed():
            out += [self._int16_case("2w"), self._int16_case("self")]
        # (f) rarely used argument forms, one per protocol
        for i, k in enumerate(list(PROTOS) * 2):
            c_ = self._mk(k, g4, xo6, [list(range(PROTOS[k][1])), [3, 3, 1, 0][:PROTOS[k][1]]], [2, 1], [1, 2], i % 3, 4, 1,
                          sc(380 + i))
            c_.update([("xdtype", ["int8", "uint8", "int16", "uint16", "int32", "uint32", "uint64"][i % 7]),
                       ("xorder", ["F", "view", "F", "rev", "F", "view", "rev", "rev", "F", "view", "F", "view", "F", "F"][i]),
                       ("cdtype", ["int8", "uint8", "int16", "int32", "uint32", "int64", "int8"][(i + i // 7) % 7]),
                       ("gorder", ["view", "F", "rev", "C", "F"][(i + 2 * (i // 7)) % 5]),
                       ("nself_np", i % 2 == 0), ("miscout", i % 2 == 1), ("rng_none", i % 3 == 0), ("bare_taxa", i % 3 == 1)])
            out.append(c_)
        # --- round 4
        # (g) variant metadata neither sorted nor grouped (the matrix is used as it is); several chromosomes with
        #     single-marker ones; crossover probabilities in a strided / reversed float64 view; parents with names
        #     but no family labels / with unsorted labels and duplicate names; constructor keywords through mate()
        for i, k in enumerate(PROTOS):
            c_ = self._mk(k, g4, xo6, [list(range(PROTOS[k][1])), [3, 1, 2, 0][:PROTOS[k][1]]], [1, 2], [2, 1], i % 2, 7, 2,
                          sc(400 + i), meta=["unsorted", "chr3"][i % 2])
            if c_["meta"] == "chr3":
                c_["chr"] = [[1, 2, 1, 2], [3, 1, 1, 1], [1, 1, 1, 1, 1, 1], [2, 4]][i % 4]
            c_["xoorder"] = ["view", "rev", "C"][i % 3]
            c_["ptaxa"] = ["names", "unsorted", "both"][(i + 1) % 3]
            c_["ctor_kwargs"] = i % 2 == 0
            out.append(c_)
        # (h) deep single-seed descent (nself 5 .. 8), two crosses with disjoint parents
        for i, k in enumerate(["self", "2w", "3wdh", "4w"]):
            npar_ = PROTOS[k][1]
            xc_ = [list(range(npar_)), [3, 2, 1, 0][:npar_]] if npar_ < 3 else [list(range(npar_)), [3, 3, 3, 3][:npar_]]
            out.append(self._mk(k, g4, xo6, xc_, [1, 2], 2, [5, 6, 8, 5][i], 0, 0, sc(420 + i)))
        # --- round 5
        # (i) the parents keep their family labels in a narrow integer dtype and the family counter stands at / beyond
        #     the limit of that dtype (given to the constructor), every protocol; then the counter GROWN past the limit
        #     by a history of 4-7 cycles on one object (every protocol, int8 and uint8 labels)
        for i, k in enumerate(PROTOS):
            gd_, fc_ = [("int8", 126), ("uint8", 254), ("int16", 32766), ("int8", 300), ("int32", 2 ** 31 - 2),
                        ("uint16", 65535), ("uint32", 2 ** 32 - 1)][i]
            c_ = self._mk(k, g4, xo6, [list(range(PROTOS[k][1])), [3, 1, 2, 0][:PROTOS[k][1]], [2, 2, 0, 1][:PROTOS[k][1]]],
                          [1, 2, 1], [2, 1, 1], i % 2, 3, fc_, sc(500 + i))
            c_["gdtype"] = gd_
            c_["vdtype"] = [["int8", "int16"], ["uint8", "int32"]][i % 2]
            if i % 3 == 0:
                c_["ctr_np"] = ["int64", "int32"][i % 2]
            c_["pgrouped"] = i % 2 == 0
            out.append(c_)
        #     counters beyond int32 / uint32 / the integers a float64 holds exactly (Python ints are unbounded)
        for i, k in enumerate(PROTOS):
            c_ = self._mk(k, g4, xo6, [list(range(PROTOS[k][1])), [3, 1, 2, 0][:PROTOS[k][1]]], [1, 2], [2, 1], 0,
                          [2 ** 31 - 2, 2 ** 32 - 3, 2 ** 53 + 1][i % 3], [2 ** 53 + 1, 2 ** 31 - 1, 2 ** 32 - 2][i % 3], sc(540 + i))
            c_["pgrouped"] = i % 2 == 1
            out.append(c_)
        #     grouped parents whose own labels (0, 0, 1, 1) reach / exceed the family counter (0 / 1)
        for i, k in enumerate(PROTOS):
            c_ = self._mk(k, g4, xo6, [list(range(PROTOS[k][1])), [3, 1, 2, 0][:PROTOS[k][1]]], [1, 2], [2, 1], i % 2, 0, i % 2,
                          sc(560 + i))
            c_["pgrouped"] = True
            out.append(c_)
        for i, k in enumerate(PROTOS):
            out.append(self._cycle_case(random.Random(520 + i), k, ["int8", "uint8"][i % 2]))
        out.append({"kind": "util", "fn": "meiosis", "module": "core", "geno": g4, "xo": canon.enc(xo6),
                    "sel": [3, 0, 0], "rng": sc(30)})
        out.append({"kind": "util", "fn": "dh", "module": "core", "geno": g4, "xo": canon.enc(xo6),
                    "sel": [1, 2, 0], "rng": sc(33)})
        out.append({"kind": "util", "fn": "mate", "module": "core", "geno": self._geno(random.Random(3), 3, 6, "partinbred"),
                    "xo": canon.enc(xo6), "sel": [-1, 0, -3], "sdtype": "int8", "gorder": "view",
                    "mgeno": self._geno(random.Random(4), 2, 6, "partinbred"), "msel": [1, 0, 1], "rng": sc(32)})
        out.append({"kind": "util", "fn": "dh", "module": "util", "geno": g4, "xo": canon.enc(xo6),
                    "sel": [1, 2], "rng": sc(31)})
        return out

    def _int16_case(self, k_):
        """int16 counts 182 x 182 = 33124 > 32767 progeny of one cross, then one selfing generation: more lines to
        self than an int16 index counts (one marker keeps the case small)"""
        g1 = [[[-128], [-126], [-124], [-122]], [[-127], [-125], [-123], [-121]]]
        c_ = self._mk(k_, g1, [Fraction(1, 2)], [[0, 1][:PROTOS[k_][1]], [2, 3][:PROTOS[k_][1]]], [182, 1], [182, 2], 1, 0, 0,
                      {"mode": "pcg64", "seed": 71}, meta="none")
        c_["cdtype"] = "int16"
        return c_

    def exhaustive(self, tier):
        """thorough tier: every crossover mask of 1-4 markers through both meiosis implementations, and
        every combination of draws in {0, 1/2} (xoprob = 1/2 everywhere: draw 0 = crossover) for one
        progeny of each protocol (2 markers while the protocol makes <= 4 uniform calls, else 1)"""
        if tier != "thorough":
            return None
        import itertools
        out = []
        for nv in (1, 2, 3, 4):
            geno = [[[10 + j for j in range(nv)]], [[20 + j for j in range(nv)]]]
            for bits in itertools.product((0, 1), repeat=nv):
                for module in ("util", "core"):
                    out.append({"kind": "util", "fn": "meiosis", "module": module, "geno": geno,
                                "xo": canon.enc([Fraction(1, 2)] * nv), "sel": [0],
                                "rng": {"mode": "explicit", "den": 2, "mats": [[list(bits)]]}})
        ncalls = {"self": 2, "2w": 2, "2wdh": 3, "3w": 4, "3wdh": 5, "4w": 6, "4wdh": 7}
        for k, (_, npar, _) in PROTOS.items():
            nv = 2 if ncalls[k] <= 4 else 1
            geno = self._geno(random.Random(0), 4, nv, "cell")
            for bits in itertools.product((0, 1), repeat=nv * ncalls[k]):
                mats = [[list(bits[i * nv:(i + 1) * nv])] for i in range(ncalls[k])]
                out.append(self._mk(k, geno, [Fraction(1, 2)] * nv, [list(range(npar))], 1, 1, 0, 0, 0,
                                    {"mode": "explicit", "den": 2, "mats": mats}))
        return out

    def generate(self, rng, n, tier):
        out = []
        protos = list(PROTOS)
        if tier == "thorough" and not _tree_changed():
            out += [self._int16_case("2w"), self._int16_case("self")]
        for i in range(len(out), n):
            r = rng.random()
            pr = protos[i % len(protos)]
            if r < 0.05:
                out.append(self._bad_case(rng))
            elif r < 0.14:
                out.append(self._util_case(rng))
            elif r < 0.17:
                out.append(self._np_case(rng))
            elif r < 0.30:
                out.append(self._hist_case(rng, pr))
            elif r < 0.33:
                out.append(self._narrow_case(rng, pr))
            elif r < 0.36:
                out.append(self._wide_case(rng, pr))
            elif r < 0.365:
                out.append(self._long_case(rng))
            elif r < 0.395:
                out.append(self._cycle_case(rng, pr))
            else:
                out.append(self._case(rng, pr, tier))
        return out

    # ------------------------------------------------------------------ implementation
    SELFTEST_SAMPLE = 260    # generated cases (after the corpus) that every self-test mutant is evaluated on

    def run_impl(self, case):
        """Self-test economy (the kill criterion only needs ONE case that passes on the unmutated code and fails under
        the mutant).  While a mutant runs, a case is answered with the observation made on the unmutated code — i.e. it
        cannot witness a kill — when (a) the mutant edits one protocol class only and the case belongs to another
        protocol (it cannot be affected), (b) the case is one of the few very large ones (> 5000 progeny / markers) and
        the mutant is not about sizes, or (c) it lies beyond the first SELFTEST_SAMPLE generated cases."""
        key = id(case)
        if self._mask_known:
            hit = self._obs_memo.get(key)
            if hit is not None and hit[0] is case:
                scope, heavy = self._scope if self._scope is not None else (None, False)
                if (scope is not None and (case.get("proto") or case["kind"]) not in scope) \
                        or (hit[3] and not heavy) or hit[2] >= self._ncorpus + self.SELFTEST_SAMPLE:
                    return dict(hit[1])
            return self._run_impl(case)
        obs = self._run_impl(case)
        if self._first is None:
            cp = self.corpus()
            C01._first, C01._ncorpus = cp[0], len(cp)
        if len(self._obs_memo) > 4000:
            self._obs_memo.clear()
        if not self._obs_memo or case == self._first:      # a new batch starts with the corpus: number from 0
            self._memo_n = 0
        if key not in self._obs_memo or self._obs_memo[key][0] is not case:
            self._obs_memo[key] = (case, dict(obs), self._memo_n, self._heavy(case))
            self._memo_n += 1
        return obs

    @staticmethod
    def _heavy(case):
        if case.get("kind") in PROTOS:
            try:
                return C01._count(case) > 5000 or len(case["xo"]) > 5000
            except Exception:
                return False
        return case.get("kind") == "util" and len(case["xo"]) > 5000

    def _run_impl(self, case):
        mods = _mods()
        if case["kind"] == "np":
            if case["fn"] == "mul64":
                return {"res": [int(v) for v in numpy.multiply(numpy.array(case["a"], dtype=case["dtype"]),
                                                               numpy.array(case["b"], dtype=case["dtype"]), dtype="int64")]}
            if case["fn"] == "mulwrap":
                with numpy.errstate(all="ignore"):
                    return {"res": [int(v) for v in numpy.array(case["a"], dtype=case["dtype"])
                                    * numpy.array(case["b"], dtype=case["dtype"])]}
            if case["fn"] == "repeat":
                return {"res": [int(v) for v in numpy.repeat(numpy.array(case["vals"], dtype="int64"),
                                                              numpy.array(case["counts"], dtype="int64"))]}
            if case["fn"] == "lexsort":
                ix = numpy.lexsort((_obj(case["names"]), numpy.array(case["grp"], dtype="int64"))) \
                    if case["names"] else []
                return {"res": [int(v) for v in ix]}
            return {"res": [str(n).zfill(7) for n in case["ns"]]}
        if case["kind"] == "util":
            return self._run_util(case, mods)
        if case["kind"] == "hist":
            return self._run_hist(case, mods)
        modname, cls = mods[case["kind"]]
        g, xo = _build_pgmat(case)
        hold = {"xo": [_fr(v) for v in case["xo"]]}
        rng, den = _make_rng(case["rng"], hold)
        with self._protocol(modname, cls, case, rng) as prot:
            obs, _ = self._call_mate(prot, g, case, rng, den)
        return obs

    @staticmethod
    @contextlib.contextmanager
    def _protocol(modname, cls, case, rng):
        """the protocol object; with `rng_none` it is built with rng=None and must pick up the module's
        `global_prng` (which is the recording generator for the duration of the case)"""
        pc, fc = case["pc"], case["fc"]
        if case.get("ctr_np"):                 # the counters are `Integral`: numpy integer scalars are legal
            pc, fc = numpy.int64(pc), (numpy.int64(fc) if case["ctr_np"] == "int64" or fc >= 2 ** 30 else numpy.int32(fc))
        if case.get("rng_none"):
            old = modname.global_prng
            modname.global_prng = rng
            try:
                yield cls(progeny_counter=pc, family_counter=fc, rng=None)
            finally:
                modname.global_prng = old
        else:
            yield cls(progeny_counter=pc, family_counter=fc, rng=rng)

    @staticmethod
    def _xconfig(step, npar):
        xcl = step["xconfig"]
        xc = numpy.array(xcl, dtype=step.get("xdtype", "int64")).reshape(len(xcl), len(xcl[0]) if xcl else npar)
        return _layout(xc, step.get("xorder", "C"))

    def _call_mate(self, prot, g, step, rng, den, xc=None):
        """one `mate()` call on protocol object `prot`; -> (observation, progeny matrix object)"""
        snap = _snapshot(g)
        meta_in = _meta_json(g)
        npar = PROTOS[step["kind"]][1]
        if xc is None:
            xc = self._xconfig(step, npar)
        xc0 = xc.copy()
        nm = _counts(step["nmating"], step.get("cdtype"))
        npg = _counts(step["nprogeny"], step.get("cdtype"))
        cnt0 = [copy.deepcopy(nm), copy.deepcopy(npg)]
        nself = numpy.int64(step["nself"]) if step.get("nself_np") else step["nself"]
        kw = {"miscout": {}} if step.get("miscout") else {}
        if step.get("ctor_kwargs"):
            kw["auxiliary"] = 1                    # `**kwargs` of mate() go to the progeny matrix constructor
        pc0, fc0 = int(prot.progeny_counter), int(prot.family_counter)
        k0, c0 = len(rng.log), len(rng.calls)
        try:
            out = prot.mate(g, xc, nm, npg, nself=nself, **kw)
        except Exception as e:
            if step.get("expect_error"):
                return {"error": canon.exc_tag(e), "text": f"{type(e).__name__}: {e}"[:200]}, None
            raise
        after = _snapshot(g)
        untouched = [k for k in snap if not _same(snap[k], after[k])]
        lost = [f for f in VRNT_FIELDS if not _same(snap[f], getattr(out, f))]
        log, calls = rng.log[k0:], rng.calls[c0:]
        bad_calls = [c for c in calls if c[0] != 0.0 or c[1] != 1.0]
        args_changed = [n for n, a_, b_ in (("xconfig", xc0, xc), ("nmating", cnt0[0], nm), ("nprogeny", cnt0[1], npg))
                        if not _same(a_, b_)]
        # aliasing: writing into the progeny matrix must not reach the parents, and vice versa
        alias = []
        omat = out.mat.copy()
        if out.mat.size and g.mat.size:
            try:
                if out.mat.flags.writeable:
                    out.mat[...] = numpy.int8(55)
                    if not _same(g.mat, snap["mat"]):
                        alias.append("progeny_write_reaches_parents")
                    out.mat[...] = omat
                g.mat[...] = numpy.int8(-66)
                if not _same(out.mat, omat):
                    alias.append("parent_write_reaches_progeny")
            finally:
                g.mat[...] = snap["mat"]
        return {
            "mat": omat.astype(int).tolist(), "dtype": str(out.mat.dtype),
            "taxa": [str(t) for t in out.taxa], "taxa_grp": [int(v) for v in out.taxa_grp],
            "pc0": pc0, "fc0": fc0,
            "pc": int(prot.progeny_counter), "fc": int(prot.family_counter),
            "grp_name": [int(v) for v in out.taxa_grp_name], "grp_stix": [int(v) for v in out.taxa_grp_stix],
            "grp_spix": [int(v) for v in out.taxa_grp_spix], "grp_len": [int(v) for v in out.taxa_grp_len],
            "draws": _draws_json(log, den), "dden": den,
            "shapes": [list(m.shape) for m in log], "bad_calls": bad_calls,
            "parents_changed": untouched + alias, "meta_lost": lost, "args_changed": args_changed,
            "meta_in": meta_in, "meta": _meta_json(out),
        }, out

    def _run_hist(self, case, mods):
        """several `mate()` calls on ONE protocol object (counters, generator and any state the object keeps
        are shared): between calls the parental matrix is replaced, kept, or edited in place (genotypes
        overwritten, vrnt_xoprob re-assigned or overwritten), the xconfig array object may be re-used after an
        in-place edit.  At the end every earlier result must still be what it was when it was returned."""
        modname, cls = mods[case["proto"]]
        steps = case["steps"]
        hold = {"xo": [_fr(v) for v in steps[0]["xo"]]}
        rng, den = _make_rng(case["rng"], hold)
        obs_all, keep = [], []
        g = None
        xc = None
        with self._protocol(modname, cls, dict(case, pc=case["pc"], fc=case["fc"]), rng) as prot:
            for st in steps:
                st = dict(st, kind=case["proto"])
                hold["xo"] = [_fr(v) for v in st["xo"]]
                how = st.get("reuse", "new")
                if st.get("prime") and g is not None:
                    for q in ("afreq", "tacount", "gtcount"):
                        try:
                            getattr(g, q)()
                        except Exception:
                            pass
                if how == "chain":
                    g = keep[-1][1]                              # the object the previous call returned
                    st = dict(st, geno=g.mat.astype(int).tolist())
                elif g is None or how == "new":
                    g, _ = _build_pgmat(st)
                elif how == "inplace":
                    g.mat[...] = numpy.array(st["geno"], dtype="int8")
                    xo = numpy.array([float(_fr(v)) for v in st["xo"]], dtype=float)
                    if st.get("xo_assign", True):
                        g.vrnt_xoprob = xo
                    else:
                        g.vrnt_xoprob[...] = xo
                if st.get("prime"):
                    # read-only queries on the parental matrix (and on the previous result) before the edit / the
                    # call: whatever they memoise must not leak into mate()
                    for obj in [g] + ([keep[-1][1]] if keep else []):
                        for q in ("afreq", "tacount", "gtcount", "mat_asformat"):
                            try:
                                getattr(obj, q)("{0,1,2}") if q == "mat_asformat" else getattr(obj, q)()
                            except Exception:
                                pass
                npar = PROTOS[case["proto"]][1]
                if xc is not None and st.get("xreuse") and xc.shape == (len(st["xconfig"]), npar) and st["xconfig"]:
                    xc[...] = numpy.array(st["xconfig"], dtype=xc.dtype)
                else:
                    xc = self._xconfig(st, npar)
                o, out = self._call_mate(prot, g, st, rng, den, xc=xc)
                if how == "chain":
                    o["geno_used"] = st["geno"]
                obs_all.append(o)
                if out is not None:
                    keep.append((len(obs_all) - 1, out, out.mat.copy(), [str(t) for t in out.taxa],
                                 [int(v) for v in out.taxa_grp]))
        stale = []
        for k, out, mat, taxa, grp in keep:
            if not _same(out.mat, mat) or [str(t) for t in out.taxa] != taxa or [int(v) for v in out.taxa_grp] != grp:
                stale.append(k)
        return {"steps": obs_all, "stale": stale}

    def _run_util(self, case, mods):
        mod = mods[case["module"]]
        names = {"util": ("mat_meiosis", "mat_dh", "mat_mate"), "core": ("dense_meiosis", "dense_dh", "dense_cross")}[case["module"]]
        fn = getattr(mod, names[["meiosis", "dh", "mate"].index(case["fn"])])
        geno = _layout(numpy.array(case["geno"], dtype="int8"), case.get("gorder", "C"))
        g0 = geno.copy()
        xo = _layout(numpy.array([float(_fr(v)) for v in case["xo"]]), case.get("xoorder", "C"))
        sdt = case.get("sdtype", "int64")
        sel = numpy.array(case["sel"], dtype=sdt)
        rng, den = _make_rng(case["rng"], [_fr(v) for v in case["xo"]])
        if case["fn"] == "mate":
            mg = numpy.array(case["mgeno"], dtype="int8")
            res = fn(geno, mg, sel, numpy.array(case["msel"], dtype=sdt), xo, rng)
        else:
            res = fn(geno, sel, xo, rng)
        out = res.astype(int).tolist()
        untouched = bool((g0 == geno).all())
        if res.size and geno.size and res.flags.writeable:   # the result must not be a view of the parents
            res[...] = numpy.int8(55)
            untouched = untouched and bool((g0 == geno).all())
        return {"res": out, "draws": _draws_json(rng.log, den), "dden": den,
                "untouched": untouched, "dtype": str(res.dtype)}

    # ------------------------------------------------------------------ model requests
    @staticmethod
    def _args(case):
        return {"proto": case["kind"], "geno": case["geno"], "xo": case["xo"], "xconfig": case["xconfig"],
                "nmating": case["nmating"], "nprogeny": case["nprogeny"], "nself": case["nself"],
                "pc": case["pc"], "fc": case["fc"]}

    _answers = {}            # request JSON -> driver answer (the driver is a pure function of the request line)

    def requests(self, case, obs):
        """requests whose answers are all known already (the self-test re-evaluates the same base cases under
        every mutant; wherever a mutant does not change the observation the requests are identical) are
        not sent again: their answers travel in obs["_cached"]"""
        reqs = self._requests(case, obs)
        keys = [json.dumps(r, sort_keys=True, separators=(",", ":")) for r in reqs]
        if reqs and all(k in self._answers for k in keys):
            obs["_cached"] = [self._answers[k] for k in keys]
            return []
        obs["_keys"] = keys
        return reqs

    def judge(self, case, obs, answers):
        if "_cached" in obs:
            answers = obs["_cached"]
        elif "_keys" in obs and len(obs["_keys"]) == len(answers):
            if len(self._answers) > 60000:
                self._answers.clear()
            for k, a in zip(obs.pop("_keys"), answers):
                if "err" not in a:
                    self._answers[k] = a
        return self._judge(case, obs, answers)

    def _requests(self, case, obs):
        if case["kind"] == "np":
            return [{"op": "c01.np", **{k: v for k, v in case.items() if k not in ("kind", "dtype")}}]
        if case["kind"] == "util":
            nt = len(case["geno"][0])
            base = {"fn": case["fn"], "geno": case["geno"], "sel": [v % nt for v in case["sel"]], "xo": case["xo"]}
            if case["fn"] == "mate":
                base["mgeno"], base["msel"] = case["mgeno"], case["msel"]
            # module "core" is answered by the buffer-level model of core/util/mate.py (Model/DenseMate.lean)
            return [{"op": "c01.util", **base, "module": case["module"], "garbage": len(case["sel"]) * 13 + 5,
                     "draws": obs["draws"], "dden": obs["dden"]},
                    {"op": "c01.spec_util", **base, "res": obs["res"]}]
        if case["kind"] == "hist":
            out = []
            for st, o, (pc, fc) in zip(case["steps"], obs["steps"], self._hist_counters(case, obs)):
                out += self._mate_requests(self._step_case(case, st, o, pc, fc), o)
            return out
        return self._mate_requests(case, obs)

    @staticmethod
    def _step_case(case, st, o, pc, fc):
        stc = dict(st, kind=case["proto"], pc=pc, fc=fc)
        if "geno_used" in o:
            stc["geno"] = o["geno_used"]
        return stc

    @staticmethod
    def _hist_counters(case, obs):
        """counters each step must start from: the constructor's for the first call, then the values the
        previous call left (which that call's own Spec ties to the numbers it produced)"""
        pc, fc = case["pc"], case["fc"]
        out = []
        for o in obs["steps"]:
            out.append((pc, fc))
            if "error" not in o:
                pc, fc = o["pc"], o["fc"]
        return out

    def _mate_requests(self, case, obs):
        a = self._args(case)
        if "error" in obs:
            # the draws the code would have requested are unknown: let the model fail first on the
            # same check (every rejection modelled here happens before / independently of the draws)
            return [{"op": "c01.mate", **a, "draws": self._dummy_draws(case), "dden": 1}]
        return [{"op": "c01.mate", **a, "draws": obs["draws"], "dden": obs["dden"], "meta": obs["meta_in"]},
                {"op": "c01.spec_mate", **a,
                 "out": {k: obs[k] for k in ("mat", "taxa", "taxa_grp", "pc", "fc")}}]

    @staticmethod
    def _dummy_draws(case):
        """zero draws of the shapes the first uniform calls would have (an out-of-range index is met in
        one of the first two mat_mate calls; the other rejections happen before any draw)"""
        nv = len(case["xo"])
        xc = case["xconfig"]
        try:
            n = len(xc)
            nm = case["nmating"] if isinstance(case["nmating"], list) else [case["nmating"]] * n
            npg = case["nprogeny"] if isinstance(case["nprogeny"], list) else [case["nprogeny"]] * n
            T = sum(a * b for a, b in zip(nm, npg))
            M = sum(nm)
        except Exception:
            T = M = 0
        rows = {"self": [T, T], "2w": [T, T], "2wdh": [M, M], "3w": [M, M, T, T]}.get(case["kind"], [M, M, M, M])
        return [[[0] * nv for _ in range(k)] for k in rows]

    def _judge(self, case, obs, answers):
        for a in answers:
            if "err" in a:
                raise RuntimeError("driver error: " + a["err"])
        if case["kind"] == "np":
            m = answers[0]["ok"]
            return {"corr": m == obs["res"], "spec": True, "nontrivial": False, "failed": [],
                    "detail": f"numpy conformance {case['fn']}: model={m} numpy={obs['res']}"}
        if case["kind"] == "util":
            return self._judge_util(case, obs, answers[0]["ok"], answers[1]["ok"])
        if case["kind"] == "hist":
            vs = []
            i = 0
            for st, o, (pc, fc) in zip(case["steps"], obs["steps"], self._hist_counters(case, obs)):
                k = 1 if "error" in o else 2
                stc = self._step_case(case, st, o, pc, fc)
                v = self._judge_mate(stc, o, answers[i:i + k])
                if "error" not in o and (o["pc0"], o["fc0"]) != (pc, fc):
                    v["spec"] = False
                    v["failed"] = v.get("failed", []) + [f"counters_before_call:{o['pc0']},{o['fc0']}!={pc},{fc}"]
                vs.append(v)
                i += k
            failed = [f"step{j}:{f}" for j, v in enumerate(vs) for f in v.get("failed", [])]
            if obs["stale"]:
                failed.append("earlier_result_changed_by_later_call:" + ",".join(map(str, obs["stale"])))
            return {"corr": all(v["corr"] for v in vs), "spec": not failed,
                    "nontrivial": any(v["nontrivial"] for v in vs), "failed": failed,
                    "detail": f"history[{case['proto']}] spec_failed={failed} " +
                              " || ".join(f"step{j}: {v['detail']}" for j, v in enumerate(vs)
                                          if not (v["corr"] and v["spec"]))[:1500]}
        return self._judge_mate(case, obs, answers)

    def _judge_mate(self, case, obs, answers):
        m = answers[0]["ok"]
        if "error" in obs:
            # the property says nothing about how an invalid input is rejected: only "both reject" is compared
            corr = "error" in m
            return {"corr": corr, "spec": True, "nontrivial": False,
                    "detail": f"rejected input: impl={obs['error']} ({obs['text']}) model={m.get('error', 'accepted')}"}
        s = answers[1]["ok"]
        keys = ("mat", "taxa", "taxa_grp", "pc", "fc", "grp_name", "grp_stix", "grp_spix", "grp_len", "meta")
        diff = [k for k in keys if m.get(k) != obs[k]] if "error" not in m else ["model rejected: " + m["error"]]
        corr = not diff and not obs["bad_calls"] and not obs["args_changed"]
        lost = list(obs["meta_lost"])
        failed = []
        if not s["ok"]:
            failed.append("lean:" + s["detail"])
        if obs["parents_changed"]:
            failed.append("parents_changed:" + ",".join(obs["parents_changed"]))
        if lost:
            failed.append("meta_lost:" + ",".join(lost))
        spec = not failed
        return {"corr": corr, "spec": spec, "nontrivial": self._nontrivial(case, obs), "failed": failed,
                "detail": f"{case['kind']} spec_failed={failed} model_vs_impl_diff={diff} "
                          f"uniform_calls={obs['shapes']} bad_calls={obs['bad_calls']} args_changed={obs['args_changed']} "
                          f"dtype={obs['dtype']}"}

    @staticmethod
    def _nontrivial(case, obs):
        if not obs["mat"] or not obs["mat"][0]:
            return False
        xo = [_fr(v) for v in case["xo"]]
        den = obs["dden"]
        xover = any(j < len(xo) and Fraction(v, den) < xo[j] for m in obs["draws"] for r in m for j, v in enumerate(r))
        g = case["geno"]
        nt = len(g[0])
        het = any(len({v % nt for v in r}) > 1 or g[0][r[0] % nt] != g[1][r[0] % nt] for r in case["xconfig"])
        return xover and het

    def _judge_util(self, case, obs, m, lean_spec):
        xo = [_fr(v) for v in case["xo"]]
        g = case["geno"]
        res = obs["res"]
        fn = case["fn"]
        ok = obs["untouched"]
        if fn == "meiosis":
            corr = m.get("gamete") == res and m.get("closed") == res
            spec = ok and len(res) == len(case["sel"]) and all(
                _mosaic([g[0][s], g[1][s]], xo, row) for s, row in zip(case["sel"], res))
        elif fn == "dh":
            corr = m.get("mat") == res
            spec = ok and len(res) == 2 and res[0] == res[1] and len(res[0]) == len(case["sel"]) and all(
                _mosaic([g[0][s], g[1][s]], xo, row) for s, row in zip(case["sel"], res[0]))
        else:
            mg = case["mgeno"]
            corr = m.get("mat") == res
            spec = ok and len(res) == 2 and len(res[0]) == len(case["sel"]) == len(res[1]) and all(
                _mosaic([g[0][s], g[1][s]], xo, row) for s, row in zip(case["sel"], res[0])) and all(
                _mosaic([mg[0][s], mg[1][s]], xo, row) for s, row in zip(case["msel"], res[1]))
        den = obs["dden"]
        xover = any(j < len(xo) and Fraction(v, den) < xo[j] for mm in obs["draws"] for r in mm for j, v in enumerate(r))
        # the verdict is the Lean oracle's (Mating.specGametes/specDh/specCross, proved sound and complete); the
        # Python recurrence above is an independent second implementation that must agree with it
        py_spec = spec
        agree = bool(py_spec) == bool(ok and lean_spec)
        spec = bool(ok and lean_spec)
        return {"corr": corr and agree, "spec": spec, "nontrivial": bool(xover and case["sel"]),
                "failed": [] if spec else ["util:" + fn],
                "detail": f"util {case['module']}.{fn} oracles_agree={agree} model={str(m)[:300]} impl={str(res)[:300]}"}

    # ------------------------------------------------------------------ findings / shrinking
    @staticmethod
    def _count_product_wraps(case):
        """D70 (repaired): a per-cross product nmating*nprogeny that the count dtype of the case cannot hold, in one of the
        three protocols that form the product"""
        if case.get("kind") not in ("self", "2w", "3w") or case.get("cdtype") in (None, "int64", "uint64"):
            return False
        dt = numpy.dtype(case["cdtype"])
        lim = numpy.iinfo(dt).max
        n = len(case["xconfig"])
        nm = case["nmating"] if isinstance(case["nmating"], list) else [case["nmating"]] * n
        npg = case["nprogeny"] if isinstance(case["nprogeny"], list) else [case["nprogeny"]] * n
        return any(a * b > lim for a, b in zip(nm, npg))

    def signature(self, case, obs, verdict):
        failed = verdict.get("failed") or []
        sig = {"kind": case.get("kind"), "site": "mate" if case.get("kind") != "util" else "util"}
        if self._count_product_wraps(case):
            sig["count_product_wraps"] = True          # D70 (repaired): informative only, no finding matches it
        if failed and all(f.startswith("meta_lost:") for f in failed):
            lost = set(failed[0].split(":", 1)[1].split(","))
            sig["cond"] = "hapalt_hapref_dropped" if lost <= KNOWN_META else "vrnt_metadata_dropped"
        elif verdict.get("exception"):
            sig["cond"] = "exception:" + str(verdict["exception"])
        else:
            sig["cond"] = ";".join(f.split(":", 1)[0] for f in failed) or "correspondence"
        return sig

    def shrink(self, case):
        if case.get("kind") == "np":
            return
        if case.get("kind") == "util":
            for i in range(len(case["sel"])):
                c = dict(case)
                c["sel"] = case["sel"][:i] + case["sel"][i + 1:]
                if "msel" in case:
                    c["msel"] = case["msel"][:i] + case["msel"][i + 1:]
                yield c
            return
        if case.get("kind") == "hist":
            steps = case["steps"]
            chained = any(st.get("reuse") == "chain" for st in steps)
            for st in steps:                              # a single call that fails by itself
                if st.get("geno") is not None:
                    yield dict({k: v for k, v in st.items() if k not in ("reuse", "xreuse", "xo_assign", "prime")},
                               kind=case["proto"], pc=case["pc"], fc=case["fc"], rng=case["rng"])
            if len(steps) > 1:
                yield dict(case, steps=steps[:-1])
                if not chained:
                    yield dict(case, steps=[steps[0]] + steps[2:])
            if chained:
                return
            for i, st in enumerate(steps):                # simplify one step
                for k in ("nmating", "nprogeny"):
                    if isinstance(st[k], int) and st[k] > 1:
                        yield dict(case, steps=steps[:i] + [dict(st, **{k: st[k] - 1})] + steps[i + 1:])
                if st["nself"] > 0:
                    yield dict(case, steps=steps[:i] + [dict(st, nself=st["nself"] - 1)] + steps[i + 1:])
                if len(st["xconfig"]) > 1 and not st.get("xreuse") and not (i + 1 < len(steps) and steps[i + 1].get("xreuse")):
                    for j in range(len(st["xconfig"])):
                        c2 = dict(st, xconfig=st["xconfig"][:j] + st["xconfig"][j + 1:])
                        for k in ("nmating", "nprogeny"):
                            if isinstance(st[k], list):
                                c2[k] = st[k][:j] + st[k][j + 1:]
                        yield dict(case, steps=steps[:i] + [c2] + steps[i + 1:])
            for opt in ("rng_none", "ctr_np"):
                if case.get(opt):
                    yield {k: v for k, v in case.items() if k != opt}
            return
        for opt in ("xdtype", "xorder", "cdtype", "gorder", "nself_np", "miscout", "rng_none", "bare_taxa", "ptaxa", "xoorder",
                    "ctor_kwargs", "vdtype", "gdtype", "ctr_np", "pgrouped"):
            if opt in case:                               # drop a rarely used argument form
                yield {k: v for k, v in case.items() if k != opt}
        xc = case["xconfig"]
        for i in range(len(xc)):                          # drop a cross
            c = dict(case)
            c["xconfig"] = xc[:i] + xc[i + 1:]
            for k in ("nmating", "nprogeny"):
                if isinstance(case[k], list):
                    c[k] = case[k][:i] + case[k][i + 1:]
            yield c
        nv = len(case["xo"])
        for j in range(nv):                                # drop a marker
            if nv > 1:
                c = dict(case)
                c["xo"] = case["xo"][:j] + case["xo"][j + 1:]
                c["geno"] = [[r[:j] + r[j + 1:] for r in ph] for ph in case["geno"]]
                if "chr" in case:                          # the chromosome holding marker j loses it
                    sizes, st = list(case["chr"]), 0
                    for k, n_ in enumerate(sizes):
                        if j < st + n_:
                            sizes[k] -= 1
                            break
                        st += n_
                    c["chr"] = [n_ for n_ in sizes if n_ > 0]
                yield c
        ntaxa = len(case["geno"][0])
        if any(v < 0 for r in xc for v in r) and not case.get("expect_error"):
            yield dict(case, xconfig=[[v % ntaxa for v in r] for r in xc])     # address parents from the front
        used = {v for r in xc for v in r}
        for t in range(ntaxa):                             # drop an unused parent
            if t not in used and ntaxa > 1 and all(v >= 0 for v in used):
                c = dict(case)
                c["geno"] = [ph[:t] + ph[t + 1:] for ph in case["geno"]]
                c["xconfig"] = [[v - (v > t) for v in r] for r in xc]
                yield c
        if case["nself"] > 0:
            yield dict(case, nself=case["nself"] - 1)
        for k in ("nmating", "nprogeny"):
            if isinstance(case[k], list):
                for i, v in enumerate(case[k]):
                    if v > 1:
                        yield dict(case, **{k: case[k][:i] + [v - 1] + case[k][i + 1:]})
                if case[k] and len(set(case[k])) == 1:
                    yield dict(case, **{k: case[k][0]})
            elif case[k] > 1:
                yield dict(case, **{k: case[k] - 1})
        if case["pc"]:
            yield dict(case, pc=0)
        if case["fc"]:
            yield dict(case, fc=0)
        if case.get("meta") in ("full", "chr3", "alleles"):
            yield dict(case, meta="none")

    # ------------------------------------------------------------------ self-test mutants
    def mutants(self):
        mods = _mods()
        prop = self

        @contextlib.contextmanager
        def masked(inner, scope=None):
            prop._mask_known = True
            prop._scope = scope
            try:
                with inner():
                    yield
            finally:
                prop._mask_known = False
                prop._scope = None

        def scope_of(name):
            """mutants named `[rN_]<protocol>_...` edit that protocol's class (or its module's imported names) only;
            names containing `int16` / `blockwise` / `column_blocks` are about sizes (very large cases are evaluated)"""
            parts = name.split("_")
            if parts[0] in ("r3", "r4", "r5"):
                parts = parts[1:]
            heavy = any(t in name for t in ("int16", "blockwise", "column_blocks"))
            return ({parts[0]} if parts[0] in PROTOS else None, heavy)

        @contextlib.contextmanager
        def setattr_ctx(obj, name, new):
            old = getattr(obj, name)
            setattr(obj, name, new)
            try:
                yield
            finally:
                setattr(obj, name, old)

        def mutate_src(fn, old, new, which="first"):
            """recompile `fn` from its source with one occurrence of `old` replaced (in memory only);
            `old`/`new` may be lists of equal length (several edits of one function)"""
            src = inspect.getsource(fn).replace("\r\n", "\n")
            olds, news = ([old], [new]) if isinstance(old, str) else (old, new)
            for old, new in zip(olds, news):
                if src.count(old) < 1 and "nmating * nprogeny" in old:
                    # since the repair of D70 the int64 product is named `nxprogeny` (a tree from before the repair
                    # still has the inline product)
                    old, new = old.replace("nmating * nprogeny", "nxprogeny"), new.replace("nmating * nprogeny", "nxprogeny")
                if src.count(old) < 1:
                    raise RuntimeError(f"mutant anchor not found in {fn.__qualname__}: {old!r}")
                if which == "first":
                    src = src.replace(old, new, 1)
                elif which == "last":
                    k = src.rindex(old)
                    src = src[:k] + new + src[k + len(old):]
                else:
                    src = src.replace(old, new)
            if src[:1] in " \t":
                src = "if True:\n" + src
            ns = {}
            exec(compile(src, f"<mutant {fn.__qualname__}>", "exec"), fn.__globals__, ns)
            return ns[fn.__name__]

        def src_mutant(owner, fname, old, new, which="first"):
            newfn = mutate_src(getattr(owner, fname), old, new, which)
            return lambda: setattr_ctx(owner, fname, newfn)

        def everywhere(name, new):
            """rebind a utility function in its home module and in every protocol module that imported it"""
            owners = [m for m in [mods["util"], mods["core"]] + [mods[k][0] for k in PROTOS] if hasattr(m, name)]

            @contextlib.contextmanager
            def ctx():
                with contextlib.ExitStack() as st:
                    for o in owners:
                        st.enter_context(setattr_ctx(o, name, new))
                    yield
            return ctx

        def both_meiosis(old, new):
            a = src_mutant(mods["util"], "mat_meiosis", old, new)
            b = src_mutant(mods["core"], "dense_meiosis", old, new)

            @contextlib.contextmanager
            def ctx():
                with a(), b():
                    yield
            return ctx

        def cls(k):
            return mods[k][1]

        U, Cc = mods["util"], mods["core"]

        def swapped_sides(orig):
            return lambda fg, mg, fs, ms, xo, rng: orig(mg, fg, ms, fs, xo, rng)

        def dh_het(meiosis):
            def f(geno, sel, xoprob, rng):
                g = meiosis(geno, sel, xoprob, rng)
                other = g.copy()
                if other.shape[1] > 0 and len(sel):
                    other[:, -1] = geno[1, sel, -1]
                    other[:, 0] = geno[0, sel, 0]
                return numpy.stack([g, other])
            return f

        def writes_parent(orig):
            def f(geno, sel, xoprob, rng):
                out = orig(geno, sel, xoprob, rng)
                if geno.size and len(sel):
                    geno[0, sel[0], 0] = numpy.int8(int(geno[0, sel[0], 0]) ^ 1)
                return out
            return f

        def blockwise(blk):
            def f(geno, sel, xoprob, rng):
                gshape = (len(sel), len(xoprob))
                gamete = numpy.empty(gshape, dtype=geno.dtype)
                for j, s_ in enumerate(sel):
                    i = j % blk                       # position of the gamete within its block ...
                    if i == 0:
                        rnd = rng.uniform(0, 1, (min(blk, gshape[0] - j), gshape[1]))
                    xoix = numpy.flatnonzero(rnd[i] < xoprob)
                    phase, stix = 0, 0
                    for spix in xoix:
                        gamete[i, stix:spix] = geno[phase, s_, stix:spix]      # ... also used as the output row
                        stix = spix
                        phase = 1 - phase
                    gamete[i, stix:] = geno[phase, s_, stix:]
                return gamete
            return f

        def blockwise_ctx():
            @contextlib.contextmanager
            def ctx():
                with setattr_ctx(U, "mat_meiosis", blockwise(4096)), setattr_ctx(Cc, "dense_meiosis", blockwise(4096)):
                    yield
            return ctx

        def colblock(blk):
            """column-chunked copy loop whose phase restarts in every block of `blk` markers"""
            def f(geno, sel, xoprob, rng):
                gshape = (len(sel), len(xoprob))
                rnd = rng.uniform(0, 1, gshape)
                gamete = numpy.empty(gshape, dtype=geno.dtype)
                for i, s_ in enumerate(sel):
                    for c0 in range(0, gshape[1], blk):
                        c1 = min(c0 + blk, gshape[1])
                        xoix = numpy.flatnonzero(rnd[i, c0:c1] < xoprob[c0:c1]) + c0
                        phase, stix = 0, c0
                        for spix in xoix:
                            gamete[i, stix:spix] = geno[phase, s_, stix:spix]
                            stix = spix
                            phase = 1 - phase
                        gamete[i, stix:c1] = geno[phase, s_, stix:c1]
                return gamete
            return f

        def colblock_ctx():
            @contextlib.contextmanager
            def ctx():
                with setattr_ctx(U, "mat_meiosis", colblock(1024)), setattr_ctx(Cc, "dense_meiosis", colblock(1024)):
                    yield
            return ctx

        _buf = {}

        def buffered_mate(orig):
            """mat_mate that returns a per-shape workspace it keeps re-using: a later call overwrites an earlier result"""
            def f(fg, mg, fs, ms, xo, rng):
                r = orig(fg, mg, fs, ms, xo, rng)
                b = _buf.get(r.shape)
                if b is None or b.dtype != r.dtype:
                    b = _buf[r.shape] = numpy.empty_like(r)
                b[...] = r
                return b
            return f

        def chr_reset_ctx(k):
            """per-chromosome meiosis: the copy loop restarts on copy 0 at every chromosome start of the parental
            matrix (instead of leaving independent assortment to xoprob): a source change at a chromosome start whose
            crossover probability is 0"""
            mod, c = mods[k]

            def _chr_meiosis(pgmat, geno, sel, xoprob, rng):
                gshape = (len(sel), len(xoprob))
                rnd = rng.uniform(0, 1, gshape)
                gamete = numpy.empty(gshape, dtype=geno.dtype)
                starts = [0] if pgmat.vrnt_chrgrp_stix is None else [int(v) for v in pgmat.vrnt_chrgrp_stix]
                stops = starts[1:] + [gshape[1]]
                for i, s_ in enumerate(sel):
                    for c0, c1 in zip(starts, stops):
                        phase, stix = 0, c0
                        for spix in numpy.flatnonzero(rnd[i, c0:c1] < xoprob[c0:c1]) + c0:
                            gamete[i, stix:spix] = geno[phase, s_, stix:spix]
                            stix = spix
                            phase = 1 - phase
                        gamete[i, stix:c1] = geno[phase, s_, stix:c1]
                return gamete

            def _chr_mate(pgmat, fg, mg, fs, ms, xo, rng):
                return numpy.stack([_chr_meiosis(pgmat, fg, fs, xo, rng), _chr_meiosis(pgmat, mg, ms, xo, rng)])

            newfn = mutate_src(c.mate, "mat_mate(", "_chr_mate(pgmat, ", "all")

            @contextlib.contextmanager
            def ctx():
                mod._chr_mate = _chr_mate
                try:
                    with setattr_ctx(c, "mate", newfn):
                        yield
                finally:
                    del mod._chr_mate
            return ctx

        def product_in_count_dtype(k):
            """undo the repair of D70 in memory: the per-cross product formed in the dtype of the count arrays again"""
            import re
            fn = getattr(cls(k), "mate")
            src = inspect.getsource(fn).replace("\r\n", "\n")
            new, n = re.subn(r"nxprogeny = [^\n]*", "nxprogeny = nmating * nprogeny", src, count=1)
            if n != 1:
                raise RuntimeError(f"mutant anchor not found in {fn.__qualname__}: nxprogeny = ...")
            ns = {}
            exec(compile("if True:\n" + new, f"<mutant {fn.__qualname__}>", "exec"), fn.__globals__, ns)
            return lambda: setattr_ctx(cls(k), "mate", ns["mate"])

        FLOAT32 = ("rnd = rng.random(gshape, dtype = numpy.float32) if isinstance(rng, numpy.random.Generator) "
                   "else rng.uniform(0, 1, gshape)")
        REP = "numpy.repeat(nprogeny, nmating)"
        LBL = "dtype = 'int64'"
        LBLP = "dtype = ('int64' if pgmat.taxa_grp is None else pgmat.taxa_grp.dtype)"
        ms = [
            # -- round 5: one per class of inputs added in round 5
            #    family labels built in the dtype of the PARENTS' labels (narrow parental taxa_grp x counter at its limit)
            ("r5_2w_family_labels_in_parental_label_dtype", src_mutant(cls("2w"), "mate", LBL, LBLP, "last")),
            ("r5_3wdh_family_labels_in_parental_label_dtype", src_mutant(cls("3wdh"), "mate", LBL, LBLP, "last")),
            #    the family counter accumulates in int8 once a call has been made (grown counter: histories of cycles)
            ("r5_3w_family_counter_accumulates_in_int8", src_mutant(cls("3w"), "mate",
                "self.family_counter += nfam", "self.family_counter += numpy.int8(nfam)")),
            #    numpy integer scalars as counters
            ("r5_2wdh_names_restart_unless_counter_is_python_int", src_mutant(cls("2wdh"), "mate",
                ["self.progeny_counter,               # start progeny number (inclusive)",
                 "self.progeny_counter + progcnt      # stop progeny number (exclusive)"],
                ["(self.progeny_counter if isinstance(self.progeny_counter, int) else 0),   # start",
                 "(self.progeny_counter if isinstance(self.progeny_counter, int) else 0) + progcnt  # stop"])),
            #    counters beyond int32 / beyond the integers a float64 holds exactly
            ("r5_3w_names_from_int32_arange", src_mutant(cls("3w"), "mate",
                "for i in riter]", "for i in numpy.arange(riter.start, riter.stop, dtype = 'int32')]")),
            ("r5_4wdh_family_labels_through_float64", src_mutant(cls("4wdh"), "mate",
                "dtype = 'int64'\n                ),", "dtype = 'float64'\n                ).astype('int64'),", "last")),
            #    grouped parents (group metadata present on the parental matrix)
            ("r5_2w_family_labels_start_after_grouped_parents_labels", src_mutant(cls("2w"), "mate",
                "nfam = len(xconfig)                     # calculate number of families\n",
                "nfam = len(xconfig)\n"
                "        if pgmat.taxa_grp_name is not None and len(pgmat.taxa_grp_name) > 0:\n"
                "            self.family_counter = max(self.family_counter, int(pgmat.taxa_grp_name.max()) + 1)\n")),
            # -- round 4: the repaired defect D70 must be caught if it returns
            ("r4_self_count_product_in_count_dtype", product_in_count_dtype("self")),
            ("r4_2w_count_product_in_count_dtype", product_in_count_dtype("2w")),
            ("r4_3w_count_product_in_count_dtype", product_in_count_dtype("3w")),
            ("r4_2wdh_progeny_variants_regrouped", src_mutant(cls("2wdh"), "mate",
                "progeny.group_taxa()", "progeny.group_taxa(); progeny.vrnt_chrgrp is not None and progeny.group_vrnt()")),
            ("r4_meiosis_xoprob_read_from_base_buffer", both_meiosis("gshape = (len(sel), len(xoprob))",
                "xoprob = xoprob if xoprob.base is None else numpy.asarray(xoprob.base).ravel()[:len(xoprob)]; "
                "gshape = (len(sel), len(xoprob))")),
            ("r4_4w_deep_selfing_takes_neighbouring_line", src_mutant(cls("4w"), "mate",
                "hgeno = mat_mate(hgeno, hgeno, asel, asel, xoprob, self.rng)",
                "hgeno = mat_mate(hgeno, hgeno, asel, numpy.roll(asel, 1) if i >= 3 else asel, xoprob, self.rng)")),
            ("r4_3w_chromosome_starts_reset_phase", chr_reset_ctx("3w")),
        ] + ([
            # the cases that kill it are in the self-test base only when the source watch reports a change (else they
            # run in the thorough tier's main stream)
            ("r4_2w_selfing_index_int16", src_mutant(cls("2w"), "mate",
                "asel = numpy.arange(hgeno.shape[1])", "asel = numpy.arange(hgeno.shape[1]).astype('int16')")),
            ("r4_self_selfing_index_int16", src_mutant(cls("self"), "mate",
                "ssel = numpy.arange(sgeno.shape[1])", "ssel = numpy.arange(sgeno.shape[1], dtype = 'int16')")),
        ] if _tree_changed() else []) + [
            # -- round 3: one mutant per class of inputs added in round 3
            ("r3_meiosis_negative_index_clipped", both_meiosis("for i,s in enumerate(sel):",
                "for i,s in enumerate(numpy.clip(sel, 0, geno.shape[1] - 1)):")),
            ("r3_meiosis_float32_draws_and_le", src_mutant(U, "mat_meiosis",
                ["rnd = rng.uniform(0, 1, gshape)", "rnd[i] < xoprob"], [FLOAT32, "rnd[i] <= xoprob"])),
            ("r3_meiosis_eps_tolerance", both_meiosis("rnd[i] < xoprob", "rnd[i] < xoprob + 1e-12")),
            ("r3_meiosis_xoprob_clipped_from_below", both_meiosis("rnd[i] < xoprob", "rnd[i] < numpy.clip(xoprob, 1e-9, 1.0)")),
            ("r3_meiosis_isclose_counts_as_hit", both_meiosis("rnd[i] < xoprob",
                "(rnd[i] < xoprob) | numpy.isclose(rnd[i], xoprob)")),
            ("r3_meiosis_column_blocks_restart_phase", colblock_ctx()),
            ("r3_meiosis_assumes_c_contiguous", both_meiosis(
                ["gamete[i,stix:spix] = geno[phase,s,stix:spix]", "gamete[i,stix:] = geno[phase,s,stix:]"],
                ["gamete[i,stix:spix] = geno.ravel(order='K').reshape(geno.shape)[phase,s,stix:spix]",
                 "gamete[i,stix:] = geno.ravel(order='K').reshape(geno.shape)[phase,s,stix:]"])),
            ("r3_dense_meiosis_hits_only_at_heterozygous_loci", src_mutant(Cc, "dense_meiosis",
                "rnd[i] < xoprob)", "(rnd[i] < xoprob) & (geno[0,s] != geno[1,s]))")),
            ("r3_4wdh_hybrid_index_in_xconfig_dtype", src_mutant(cls("4wdh"), "mate",
                ["absel = numpy.arange(abgeno.shape[1])", "cdsel = numpy.arange(cdgeno.shape[1])"],
                ["absel = numpy.arange(len(f1sel), dtype = f1sel.dtype)", "cdsel = numpy.arange(len(f2sel), dtype = f2sel.dtype)"])),
            ("r3_2w_selfing_index_in_xconfig_dtype", src_mutant(cls("2w"), "mate",
                "asel = numpy.arange(hgeno.shape[1])", "asel = numpy.arange(hgeno.shape[1], dtype = fsel.dtype)")),
            ("r3_3w_f1_index_in_xconfig_dtype", src_mutant(cls("3w"), "mate",
                "numpy.arange(f1geno.shape[1]),", "numpy.arange(f1geno.shape[1], dtype = fsel.dtype),")),
            ("r3_self_parent_index_cast_int8", src_mutant(cls("self"), "mate",
                "fsel = numpy.repeat(xconfig[:,0], nmating * nprogeny)",
                "fsel = numpy.repeat(xconfig[:,0].astype('int8'), nmating * nprogeny)")),
            ("r3_2wdh_xconfig_read_in_memory_order", src_mutant(cls("2wdh"), "mate",
                "fsel = numpy.repeat(xconfig[:,0], nmating)", "fsel = numpy.repeat(xconfig.ravel(order = 'K')[0::2], nmating)")),
            ("r3_3w_protocol_remembers_first_xoprob", src_mutant(cls("3w"), "mate",
                "xoprob = pgmat.vrnt_xoprob", "xoprob = self.__dict__.setdefault('_xo_memo', pgmat.vrnt_xoprob)")),
            ("r3_2w_protocol_remembers_first_genotypes", src_mutant(cls("2w"), "mate",
                "geno = pgmat.mat", "geno = self.__dict__.setdefault('_geno_memo', pgmat.mat.copy())")),
            ("r3_4w_selection_cached_by_shape", src_mutant(cls("4w"), "mate",
                "f1sel = numpy.repeat(xconfig[:,2], nmating)",
                "f1sel = self.__dict__.setdefault(('f1sel', xconfig.shape, len(nmating)), numpy.repeat(xconfig[:,2], nmating))")),
            ("r3_mat_mate_returns_reused_workspace", everywhere("mat_mate", buffered_mate(U.mat_mate))),

            # -- mechanism 1: segment-copy loop (both copies: mat_meiosis and dense_meiosis)
            ("meiosis_le", both_meiosis("rnd[i] < xoprob", "rnd[i] <= xoprob")),
            ("meiosis_start_phase_1", both_meiosis("phase = 0", "phase = 1")),
            ("meiosis_no_alternation", both_meiosis("phase = 1 - phase", "phase = phase")),
            ("meiosis_segment_reversed", both_meiosis("gamete[i,stix:spix] = geno[phase,s,stix:spix]",
                                                      "gamete[i,stix:spix] = geno[phase,s,stix:spix][::-1]")),
            ("meiosis_tail_of_first_selected", both_meiosis("gamete[i,stix:] = geno[phase,s,stix:]",
                                                            "gamete[i,stix:] = geno[phase,sel[0],stix:]")),
            ("meiosis_writes_parent", lambda: setattr_ctx(U, "mat_meiosis", writes_parent(U.mat_meiosis))),
            ("meiosis_blockwise_draws_local_row_index", blockwise_ctx()),
            # -- mechanism 2: gamete stacking
            ("mat_mate_stack_swapped", everywhere("mat_mate", mutate_src(
                U.mat_mate, "numpy.stack([fgamete, mgamete])", "numpy.stack([mgamete, fgamete])"))),
            ("dense_cross_stack_swapped", src_mutant(Cc, "dense_cross", "numpy.stack([fgamete, mgamete])",
                                                     "numpy.stack([mgamete, fgamete])")),
            ("mat_dh_not_doubled", everywhere("mat_dh", dh_het(U.mat_meiosis))),
            ("dense_dh_not_doubled", lambda: setattr_ctx(Cc, "dense_dh", dh_het(Cc.dense_meiosis))),
            # -- mechanism 3: parent index expansion
            ("self_second_gamete_other_parent", src_mutant(cls("self"), "mate",
                "sgeno = mat_mate(geno, geno, fsel, fsel, xoprob, self.rng)",
                "sgeno = mat_mate(geno, geno, fsel, fsel[::-1], xoprob, self.rng)")),
            ("2w_swap_fsel_msel", lambda: setattr_ctx(mods["2w"][0], "mat_mate", swapped_sides(mods["2w"][0].mat_mate))),
            ("2w_fsel_counts_reversed", src_mutant(cls("2w"), "mate",
                "fsel = numpy.repeat(xconfig[:,0], nmating * nprogeny)",
                "fsel = numpy.repeat(xconfig[:,0], (nmating * nprogeny)[::-1])")),
            ("2w_self_other_hybrid", src_mutant(cls("2w"), "mate",
                "hgeno = mat_mate(hgeno, hgeno, asel, asel, xoprob, self.rng)",
                "hgeno = mat_mate(hgeno, hgeno, asel, asel[::-1], xoprob, self.rng)")),
            ("2wdh_progeny_counts_reversed", src_mutant(cls("2wdh"), "mate", REP, REP + "[::-1]", "first")),
            ("2wdh_male_from_female_column", src_mutant(cls("2wdh"), "mate",
                "msel = numpy.repeat(xconfig[:,1], nmating)", "msel = numpy.repeat(xconfig[:,0], nmating)")),
            ("3w_recurrent_from_column_1", src_mutant(cls("3w"), "mate",
                "rsel = numpy.repeat(xconfig[:,0], nmating * nprogeny)",
                "rsel = numpy.repeat(xconfig[:,1], nmating * nprogeny)")),
            ("3w_f1_of_other_mating", src_mutant(cls("3w"), "mate",
                "numpy.arange(f1geno.shape[1]),", "numpy.arange(f1geno.shape[1])[::-1],")),
            ("3wdh_hybrid_of_other_cross", src_mutant(cls("3wdh"), "mate",
                "hsel = numpy.arange(f1geno.shape[1])", "hsel = numpy.arange(f1geno.shape[1])[::-1]")),
            ("3wdh_recurrent_from_column_2", src_mutant(cls("3wdh"), "mate",
                "rsel = numpy.repeat(xconfig[:,0], nmating)", "rsel = numpy.repeat(xconfig[:,2], nmating)")),
            ("4w_f1_female_from_column_0", src_mutant(cls("4w"), "mate",
                "f1sel = numpy.repeat(xconfig[:,2], nmating)", "f1sel = numpy.repeat(xconfig[:,0], nmating)")),
            ("4w_sides_swapped", src_mutant(cls("4w"), "mate",
                "hgeno = mat_mate(abgeno, cdgeno, absel, cdsel, xoprob, self.rng)",
                "hgeno = mat_mate(cdgeno, abgeno, cdsel, absel, xoprob, self.rng)")),
            ("4wdh_progeny_counts_reversed", src_mutant(cls("4wdh"), "mate", REP, REP + "[::-1]", "first")),
            ("4wdh_m1_from_column_1", src_mutant(cls("4wdh"), "mate",
                "m1sel = numpy.repeat(xconfig[:,3], nmating)", "m1sel = numpy.repeat(xconfig[:,1], nmating)")),
            # -- mechanism 4: family labels, names, counters
            ("2w_family_counts_reversed", src_mutant(cls("2w"), "mate",
                "            nmating * nprogeny\n", "            (nmating * nprogeny)[::-1]\n", "last")),
            ("3wdh_family_counts_reversed", src_mutant(cls("3wdh"), "mate", REP, REP + "[::-1]", "last")),
            ("3w_family_labels_shifted_by_one", src_mutant(cls("3w"), "mate",
                ["self.family_counter,        # start family number (inclusive)",
                 "self.family_counter + nfam, # stop family number (exclusive)"],
                ["self.family_counter + 1,    # start family number (inclusive)",
                 "self.family_counter + nfam + 1, # stop family number (exclusive)"])),
            ("self_progeny_counter_off_by_one", src_mutant(cls("self"), "mate",
                "self.progeny_counter += progcnt", "self.progeny_counter += progcnt + 1")),
            ("4w_family_counter_plus_one_only", src_mutant(cls("4w"), "mate",
                "self.family_counter += nfam", "self.family_counter += 1")),
            ("2wdh_names_shifted_by_one", src_mutant(cls("2wdh"), "mate",
                ["self.progeny_counter,               # start progeny number (inclusive)",
                 "self.progeny_counter + progcnt      # stop progeny number (exclusive)"],
                ["self.progeny_counter + 1,           # start progeny number (inclusive)",
                 "self.progeny_counter + progcnt + 1  # stop progeny number (exclusive)"])),
            ("4wdh_rows_reversed_after_grouping", src_mutant(cls("4wdh"), "mate",
                "progeny.group_taxa()",
                "progeny.group_taxa(); progeny.reorder_taxa(numpy.arange(progeny.ntaxa)[::-1])")),
            # -- metadata / parents
            ("3wdh_genpos_reversed", src_mutant(cls("3wdh"), "mate",
                "vrnt_genpos = pgmat.vrnt_genpos,", "vrnt_genpos = pgmat.vrnt_genpos[::-1],")),
            ("self_mask_dropped", src_mutant(cls("self"), "mate",
                "vrnt_mask = pgmat.vrnt_mask,", "vrnt_mask = None,")),
        ]
        return [(n, (lambda f=f, n=n: masked(f, scope_of(n)))) for n, f in ms]


PROP = C01()
