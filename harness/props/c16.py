"""C16 — saving, loading and copying reproduce objects exactly.

kinds of cases
  h5     history of to_hdf5 / from_hdf5 calls on one temporary HDF5 file (8 persistable classes)
  copy   copy.copy / copy.deepcopy equality, then mutation of every array of the copy
  vcf    VCF text -> DensePhasedGenotypeMatrix / DenseGenotypeMatrix
  frame  data-frame / CSV layouts (breeding values, coancestry, variance matrix, genetic maps, models)
"""
import contextlib
import copy as pycopy
import json
import os
import shutil
import tempfile
from fractions import Fraction

import numpy

from .. import canon, compat
from ..core import Prop

compat.install()

TMP_ROOT = os.environ.get("C16_TMP", "/tmp/wk/C16/tmp")


# ----------------------------------------------------------------------------- datasets <-> JSON
def enc_ds(x):
    """numpy array / Python scalar -> {"dt","sh","v"} (None -> None)"""
    if x is None:
        return None
    if isinstance(x, (bool, numpy.bool_)):
        return {"dt": "bool", "sh": [], "v": [int(x)]}
    if isinstance(x, numpy.int8):
        return {"dt": "i8", "sh": [], "v": [int(x)]}
    if isinstance(x, (int, numpy.integer)):
        if isinstance(x, numpy.int32):
            return {"dt": "i32", "sh": [], "v": [int(x)]}
        if isinstance(x, numpy.integer) and x.dtype != numpy.int64:
            return {"dt": "other:" + x.dtype.name, "sh": [], "v": [int(x)]}
        return {"dt": "i64", "sh": [], "v": [int(x)]}
    if isinstance(x, (float, numpy.floating)):
        if isinstance(x, numpy.float32) and numpy.isfinite(x):
            return {"dt": "f32", "sh": [], "v": [canon.enc(float(x))]}
        if isinstance(x, numpy.floating) and x.dtype != numpy.float64:
            return {"dt": "other:" + x.dtype.name, "sh": [], "v": [str(x)]}
        if x != x or x in (float("inf"), float("-inf")):
            return {"dt": "other:nonfinite", "sh": [], "v": [str(x)]}
        return {"dt": "f64", "sh": [], "v": [canon.enc(float(x))]}
    if isinstance(x, str):
        return {"dt": "str", "sh": [], "v": [x]}
    if isinstance(x, bytes):
        return {"dt": "bytes", "sh": [], "v": [x.decode("utf-8", "replace")]}
    if isinstance(x, numpy.ndarray):
        sh = [int(s) for s in x.shape]
        flat = x.reshape(-1)
        if x.dtype == numpy.int8:
            return {"dt": "i8", "sh": sh, "v": [int(v) for v in flat]}
        if x.dtype == numpy.int64:
            return {"dt": "i64", "sh": sh, "v": [int(v) for v in flat]}
        if x.dtype == numpy.int32:
            return {"dt": "i32", "sh": sh, "v": [int(v) for v in flat]}
        if x.dtype == numpy.float32 and numpy.all(numpy.isfinite(flat)):
            return {"dt": "f32", "sh": sh, "v": [canon.enc(float(v)) for v in flat]}
        if x.dtype == numpy.bool_:
            return {"dt": "bool", "sh": sh, "v": [int(v) for v in flat]}
        if x.dtype == numpy.float64:
            if not numpy.all(numpy.isfinite(flat)):
                return {"dt": "other:nonfinite", "sh": sh, "v": [str(v) for v in flat]}
            return {"dt": "f64", "sh": sh, "v": [canon.enc(float(v)) for v in flat]}
        if x.dtype == object:
            if all(isinstance(v, str) for v in flat):
                return {"dt": "str", "sh": sh, "v": [str(v) for v in flat]}
            if all(isinstance(v, bytes) for v in flat):
                return {"dt": "bytes", "sh": sh, "v": [v.decode("utf-8", "replace") for v in flat]}
            return {"dt": "other:object", "sh": sh, "v": [repr(v) for v in flat]}
        return {"dt": "other:" + x.dtype.name, "sh": sh, "v": [repr(v) for v in flat]}
    return {"dt": "other:" + type(x).__name__, "sh": [], "v": [repr(x)]}


def dec_ds(j, scalar_py=True):
    """{"dt","sh","v"} -> numpy array (or Python scalar for shape [])"""
    if j is None:
        return None
    dt, sh, v = j["dt"], j["sh"], j["v"]
    if dt in ("f64", "f32"):
        vals = [float(Fraction(x)) for x in v]
        if sh == []:
            return vals[0] if dt == "f64" else numpy.float32(vals[0])
        return numpy.array(vals, dtype={"f64": "float64", "f32": "float32"}[dt]).reshape(sh)
    if dt in ("i8", "i32", "i64"):
        if sh == []:
            return int(v[0]) if dt == "i64" else (numpy.int8(v[0]) if dt == "i8" else numpy.int32(v[0]))
        return numpy.array(v, dtype={"i8": "int8", "i32": "int32", "i64": "int64"}[dt]).reshape(sh)
    if dt == "bool":
        if sh == []:
            return bool(v[0])
        return numpy.array([bool(x) for x in v], dtype=bool).reshape(sh)
    if dt == "str":
        if sh == []:
            return str(v[0])
        a = numpy.empty(len(v), dtype=object)
        a[:] = [str(x) for x in v]
        return a.reshape(sh)
    if dt == "bytes":
        if sh == []:
            return v[0].encode("utf-8")
        a = numpy.empty(len(v), dtype=object)
        a[:] = [x.encode("utf-8") for x in v]
        return a.reshape(sh)
    raise ValueError("cannot decode dtype " + dt)


def enc_item(x):
    if isinstance(x, dict):
        return {"dict": {str(k): enc_ds(v) for k, v in x.items()}}
    return enc_ds(x)


def dec_item(j):
    if isinstance(j, dict) and "dict" in j:
        return {k: dec_ds(v) for k, v in j["dict"].items()}
    return dec_ds(j)


def has_other(j):
    """an encoded object carries a dtype outside the model's vocabulary (dtype drift)"""
    if j is None:
        return False
    if "dict" in j:
        return any(has_other(v) for v in j["dict"].values())
    return str(j.get("dt", "")).startswith("other:")


def ds(dt, sh, v):
    return {"dt": dt, "sh": list(sh), "v": list(v)}


# ----------------------------------------------------------------------------- class table
TAXA_META = ["taxa_grp_name", "taxa_grp_stix", "taxa_grp_spix", "taxa_grp_len"]
VRNT_META = ["vrnt_chrgrp_name", "vrnt_chrgrp_stix", "vrnt_chrgrp_spix", "vrnt_chrgrp_len"]
VRNT = ["vrnt_chrgrp", "vrnt_phypos", "vrnt_name", "vrnt_genpos", "vrnt_xoprob", "vrnt_hapgrp",
        "vrnt_hapalt", "vrnt_hapref", "vrnt_mask"]
GMAT_FIELDS = ["mat", "taxa", "taxa_grp"] + VRNT + ["ploidy"] + TAXA_META + VRNT_META
MODEL_TAIL = ["trait", "model_name", "hyperparams"]

# fields in the order of the dictionary `to_hdf5` writes; ctor = constructor keywords; the others are
# assigned afterwards (group metadata)
CLASSES = {
    "pgmat": {"fields": GMAT_FIELDS, "ctor": ["mat", "taxa", "taxa_grp"] + VRNT},
    "gmat": {"fields": GMAT_FIELDS, "ctor": ["mat", "taxa", "taxa_grp"] + VRNT + ["ploidy"]},
    "bvmat": {"fields": ["mat", "location", "scale", "taxa", "taxa_grp", "trait"] + TAXA_META,
              "ctor": ["mat", "location", "scale", "taxa", "taxa_grp", "trait"]},
    "cmat": {"fields": ["mat", "taxa", "taxa_grp"] + TAXA_META, "ctor": ["mat", "taxa", "taxa_grp"]},
    "vmat": {"fields": ["mat", "taxa", "taxa_grp", "trait"] + TAXA_META,
             "ctor": ["mat", "taxa", "taxa_grp", "trait"]},
    "algmod": {"fields": ["beta", "u_misc", "u_a"] + MODEL_TAIL, "ctor": ["beta", "u_misc", "u_a"] + MODEL_TAIL},
    "adlgmod": {"fields": ["beta", "u_misc", "u_a", "u_d"] + MODEL_TAIL,
                "ctor": ["beta", "u_misc", "u_a", "u_d"] + MODEL_TAIL},
    "ge": {"fields": ["nenv", "nrep", "var_env", "var_rep", "var_err"],
           "ctor": ["nenv", "nrep", "var_env", "var_rep", "var_err"]},
}

GMAP_META = ["vrnt_chrgrp_name", "vrnt_chrgrp_stix", "vrnt_chrgrp_spix", "vrnt_chrgrp_len"]
CLASSES["sgmap"] = {"fields": ["vrnt_chrgrp", "vrnt_phypos", "vrnt_genpos"] + GMAP_META,
                    "ctor": ["vrnt_chrgrp", "vrnt_phypos", "vrnt_genpos"], "no_hdf5": True}
CLASSES["egmap"] = {"fields": ["vrnt_chrgrp", "vrnt_phypos", "vrnt_stop", "vrnt_genpos", "vrnt_name", "vrnt_fncode"]
                    + GMAP_META,
                    "ctor": ["vrnt_chrgrp", "vrnt_phypos", "vrnt_stop", "vrnt_genpos", "vrnt_name", "vrnt_fncode"],
                    "no_hdf5": True}
H5_CLASSES = [c for c in CLASSES if not CLASSES[c].get("no_hdf5")]

_M = {}


def _mods():
    if _M:
        return _M
    compat.import_pybrops()
    import h5py
    import pybrops.core.util.h5py as h5util
    from pybrops.popgen.gmat.DensePhasedGenotypeMatrix import DensePhasedGenotypeMatrix
    from pybrops.popgen.gmat.DenseGenotypeMatrix import DenseGenotypeMatrix
    from pybrops.popgen.bvmat.DenseBreedingValueMatrix import DenseBreedingValueMatrix
    from pybrops.popgen.cmat.DenseMolecularCoancestryMatrix import DenseMolecularCoancestryMatrix
    from pybrops.model.vmat.DenseTwoWayDHAdditiveGeneticVarianceMatrix import \
        DenseTwoWayDHAdditiveGeneticVarianceMatrix
    from pybrops.model.gmod.DenseAdditiveLinearGenomicModel import DenseAdditiveLinearGenomicModel
    from pybrops.model.gmod.DenseAdditiveDominanceLinearGenomicModel import \
        DenseAdditiveDominanceLinearGenomicModel
    from pybrops.breed.prot.pt.G_E_Phenotyping import G_E_Phenotyping
    _M.update({
        "h5py": h5py, "h5util": h5util,
        "pgmat": DensePhasedGenotypeMatrix, "gmat": DenseGenotypeMatrix, "bvmat": DenseBreedingValueMatrix,
        "cmat": DenseMolecularCoancestryMatrix, "vmat": DenseTwoWayDHAdditiveGeneticVarianceMatrix,
        "algmod": DenseAdditiveLinearGenomicModel, "adlgmod": DenseAdditiveDominanceLinearGenomicModel,
        "ge": G_E_Phenotyping,
    })
    from pybrops.popgen.gmap.StandardGeneticMap import StandardGeneticMap
    from pybrops.popgen.gmap.ExtendedGeneticMap import ExtendedGeneticMap
    import pandas
    _M.update({"sgmap": StandardGeneticMap, "egmap": ExtendedGeneticMap, "pandas": pandas})
    return _M


def _gpmod(t):
    """the genomic model a G_E_Phenotyping protocol is bound to (only its trait count matters)"""
    M = _mods()
    return M["algmod"](beta=numpy.zeros((1, t)), u_misc=None, u_a=numpy.ones((2, t)), trait=None)


def build(cls, fields, ctx=0, grouped=False):
    """construct the real pybrops object from encoded fields"""
    M = _mods()
    spec = CLASSES[cls]
    kw = {k: dec_item(fields.get(k)) for k in spec["ctor"]}
    if cls == "gmat" and kw.get("ploidy") is None:
        kw.pop("ploidy", None)
    if cls == "ge":
        obj = M[cls](gpmod=_gpmod(ctx), **kw)
    elif cls in ("sgmap", "egmap"):
        return M[cls](auto_group=True, auto_build_spline=True, **kw)
    else:
        obj = M[cls](**kw)
    for k in spec["fields"]:
        if k not in spec["ctor"] and k != "ploidy" and fields.get(k) is not None:
            setattr(obj, k, dec_item(fields[k]))
    if grouped:
        if getattr(obj, "taxa_grp", None) is not None and hasattr(obj, "group_taxa"):
            obj.group_taxa()
        if getattr(obj, "vrnt_chrgrp", None) is not None and hasattr(obj, "group_vrnt"):
            obj.group_vrnt()
    return obj


def fields_of(cls, obj):
    """observable state of a pybrops object: every field of the class, encoded"""
    return {k: enc_item(getattr(obj, k)) for k in CLASSES[cls]["fields"]}


# the model follows /repo HEAD (fixes 93761174 = D8 and 9631bba1 = D29 included).  To compare a tree in
# which one of them is reverted with the matching pre-repair model: C16_PREREPAIR=D8 (or D29, or D8,D29)
MODEL_PREREPAIR = [x for x in os.environ.get("C16_PREREPAIR", "").split(",") if x]

def arrays_of(cls, obj):
    """every numpy array reachable from the object's fields (directly or through a dictionary)"""
    out = []
    for k in CLASSES[cls]["fields"]:
        v = getattr(obj, k)
        if isinstance(v, numpy.ndarray):
            out.append((k, v))
        elif isinstance(v, dict):
            for kk, vv in v.items():
                if isinstance(vv, numpy.ndarray):
                    out.append((k + "/" + kk, vv))
    return out


def bump_inplace(a):
    """change every element of the buffer in place (mirrors StoreCopy.bump)"""
    if a.dtype == numpy.int8:
        a[...] = (((a.astype(numpy.int16) + 1 + 128) % 256) - 128).astype(numpy.int8)
    elif a.dtype == numpy.bool_:
        a[...] = ~a
    elif a.dtype == object:
        for i in range(a.size):
            a.flat[i] = (a.flat[i] + "_x") if isinstance(a.flat[i], str) else a.flat[i] + b"_x"
    else:
        a += 1


# ----------------------------------------------------------------------------- object graphs
GRAPH_ATTRS = dict({c: list(CLASSES[c]["fields"]) for c in CLASSES},
                   ge=["gpmod", "nenv", "nrep", "var_env", "var_rep", "var_err", "rng"])


class Graph:
    """heap of cells built from live Python objects; identity = id()"""

    def __init__(self):
        self.cells, self.addr, self.keep = [], {}, []

    def ref(self, x):
        M = _mods()
        if x is None:
            return None
        if isinstance(x, (numpy.ndarray, dict)) or type(x) in self._classes():
            if id(x) in self.addr:
                return {"ptr": self.addr[id(x)]}
            self.keep.append(x)
            if isinstance(x, numpy.ndarray):
                cell = {"arr": enc_ds(x)}
            elif isinstance(x, dict):
                cell = {"dict": [[str(k), self.ref(v)] for k, v in x.items()]}
            else:
                cls = self._classes()[type(x)]
                cell = {"obj": cls, "attrs": [[k, self.ref(getattr(x, k))] for k in GRAPH_ATTRS[cls]]}
            self.cells.append(cell)            # children first: every reference points below its cell
            self.addr[id(x)] = len(self.cells) - 1
            return {"ptr": self.addr[id(x)]}
        if isinstance(x, (numpy.random.Generator, numpy.random.RandomState)) or hasattr(x, "bit_generator") \
                or type(x).__module__.startswith("pybrops.core.random"):
            if id(x) not in self.addr:
                self.keep.append(x)
                self.cells.append({"ext": "rng"})
                self.addr[id(x)] = len(self.cells) - 1
            return {"ptr": self.addr[id(x)]}
        return {"imm": enc_ds(x)}

    @staticmethod
    def _classes():
        M = _mods()
        return {M[c]: c for c in CLASSES}


def g_kids(cell):
    return cell.get("dict") or cell.get("attrs") or []


def g_canon(cells, root):
    """the graph below `root` with addresses renumbered in depth-first order"""
    num, out = {}, []

    def go(r):
        if r is None or "imm" in r:
            return r
        a = r["ptr"]
        if a in num:
            return {"ptr": num[a]}
        num[a] = len(num)
        c = cells[a]
        slot = len(out)
        out.append(None)
        if "arr" in c or "ext" in c:
            out[slot] = c
        elif "dict" in c:
            out[slot] = {"dict": [[k, go(v)] for k, v in c["dict"]]}
        else:
            out[slot] = {"obj": c["obj"], "attrs": [[k, go(v)] for k, v in c["attrs"]]}
        return {"ptr": num[a]}
    return {"root": go(root), "cells": out}


def g_tree(cells, r):
    if r is None or "imm" in r:
        return r
    c = cells[r["ptr"]]
    if "arr" in c or "ext" in c:
        return c
    if "dict" in c:
        return {"dict": sorted([[k, g_tree(cells, v)] for k, v in c["dict"]], key=lambda kv: kv[0])}
    return {"obj": c["obj"], "attrs": [[k, g_tree(cells, v)] for k, v in c["attrs"]]}


def g_reach(cells, r, acc=None):
    acc = set() if acc is None else acc
    if r is None or "imm" in r or r["ptr"] in acc:
        return acc
    acc.add(r["ptr"])
    for _, v in g_kids(cells[r["ptr"]]):
        g_reach(cells, v, acc)
    return acc


# ----------------------------------------------------------------------------- generation helpers
NAMES = ["tå", "βb", "c c", "D-4", "e_5", "ζ", "g.7", "日本", "i"]
TRAITS = ["yld", "hté", "oil %", "prot"]
GROUPS = [None, "a", "a/b", "grüppe/β", "/lead", "x//y", "trail/", "./dot/z", "p/q/r", "p/q/s", " sp ace"]


def _perm(rng, xs):
    xs = list(xs)
    rng.shuffle(xs)
    return xs


def _dy(rng, lo=-8, hi=8):
    """dyadic rational as canonical scalar"""
    return canon.enc(Fraction(rng.randint(lo * 4, hi * 4), 4))


def _dy_wide(rng):
    """a double that no float32 can hold (45 significant bits)"""
    return canon.enc(Fraction(2 * rng.randint(-2 ** 43, 2 ** 43) + 1, 2 ** 30))


def gen_obj(rng, cls, shape=None, rich=None, width=None):
    """-> (fields, ctx, grouped, shape).  `rich` = probability that an optional field is present;
    `width` = None (default dtypes, small values) | "narrow" (float32 / int32 where the class accepts
    them) | "wide" (float64 / int64 with values that do not fit the narrow types)"""
    if rich is None:
        rich = rng.choice([0.0, 0.3, 0.7, 1.0])
    opt = lambda: rng.random() < rich
    fdt = "f32" if width == "narrow" else "f64"
    idt = "i32" if width == "narrow" else "i64"
    fval = (lambda lo=-8, hi=8: _dy_wide(rng)) if width == "wide" else (lambda lo=-8, hi=8: _dy(rng, lo, hi))
    big = (lambda v: v + rng.choice([0, 2 ** 31, 3 * 2 ** 33])) if width == "wide" else (lambda v: v)
    fields = {}
    ctx = 0
    grouped = False
    if cls in ("pgmat", "gmat"):
        m, n, p = shape or (rng.choice([1, 2, 2, 3]), rng.randint(1, 4), rng.randint(1, 5))
        sh = [m, n, p] if cls == "pgmat" else [n, p]
        size = n * p * (m if cls == "pgmat" else 1)
        base = rng.randint(-128, 127)
        fields["mat"] = ds("i8", sh, [((base + 7 * i + rng.randint(0, 1)) % 256) - 128 for i in range(size)])
        if opt():
            fields["taxa"] = ds("str", [n], _perm(rng, NAMES)[:n])
        if opt():
            fields["taxa_grp"] = ds(idt, [n], [big(rng.randint(1, 3)) for _ in range(n)])
        if opt():
            fields["vrnt_chrgrp"] = ds(idt, [p], [big(rng.randint(1, 3)) for _ in range(p)])
        if opt():
            fields["vrnt_phypos"] = ds(idt, [p], [big(rng.randint(1, 10 ** 9)) for _ in range(p)])
        if opt():
            fields["vrnt_name"] = ds("str", [p], ["m" + n_ for n_ in _perm(rng, NAMES)[:p]])
        if opt():
            fields["vrnt_genpos"] = ds("f64", [p], [_dy(rng, 0, 8) for _ in range(p)])
        if opt():
            fields["vrnt_xoprob"] = ds("f64", [p], [canon.enc(Fraction(rng.randint(0, 8), 16)) for _ in range(p)])
        if opt():
            fields["vrnt_hapgrp"] = ds(idt, [p], [big(rng.randint(0, 4)) for _ in range(p)])
        if opt():
            fields["vrnt_hapalt"] = ds("str", [p], [rng.choice(["A", "C", "G", "T", "ÅT"]) for _ in range(p)])
        if opt():
            fields["vrnt_hapref"] = ds("str", [p], [rng.choice(["A", "C", "G", "T"]) for _ in range(p)])
        if opt():
            fields["vrnt_mask"] = ds("bool", [p], [rng.randint(0, 1) for _ in range(p)])
        if cls == "gmat":
            fields["ploidy"] = ds("i64", [], [rng.choice([1, 2, 2, 4])])
        grouped = rng.random() < 0.5
        shape = (m, n, p)
    elif cls in ("bvmat", "cmat", "vmat"):
        n, t = shape or (rng.randint(1, 4), rng.randint(1, 3))
        if cls == "bvmat":
            fields["mat"] = ds(fdt, [n, t], [fval() for _ in range(n * t)])
            fields["location"] = ds(fdt, [t], [fval() for _ in range(t)])
            fields["scale"] = ds("f64", [t], [canon.enc(Fraction(rng.randint(1, 16), 4)) for _ in range(t)])
        elif cls == "cmat":
            # float64 / int64 only (the class insists), but wide values all the same
            fields["mat"] = ds("f64", [n, n], [fval(0, 2) if width == "wide" else _dy(rng, 0, 2)
                                               for _ in range(n * n)])     # asymmetric on purpose
        else:
            fields["mat"] = ds(fdt, [n, n, t], [fval(0, 8) for _ in range(n * n * t)])
        if opt():
            fields["taxa"] = ds("str", [n], _perm(rng, NAMES)[:n])
        if opt():
            gdt = "i64" if cls == "cmat" else idt
            fields["taxa_grp"] = ds(gdt, [n], [big(rng.randint(1, 3)) for _ in range(n)])
        if cls != "cmat" and opt():
            fields["trait"] = ds("str", [t], _perm(rng, TRAITS)[:t])
        grouped = rng.random() < 0.5
        shape = (n, t)
    elif cls in ("algmod", "adlgmod"):
        q, pm, pa, t = shape or (rng.randint(1, 2), rng.randint(0, 2), rng.randint(1, 4), rng.randint(1, 3))
        fields["beta"] = ds("f64", [q, t], [fval() for _ in range(q * t)])
        if pm > 0 or rng.random() < 0.5:
            fields["u_misc"] = ds("f64", [pm, t], [fval() for _ in range(pm * t)])
        fields["u_a"] = ds("f64", [pa, t], [fval() for _ in range(pa * t)])
        if cls == "adlgmod":
            fields["u_d"] = ds("f64", [pa, t], [fval() for _ in range(pa * t)])
        if opt():
            fields["trait"] = ds("str", [t], _perm(rng, TRAITS)[:t])
        if opt():
            fields["model_name"] = ds("str", [], [rng.choice(["rrBLUP", "mödel №1", "x"])])
        if opt():
            hp = {}
            for k in _perm(rng, ["k", "lam", "nit", "tol", "wts", "flag"])[:rng.randint(0, 4)]:
                r = rng.random()
                if r < 0.3:
                    hp[k] = ds("i64", [], [rng.randint(0, 50)])
                elif r < 0.6:
                    hp[k] = ds("f64", [], [_dy(rng)])
                elif r < 0.75:
                    hp[k] = ds("f64", [2], [_dy(rng), _dy(rng)])
                elif r < 0.92:
                    hp[k] = ds("str", [], [rng.choice(["ML", "REML", "méthode"])])
                else:
                    hp[k] = ds("bool", [], [rng.randint(0, 1)])
            fields["hyperparams"] = {"dict": hp}
        shape = (q, pm, pa, t)
    elif cls == "ge":
        ne, t = shape or (rng.randint(1, 3), rng.randint(1, 3))
        ctx = t
        fields["nenv"] = ds("i64", [], [ne])
        fields["nrep"] = ds("i64", [ne], [rng.randint(1, 4) for _ in range(ne)])
        for k in ("var_env", "var_rep", "var_err"):
            if opt():
                fields[k] = ds("f64", [t], [canon.enc(Fraction(rng.randint(0, 12), 4)) for _ in range(t)])
        shape = (ne, t)
    elif cls in ("sgmap", "egmap"):
        p = (shape or (rng.randint(2, 7),))[0]
        chrs = sorted(rng.randint(1, 3) for _ in range(p))
        pos, gen = [], []
        for j in range(p):
            new = j == 0 or chrs[j] != chrs[j - 1]
            pos.append(rng.randint(1, 50) if new else pos[-1] + rng.randint(1, 1000))
            gen.append(Fraction(rng.randint(0, 8), 64) if new else gen[-1] + Fraction(rng.randint(1, 64), 64))
        order = _perm(rng, range(p))               # the constructor sorts and groups
        fields["vrnt_chrgrp"] = ds("i64", [p], [chrs[i] for i in order])
        fields["vrnt_phypos"] = ds("i64", [p], [pos[i] for i in order])
        fields["vrnt_genpos"] = ds("f64", [p], [canon.enc(gen[i]) for i in order])
        if cls == "egmap":
            fields["vrnt_stop"] = ds("i64", [p], [pos[i] + rng.randint(0, 5) for i in order])
            if opt():
                fields["vrnt_name"] = ds("str", [p], ["m" + n_ for n_ in _perm(rng, NAMES)[:p]])
            if opt():
                fields["vrnt_fncode"] = ds("str", [p], [rng.choice(["H", "K", "U", "çustom"]) for _ in range(p)])
        shape = (p,)
    else:
        raise ValueError(cls)
    return fields, ctx, grouped, shape


def norm_group(g):
    """h5py path normalisation, mirrored here only to keep generated histories valid"""
    if g is None:
        return ()
    return tuple(c for c in g.split("/") if c not in ("", "."))


# ----------------------------------------------------------------------------- the property
class C16(Prop):
    PID = "C16"
    MODULE = "PybropsModel.Props.C16"
    N_QUICK = 300
    N_THOROUGH = 4000
    CORRESPONDENCE = ("functional (h5 histories, flat copies, object-graph deep copies, VCF import, all seven "
                      "data-frame layouts); CSV text is covered by the frame models through the abstract "
                      "dialect contract (cell printing/parsing itself is trusted)")
    RULE = ("h5 (40%): histories of 1-6 to_hdf5 calls on one file (8 classes; optional label arrays present/absent, "
            "grouped or not, non-ASCII labels and group names, odd spellings of nested groups, same and different "
            "groups and classes, richer-then-poorer and same-/different-shape overwrites, overwrite=False on "
            "occupied groups, file name or open h5py.File) with interleaved reads and a final from_hdf5 of every "
            "location; non-trivial = a location written at least twice or >= 5 fields present.  "
            "graph (8%): the object graph (arrays, dictionaries, nested instances, random source) of an object "
            "with and without aliased attributes, deep-copied by copy.deepcopy and by .deepcopy(); "
            "copy (12%): copy.copy / copy.deepcopy / .copy() / .deepcopy() of 10 classes, then every buffer of "
            "the copy overwritten in place; non-trivial = deep copy with >= 2 arrays.  "
            "frame (20%): to_pandas/from_pandas or to_csv/from_csv (dict variants for models) with matching "
            "options (label columns on/off, renamed columns, M/cM units).  "
            "vcf (20%): VCF text with 1-4 samples x 1-7 records, unsorted chromosomes, position ties, "
            "tri-allelic calls, phased and unphased class, with and without grouping; non-trivial = >= 2 samples, "
            ">= 2 records, >= 2 distinct coordinates")
    TRUSTED = ["h5py: dataset read = dataset written (variable-length strings come back as bytes); "
               "path normalisation as modelled by Store.parsePath (checked by correspondence on odd spellings)",
               "numpy.ndarray.__copy__/__deepcopy__ allocate a fresh buffer with equal contents (copy.deepcopy "
               "itself — memo, dictionaries, the classes' __deepcopy__ — is modelled in Model/StoreGraph)",
               "pandas: DataFrame(dict) keeps insertion order, df[name] finds the column; CSV text: the dialect "
               "contract StoreFrame.Lawful (a printed float/int/label-safe string column is typed and parsed "
               "back to itself, None = empty cell = NA; floats to 1e-9)",
               "cyvcf2: variant.genotypes[i] = [allele0, allele1, phased], vcf.samples, CHROM/POS/ID as written",
               "constructors of the 8 persistable classes as modelled by Store.construct* (checked on every "
               "generated object through the driver op c16.valid and on every read-back)"]
    ASSUMPTIONS = ["matrices have at least one taxon / variant / trait (h5py cannot store an empty object array)",
                   "group names are non-empty strings without '..' whose components are not field names of the "
                   "classes stored in the same file; hyper-parameter keys are plain names without '/', their "
                   "values are not None",
                   "floats are dyadic rationals (exactly representable)",
                   "overwrite=False is exercised on fresh locations and on locations holding an object of the same "
                   "class (where the call must refuse and leave the file unchanged), not across classes",
                   "data-frame layouts: label arrays that the layout has no way to omit are present (trait names of "
                   "a breeding-value matrix, taxa of coancestry / variance matrices); variance-matrix labels are "
                   "sorted (the long layout is canonical in label order); column names are pairwise distinct",
                   "labels going through CSV text are label-safe: not number-, NA- or boolean-looking (read_csv "
                   "would retype the column: '007' -> 7.0, 'NA' -> nan)",
                   "VCF: phased diploid calls without missing alleles; a chromosome name that is not an integer "
                   "literal is outside the quantifier (the matrix stores integer chromosomes; the import is "
                   "refused with ValueError and the model says so); a record without ID is inside, its name is "
                   "not compared (the code stores 'None')",
                   "G_E_Phenotyping.__deepcopy__ hands the random source over on purpose (source comment 'should "
                   "not be copied'): it is treated as an external resource, not as object state"]

    # ------------------------------------------------------------------ generation
    def corpus(self):
        mat = ds("i8", [2, 2, 3], [0, 1, 0, 1, 1, 0, 1, 0, 0, 0, 1, 1])
        rich = {"mat": mat, "taxa": ds("str", [2], ["tå", "βb"]), "taxa_grp": ds("i64", [2], [2, 1]),
                "vrnt_chrgrp": ds("i64", [3], [1, 1, 2]), "vrnt_phypos": ds("i64", [3], [10, 20, 5]),
                "vrnt_name": ds("str", [3], ["m1", "m2", "m3"])}
        poor = {"mat": ds("i8", [2, 2, 3], [1, 1, 0, 0, 1, 0, 0, 1, 1, 1, 0, 0])}
        poor_other_shape = {"mat": ds("i8", [2, 3, 3], [0] * 18)}
        w = lambda cls, g, f, grouped=False, ow=True, ctx=0: {
            "t": "w", "cls": cls, "group": g, "ow": ow, "fields": f, "ctx": ctx, "grouped": grouped, "open": False}
        beta = ds("f64", [1, 2], [1, 2])
        ua = ds("f64", [2, 2], ["1/2", "3/2", 2, -1])
        return [
            # regression D8 (fixed by 93761174): rich then poor object at one location; before the fix the
            # labels and group metadata of the first came back
            {"kind": "h5", "ops": [w("pgmat", "a/b", rich, grouped=True), w("pgmat", "a/b", poor)]},
            # regression D8, shape variant: the stale labels no longer fitted and from_hdf5 raised
            {"kind": "h5", "ops": [w("pgmat", None, rich), w("pgmat", None, poor_other_shape)]},
            # regression D8, nested dictionary variant: keys of an earlier `hyperparams` survived
            {"kind": "h5", "ops": [
                w("algmod", "m", {"beta": beta, "u_a": ua, "trait": ds("str", [2], ["yld", "hté"]),
                                  "hyperparams": {"dict": {"k": ds("i64", [], [5]), "lam": ds("f64", [], ["1/4"])}}}),
                w("algmod", "m", {"beta": beta, "u_a": ua, "trait": ds("str", [2], ["yld", "hté"]),
                                  "hyperparams": {"dict": {"k": ds("i64", [], [6])}}})]},
            # regression D29 (fixed by 9631bba1): a string-valued hyper-parameter was read back as bytes
            {"kind": "h5", "ops": [
                w("algmod", "grüppe/β", {"beta": beta, "u_a": ua, "model_name": ds("str", [], ["mödel"]),
                                         "hyperparams": {"dict": {"method": ds("str", [], ["ML"])}}})]},
            # boundary cases that hold
            {"kind": "h5", "ops": [w("pgmat", "a/b", poor), w("pgmat", "a/b", rich, grouped=True)]},
            {"kind": "h5", "ops": [w("pgmat", "/x//y/", rich), w("pgmat", "x/y", rich, ow=False),
                                   {"t": "r", "cls": "pgmat", "group": "x/./y", "ctx": 0}]},
            {"kind": "h5", "ops": [w("cmat", None, {"mat": ds("f64", [1, 1], ["3/2"])}),
                                   w("cmat", "sub", {"mat": ds("f64", [1, 1], ["5/2"]), "taxa": ds("str", [1], ["日本"])})]},
            # copies: nested dictionary holding an array, grouped matrix, protocol bound to a model
            {"kind": "copy", "cls": "algmod", "ctx": 0, "grouped": False, "how": "copy.deepcopy",
             "fields": {"beta": beta, "u_a": ua, "trait": ds("str", [2], ["yld", "hté"]),
                        "hyperparams": {"dict": {"wts": ds("f64", [2], [1, "1/2"]), "k": ds("i64", [], [3])}}}},
            {"kind": "copy", "cls": "algmod", "ctx": 0, "grouped": False, "how": "copy.copy",
             "fields": {"beta": beta, "u_a": ua,
                        "hyperparams": {"dict": {"wts": ds("f64", [2], [1, "1/2"])}}}},
            {"kind": "copy", "cls": "pgmat", "ctx": 0, "grouped": True, "how": "obj.deepcopy", "fields": rich},
            {"kind": "copy", "cls": "ge", "ctx": 2, "grouped": False, "how": "copy.deepcopy",
             "fields": {"nenv": ds("i64", [], [2]), "nrep": ds("i64", [2], [1, 3]),
                        "var_err": ds("f64", [2], ["1/2", 2])}},
            # VCF: unsorted chromosomes, tie in position, tri-allelic call, non-ASCII names
            {"kind": "vcf", "samples": ["tå", "βb", "s 3"], "group": True, "phased": True, "recs": [
                {"chrom": 2, "pos": 100, "id": "m1", "calls": [[0, 1], [1, 1], [1, 0]]},
                {"chrom": 1, "pos": 300, "id": "mé2", "calls": [[2, 1], [0, 0], [0, 2]]},
                {"chrom": 1, "pos": 200, "id": "m3", "calls": [[1, 1], [0, 1], [0, 0]]},
                {"chrom": 1, "pos": 200, "id": "m4", "calls": [[0, 0], [1, 0], [1, 1]]}]},
            {"kind": "vcf", "samples": ["only"], "group": False, "phased": False, "recs": [
                {"chrom": 3, "pos": 7, "id": "x", "calls": [[1, 0]]}]},
            # dtype width at one location: float32 then float64 (values no float32 holds), int32 then int64 > 2^31
            {"kind": "h5", "ops": [
                w("bvmat", "w", {"mat": ds("f32", [2, 1], ["1/2", "-3/4"]), "location": ds("f32", [1], ["1/4"]),
                                 "scale": ds("f64", [1], [2]), "taxa_grp": ds("i32", [2], [1, 2])}),
                w("bvmat", "w", {"mat": ds("f64", [2, 1], ["1099511627777/1073741824", "-7/3221225472"]),
                                 "location": ds("f64", [1], ["1/1073741824"]), "scale": ds("f64", [1], [2]),
                                 "taxa_grp": ds("i64", [2], [2147483648, 25769803779])})]},
            {"kind": "h5", "ops": [
                w("pgmat", None, {"mat": mat, "vrnt_phypos": ds("i32", [3], [10, 20, 5])}),
                w("pgmat", None, {"mat": mat, "vrnt_phypos": ds("i64", [3], [4294967296, 2147483649, 5])}),
                w("pgmat", None, {"mat": mat, "vrnt_phypos": ds("i32", [3], [7, 8, 9])})]},
            # VCF with allele indices 2 and 3 in phased calls
            {"kind": "vcf", "samples": ["a", "b"], "group": True, "phased": True, "recs": [
                {"chrom": 1, "pos": 5, "id": "t1", "calls": [[2, 3], [3, 0]]},
                {"chrom": 1, "pos": 2, "id": "t2", "calls": [[0, 2], [1, 3]]}]},
            {"kind": "vcf", "samples": ["a", "b"], "group": False, "phased": False, "recs": [
                {"chrom": 1, "pos": 5, "id": "t1", "calls": [[2, 3], [3, 0]]}]},
            # object graphs: aliased attributes (kept by the memo / split where the class copies without memo /
            # split by .deepcopy() of the classes that call __deepcopy__(None)), nested instance
            {"kind": "graph", "cls": "algmod", "ctx": 0, "grouped": False, "alias": "pair", "how": "copy.deepcopy",
             "fields": {"beta": beta, "u_a": ua, "u_misc": ds("f64", [2, 2], [0, 1, 2, 3]),
                        "hyperparams": {"dict": {"wts": ds("f64", [2], [1, "1/2"])}}}},
            {"kind": "graph", "cls": "algmod", "ctx": 0, "grouped": False, "alias": "pair", "how": "obj.deepcopy",
             "fields": {"beta": beta, "u_a": ua, "u_misc": ds("f64", [2, 2], [0, 1, 2, 3])}},
            {"kind": "graph", "cls": "bvmat", "ctx": 0, "grouped": True, "alias": "pair", "how": "copy.deepcopy",
             "fields": {"mat": ds("f64", [2, 1], [1, 2]), "location": ds("f64", [1], [3]), "scale": ds("f64", [1], [2]),
                        "taxa_grp": ds("i64", [2], [2, 1])}},
            {"kind": "graph", "cls": "ge", "ctx": 2, "grouped": False, "alias": "pair", "how": "obj.deepcopy",
             "fields": {"nenv": ds("i64", [], [2]), "nrep": ds("i64", [2], [1, 3]),
                        "var_env": ds("f64", [2], [1, 2]), "var_err": ds("f64", [2], ["1/2", 2])}},
            # VCF: identifiers missing on some records; a chromosome that is not an integer (refused)
            {"kind": "vcf", "samples": ["a", "b"], "group": True, "phased": True, "recs": [
                {"chrom": 2, "pos": 5, "id": None, "calls": [[0, 1], [1, 0]]},
                {"chrom": 1, "pos": 9, "id": "rs1", "calls": [[1, 1], [0, 0]]},
                {"chrom": 1, "pos": 3, "id": None, "calls": [[0, 0], [1, 1]]}]},
            {"kind": "vcf", "samples": ["a"], "group": False, "phased": True, "recs": [
                {"chrom": 1, "pos": 5, "id": "m1", "calls": [[0, 1]]},
                {"chrom": "X", "pos": 9, "id": "m2", "calls": [[1, 1]]}]},
            # genetic maps through CSV with non-default matching units on both sides
            {"kind": "frame", "cls": "sgmap", "ctx": 0, "via": "csv", "opts": {"units": "M"},
             "fields": {"vrnt_chrgrp": ds("i64", [3], [1, 1, 2]), "vrnt_phypos": ds("i64", [3], [10, 50, 5]),
                        "vrnt_genpos": ds("f64", [3], ["1/8", "1/2", "3/64"])}},
            {"kind": "frame", "cls": "sgmap", "ctx": 0, "via": "csv", "opts": {"units": "Morgans"},
             "fields": {"vrnt_chrgrp": ds("i64", [2], [1, 1]), "vrnt_phypos": ds("i64", [2], [10, 50]),
                        "vrnt_genpos": ds("f64", [2], ["1/4", "3/4"])}},
            {"kind": "frame", "cls": "egmap", "ctx": 0, "via": "csv", "opts": {"units": "M", "name": False, "fncode": False},
             "fields": {"vrnt_chrgrp": ds("i64", [2], [1, 1]), "vrnt_phypos": ds("i64", [2], [10, 50]),
                        "vrnt_stop": ds("i64", [2], [12, 50]), "vrnt_genpos": ds("f64", [2], ["1/4", "3/4"])}},
            # data frames: centimorgan default on the way out needs the matching unit on the way in
            {"kind": "frame", "cls": "sgmap", "ctx": 0, "via": "csv", "opts": {"units": "cM"},
             "fields": {"vrnt_chrgrp": ds("i64", [4], [2, 1, 1, 2]), "vrnt_phypos": ds("i64", [4], [10, 50, 20, 5]),
                        "vrnt_genpos": ds("f64", [4], ["7/64", "1/2", "1/4", "1/64"])}},
        ]

    def _gen_h5(self, rng):
        nloc = rng.choice([1, 1, 2, 3])
        # pairwise non-interfering locations: distinct after normalisation (nesting is allowed, group
        # components never collide with field names)
        locs = []
        for g in _perm(rng, GROUPS):
            if norm_group(g) not in [norm_group(x) for x in locs]:
                locs.append(g)
            if len(locs) == nloc:
                break
        ops = []
        state = {}          # location -> (cls, shape)
        richness = {}       # location -> richness of the last object (half of the rewrites do not get poorer)
        mixed = rng.random() < 0.33
        nw = rng.randint(1, 6)
        for _ in range(nw):
            g = rng.choice(locs)
            key = norm_group(g)
            if key in state and rng.random() < 0.85:
                cls, shape = state[key]
                if rng.random() < (0.1 if mixed else 0.25):
                    shape = None
            else:
                cls, shape = rng.choice(H5_CLASSES), None
            rich = rng.choice([0.0, 0.3, 0.7, 1.0])
            if key in richness and rng.random() < 0.5:
                rich = 1.0 if richness[key] > 0 else 0.0
            richness[key] = rich
            # a third of the histories mix dtype widths at one location: float32/int32 objects and
            # float64/int64 objects whose values do not fit the narrow types, same shape
            width = rng.choice(["narrow", "wide", "wide"]) if mixed else None
            fields, ctx, grouped, shape = gen_obj(rng, cls, shape, rich=rich, width=width)
            ow = rng.random() < 0.88
            if key in state and state[key][0] != cls:
                ow = True      # overwrite=False is only exercised where it must refuse (same class) or on fresh locations
            ops.append({"t": "w", "cls": cls, "group": g, "ow": ow, "fields": fields, "ctx": ctx,
                        "grouped": grouped, "open": rng.random() < 0.5})
            if ow or key not in state:
                state[key] = (cls, shape)
            if rng.random() < 0.25:
                c, _ = state[key]
                ops.append({"t": "r", "cls": c, "group": g, "ctx": ctx if c == "ge" else 0})
        return {"kind": "h5", "ops": ops}

    def generate(self, rng, n, tier):
        out = []
        for _ in range(n):
            r = rng.random()
            if r < 0.4:
                out.append(self._gen_h5(rng))
            elif r < 0.52:
                out.append(self._gen_copy(rng))
            elif r < 0.6:
                out.append(self._gen_graph(rng))
            elif r < 0.8:
                out.append(self._gen_frame(rng))
            else:
                out.append(self._gen_vcf(rng))
        return out

    # ------------------------------------------------------------------ data frames / CSV
    def _gen_frame(self, rng):
        cls = rng.choice(["bvmat", "bvmat", "cmat", "vmat", "sgmap", "sgmap", "egmap", "algmod", "adlgmod"])
        fields, ctx, grouped, shape = gen_obj(rng, cls, rich=1.0)
        opts = {}
        if cls == "bvmat":
            # a label array that is absent has no column: the matching option is `..._col = None`
            if rng.random() < 0.3:
                fields.pop("taxa", None)
            if rng.random() < 0.3:
                fields.pop("taxa_grp", None)
            opts = {"taxa_col": "taxa" if "taxa" in fields else None,
                    "taxa_grp_col": rng.choice(["taxa_grp", "grp ü"]) if "taxa_grp" in fields else None}
        elif cls == "cmat":
            if rng.random() < 0.4:
                fields.pop("taxa_grp", None)
            opts = {"taxa_col": rng.choice(["taxa", "näme"]),
                    "taxa_grp_col": rng.choice(["taxa_grp", None]) if "taxa_grp" not in fields else "taxa_grp"}
        elif cls == "vmat":
            # the long layout is canonical in label order: taxa and traits sorted (numpy.unique)
            n, t = shape
            srt = rng.random() < 0.65
            if srt:
                fields["taxa"] = ds("str", [n], sorted(fields["taxa"]["v"]))
                fields["trait"] = ds("str", [t], sorted(fields["trait"]["v"]))
            if rng.random() < 0.4:
                fields.pop("taxa_grp", None)
            # unsorted labels: the read-back must be the same labelled data in sorted label order
            opts = {"grp": "taxa_grp" in fields, "sorted": srt}
        elif cls in ("sgmap", "egmap"):
            opts = {"units": rng.choice(["M", "cM", "Morgans", "centiMorgans"])}
            if cls == "egmap":
                opts["name"] = "vrnt_name" in fields
                opts["fncode"] = "vrnt_fncode" in fields
        else:
            fields.pop("model_name", None)
            fields.pop("hyperparams", None)
            if "u_misc" not in fields:
                q, pm, pa, t = shape
                fields["u_misc"] = ds("f64", [0, t], [])
        via = rng.choice(["pandas", "csv", "csv"]) if cls in ("sgmap", "egmap") else rng.choice(["pandas", "csv"])
        return {"kind": "frame", "cls": cls, "fields": fields, "ctx": ctx, "via": via, "opts": opts}

    def _impl_frame(self, case):
        M = _mods()
        cls, via, opts = case["cls"], case["via"], case["opts"]
        o = build(cls, case["fields"], case.get("ctx", 0), False)
        before = fields_of(cls, o)
        os.makedirs(TMP_ROOT, exist_ok=True)
        d = tempfile.mkdtemp(prefix="fr_", dir=TMP_ROOT)
        fn = os.path.join(d, "t.csv")
        try:
            C = M[cls]
            if cls == "bvmat":
                kw = {"taxa_col": opts["taxa_col"], "taxa_grp_col": opts["taxa_grp_col"]}
                if via == "pandas":
                    r = C.from_pandas(o.to_pandas(unscale=True, **kw), **kw)
                else:
                    o.to_csv(fn, unscale=True, **kw)
                    r = C.from_csv(fn, **kw)
                extra = {"unscaled_src": enc_ds(o.unscale()), "unscaled_got": enc_ds(r.unscale())}
            elif cls == "cmat":
                kw = {"taxa_col": opts["taxa_col"], "taxa_grp_col": opts["taxa_grp_col"]}
                if via == "pandas":
                    r = C.from_pandas(o.to_pandas(**kw), **kw)
                else:
                    o.to_csv(fn, **kw)
                    r = C.from_csv(fn, **kw)
                extra = {}
            elif cls == "vmat":
                kw = {} if opts["grp"] else {"female_grp_col": None, "male_grp_col": None}
                if via == "pandas":
                    r = C.from_pandas(o.to_pandas(**kw), **kw)
                else:
                    o.to_csv(fn, **kw)
                    r = C.from_csv(fn, **kw)
                extra = {}
            elif cls in ("sgmap", "egmap"):
                kw = {"vrnt_genpos_units": opts["units"]}
                kr = dict(kw)
                if cls == "egmap":
                    kr["vrnt_name_col"] = "name" if opts["name"] else None
                    kr["vrnt_fncode_col"] = "fncode" if opts["fncode"] else None
                if via == "pandas":
                    r = C.from_pandas(o.to_pandas(**kw), **kr)
                else:
                    o.to_csv(fn, **kw)
                    r = C.from_csv(fn, **kr)
                extra = {}
            else:
                if via == "pandas":
                    r = C.from_pandas_dict(o.to_pandas_dict())
                else:
                    names = {k: os.path.join(d, k + ".csv") for k in (["beta", "u_misc", "u_a"] +
                                                                        (["u_d"] if cls == "adlgmod" else []))}
                    o.to_csv_dict(names)
                    r = C.from_csv_dict(names)
                extra = {}
            return dict({"before": before, "got": fields_of(cls, r), "src_after": fields_of(cls, o),
                         "same_type": type(r) is type(o)}, **extra)
        finally:
            shutil.rmtree(d, ignore_errors=True)

    # which fields a layout carries (everything else is not part of the format)
    FRAME_FIELDS = {
        "bvmat": ["taxa", "taxa_grp", "trait"], "cmat": ["mat", "taxa", "taxa_grp"],
        "vmat": ["mat", "taxa", "taxa_grp", "trait"],
        "sgmap": ["vrnt_chrgrp", "vrnt_phypos", "vrnt_genpos"] + GMAP_META,
        "egmap": ["vrnt_chrgrp", "vrnt_phypos", "vrnt_stop", "vrnt_genpos", "vrnt_name", "vrnt_fncode"] + GMAP_META,
        "algmod": ["beta", "u_misc", "u_a", "trait"], "adlgmod": ["beta", "u_misc", "u_a", "u_d", "trait"],
    }

    @staticmethod
    def _vmat_sorted(b):
        """the same labelled variance matrix with taxa and traits in increasing label order"""
        n, _, t = b["mat"]["sh"]
        po = sorted(range(n), key=lambda i: b["taxa"]["v"][i])
        to = sorted(range(t), key=lambda k: b["trait"]["v"][k])
        v = b["mat"]["v"]
        out = dict(b)
        out["mat"] = ds(b["mat"]["dt"], [n, n, t], [v[(po[i] * n + po[j]) * t + to[k]]
                                                     for i in range(n) for j in range(n) for k in range(t)])
        out["taxa"] = ds("str", [n], [b["taxa"]["v"][i] for i in po])
        out["trait"] = ds("str", [t], [b["trait"]["v"][k] for k in to])
        if b.get("taxa_grp"):
            out["taxa_grp"] = ds(b["taxa_grp"]["dt"], [n], [b["taxa_grp"]["v"][i] for i in po])
        return out

    def _req_frame(self, case, obs):
        cls, b = case["cls"], obs["before"]
        if cls == "bvmat":
            n, t = b["mat"]["sh"]
            return [{"op": "c16.frame_bv", "mat": self._nest(b["mat"]["v"], [n, t]), "location": b["location"]["v"],
                     "scale": b["scale"]["v"], "taxa": b["taxa"]["v"] if b["taxa"] else None,
                     "taxa_grp": b["taxa_grp"]["v"] if b["taxa_grp"] else None,
                     "trait": b["trait"]["v"] if b["trait"] else None,
                     "taxa_col": case["opts"]["taxa_col"], "taxa_grp_col": case["opts"]["taxa_grp_col"]}]
        if cls == "sgmap":
            return [{"op": "c16.frame_gmap", "chrgrp": b["vrnt_chrgrp"]["v"], "phypos": b["vrnt_phypos"]["v"],
                     "genpos": b["vrnt_genpos"]["v"], "units_out": case["opts"]["units"],
                     "units_in": case["opts"]["units"]}]
        lst = lambda k: b[k]["v"] if b.get(k) else None
        if cls == "cmat":
            n = b["mat"]["sh"][0]
            return [{"op": "c16.frame_cmat", "mat": self._nest(b["mat"]["v"], [n, n]), "taxa": lst("taxa"),
                     "taxa_grp": lst("taxa_grp"), "taxa_col": case["opts"]["taxa_col"],
                     "taxa_grp_col": case["opts"]["taxa_grp_col"]}]
        if cls == "egmap":
            return [{"op": "c16.frame_egmap", "chrgrp": lst("vrnt_chrgrp"), "phypos": lst("vrnt_phypos"),
                     "stop": lst("vrnt_stop"), "genpos": lst("vrnt_genpos"), "name": lst("vrnt_name"),
                     "fncode": lst("vrnt_fncode"), "units": case["opts"]["units"],
                     "read_name": case["opts"]["name"], "read_fncode": case["opts"]["fncode"]}]
        if cls in ("algmod", "adlgmod"):
            keys = ["beta", "u_misc", "u_a"] + (["u_d"] if cls == "adlgmod" else [])
            t = b["beta"]["sh"][1]
            return [{"op": "c16.frame_model", "ntrait": t, "trait": lst("trait"),
                     "blocks": [{"k": k, "rows": self._nest(b[k]["v"], b[k]["sh"])} for k in keys]}]
        if cls == "vmat":
            return [{"op": "c16.frame_vmat", "mat": self._nest(b["mat"]["v"], b["mat"]["sh"]), "taxa": lst("taxa"),
                     "taxa_grp": lst("taxa_grp"), "trait": lst("trait"), "with_grp": case["opts"]["grp"]}]
        return []

    @staticmethod
    def _ds_close(a, b):
        """equal labels / integers, floats to 1e-9 (text and unit conversions round)"""
        if a is None or b is None:
            return a is None and b is None
        if a["dt"] != b["dt"] or a["sh"] != b["sh"]:
            return False
        if a["dt"] in ("f64", "f32"):
            return canon.close_enc(a["v"], b["v"], rel=1e-9, abs_=1e-12)
        return a["v"] == b["v"]

    def _judge_frame(self, case, obs, answers):
        cls = case["cls"]
        notes = []
        spec = obs["same_type"] and obs["src_after"] == obs["before"]
        if not spec:
            notes.append("type changed or exporting modified the source")
        want = obs["before"]
        if cls == "vmat" and not case["opts"].get("sorted", True):
            want = self._vmat_sorted(want)
        for k in self.FRAME_FIELDS[cls]:
            if not self._ds_close(want[k], obs["got"][k]):
                spec = False
                notes.append(f"{k}: wrote {json.dumps(obs['before'][k])[:160]} read {json.dumps(obs['got'][k])[:160]}")
        if cls == "bvmat" and not self._ds_close(obs["unscaled_src"], obs["unscaled_got"]):
            spec = False
            notes.append(f"breeding values: wrote {json.dumps(obs['unscaled_src'])[:200]} "
                         f"read {json.dumps(obs['unscaled_got'])[:200]}")
        corr = True
        if cls == "bvmat":
            m = answers[0]["ok"]
            g = obs["got"]
            n, t = obs["unscaled_got"]["sh"]
            cols_impl = [[obs["unscaled_got"]["v"][i * t + j] for i in range(n)] for j in range(t)]
            ok = ("err" not in m and m["taxa"] == (g["taxa"]["v"] if g["taxa"] else None)
                  and m["taxa_grp"] == (g["taxa_grp"]["v"] if g["taxa_grp"] else None)
                  and [str(x) for x in m["trait"]] == [str(x) for x in (g["trait"]["v"] if g["trait"] else [])]
                  and canon.close_enc(m["cols"], cols_impl, rel=1e-9, abs_=1e-12))
            if not ok:
                corr = False
                notes.append(f"model={json.dumps(m)[:300]} impl labels/values={json.dumps(g)[:300]}")
        if cls == "sgmap":
            m = answers[0]["ok"]
            g = obs["got"]
            ok = ("err" not in m and m["chrgrp"] == g["vrnt_chrgrp"]["v"] and m["phypos"] == g["vrnt_phypos"]["v"]
                  and canon.close_enc(m["genpos"], g["vrnt_genpos"]["v"], rel=1e-9, abs_=1e-12))
            if not ok:
                corr = False
                notes.append(f"model={json.dumps(m)[:300]} impl={json.dumps(g)[:300]}")
        flat = lambda x: [e for r in x for e in (flat(r) if isinstance(r, list) else [r])]
        vals = lambda k: (obs["got"][k]["v"] if obs["got"].get(k) else None)
        if cls in ("cmat", "egmap", "algmod", "adlgmod", "vmat"):
            m = answers[0]["ok"]
            g = obs["got"]
            if "err" in m:
                ok = False
            elif cls == "cmat":
                ok = (m["taxa"] == vals("taxa") and m["taxa_grp"] == vals("taxa_grp")
                      and canon.close_enc(flat(m["mat"]), g["mat"]["v"], rel=1e-9, abs_=1e-12))
            elif cls == "egmap":
                ok = (m["chrgrp"] == vals("vrnt_chrgrp") and m["phypos"] == vals("vrnt_phypos")
                      and m["stop"] == vals("vrnt_stop") and m["name"] == vals("vrnt_name")
                      and m["fncode"] == vals("vrnt_fncode")
                      and canon.close_enc(m["genpos"], g["vrnt_genpos"]["v"], rel=1e-9, abs_=1e-12))
            elif cls == "vmat":
                mm = flat(m["mat"])
                ok = (m["taxa"] == vals("taxa") and m["taxa_grp"] == vals("taxa_grp") and m["trait"] == vals("trait")
                      and None not in mm and not str(g["mat"]["dt"]).startswith("other")
                      and canon.close_enc(mm, g["mat"]["v"], rel=1e-9, abs_=1e-12))
            else:
                ok = [str(x) for x in m["trait"]] == [str(x) for x in (vals("trait") or [])]
                for blk in m["blocks"]:
                    ok = ok and canon.close_enc(flat(blk["rows"]), g[blk["k"]]["v"], rel=1e-9, abs_=1e-12) \
                        and [len(blk["rows"])] == g[blk["k"]]["sh"][:1]
            if not ok:
                corr = False
                notes.append(f"model={json.dumps(m)[:300]} impl={json.dumps(g)[:300]}")
        return {"corr": corr, "spec": spec, "nontrivial": True,
                "detail": f"frame[{cls},{case['via']},{json.dumps(case['opts'])}] " + "; ".join(notes)[:1200]}

    # ------------------------------------------------------------------ VCF
    def _gen_vcf(self, rng):
        n = rng.randint(1, 4)
        p = rng.randint(1, 7)
        samples = _perm(rng, NAMES)[:n]
        nchr = rng.randint(1, 3)
        ids = _perm(rng, ["m%d" % i for i in range(20)] + ["mé", "ß9", "rs12"])[:p]
        recs = []
        for j in range(p):
            amax = rng.choice([1, 1, 2, 3])
            recs.append({"chrom": rng.randint(1, nchr), "pos": rng.choice([10, 10, 20, 300, 4000, rng.randint(1, 10 ** 6)]),
                         "id": ids[j], "calls": [[rng.randint(0, amax), rng.randint(0, amax)] for _ in range(n)]})
        # a fifth of the files have records without identifier (`.`); one file in twelve names a
        # chromosome with something that is not an integer literal (must be refused)
        if rng.random() < 0.2:
            for r in recs:
                if rng.random() < 0.5:
                    r["id"] = None
        if rng.random() < 0.08:
            recs[rng.randrange(p)]["chrom"] = rng.choice(["X", "chr1", "1A", "Ⅷ", "2.0"])
        return {"kind": "vcf", "samples": samples, "recs": recs, "group": rng.random() < 0.6,
                "phased": rng.random() < 0.6}

    @staticmethod
    def _vcf_text(case):
        chroms = sorted({str(r["chrom"]) for r in case["recs"]})
        lines = ["##fileformat=VCFv4.2"] + ["##contig=<ID=%s>" % c for c in chroms]
        lines.append('##FORMAT=<ID=GT,Number=1,Type=String,Description="Genotype">')
        lines.append("\t".join(["#CHROM", "POS", "ID", "REF", "ALT", "QUAL", "FILTER", "INFO", "FORMAT"] + case["samples"]))
        for r in case["recs"]:
            lines.append("\t".join([str(r["chrom"]), str(r["pos"]), r["id"] if r["id"] is not None else ".", "A", "C,G,T", ".", ".", ".", "GT"]
                                   + ["%d|%d" % (a, b) for a, b in r["calls"]]))
        return "\n".join(lines) + "\n"

    def _impl_vcf(self, case):
        M = _mods()
        os.makedirs(TMP_ROOT, exist_ok=True)
        d = tempfile.mkdtemp(prefix="vcf_", dir=TMP_ROOT)
        fn = os.path.join(d, "in.vcf")
        try:
            with open(fn, "w", encoding="utf-8") as f:
                f.write(self._vcf_text(case))
            cls = M["pgmat"] if case["phased"] else M["gmat"]
            bad = [r["chrom"] for r in case["recs"] if not isinstance(r["chrom"], int)]
            try:
                o = cls.from_vcf(fn, auto_group_vrnt=case["group"])
            except ValueError as e:
                if not bad:
                    raise
                return {"fields": None, "refused": f"ValueError: {e}"[:200]}     # meant to be refused
            return {"fields": fields_of("pgmat" if case["phased"] else "gmat", o), "type": type(o).__name__}
        finally:
            shutil.rmtree(d, ignore_errors=True)

    def _req_vcf(self, case, obs):
        f = obs["fields"]
        if f is None:
            return [{"op": "c16.vcf", "samples": case["samples"], "recs": case["recs"], "group": case["group"]}]
        req = {"op": "c16.spec_vcf", "samples": case["samples"], "recs": case["recs"], "group": case["group"],
               "phased": case["phased"],
               "taxa": (f["taxa"] or {}).get("v", []), "chrgrp": (f["vrnt_chrgrp"] or {}).get("v", []),
               "phypos": (f["vrnt_phypos"] or {}).get("v", []), "name": (f["vrnt_name"] or {}).get("v", [])}
        mat = f["mat"]
        nested = self._nest(mat["v"], mat["sh"]) if mat and not str(mat["dt"]).startswith("other") else []
        req["matP" if case["phased"] else "matU"] = nested
        return [{"op": "c16.vcf", "samples": case["samples"], "recs": case["recs"], "group": case["group"]}, req]

    @staticmethod
    def _nest(v, sh):
        if len(sh) <= 1:
            return list(v)
        step = 1
        for s_ in sh[1:]:
            step *= s_
        return [C16._nest(v[i * step:(i + 1) * step], sh[1:]) for i in range(sh[0])]

    def _judge_vcf(self, case, obs, answers):
        if obs["fields"] is None:
            # a chromosome name that is not an integer literal: outside the property's quantifier (the
            # matrix stores integer chromosomes); the model says the import is refused, and so it was
            m = answers[0]["ok"]
            return {"corr": isinstance(m, dict) and "err" in m, "spec": True, "nontrivial": False,
                    "detail": f"vcf refused ({obs['refused']}) model={json.dumps(m)[:100]}"}
        m, sp = answers[0]["ok"], answers[1]["ok"]
        if isinstance(m, dict) and "err" in m:
            return {"corr": False, "spec": True, "nontrivial": False,
                    "detail": "vcf: the model refuses a file the implementation imported"}
        f = obs["fields"]
        n, p = len(case["samples"]), len(case["recs"])
        notes = []
        want = {"taxa": ds("str", [n], m["taxa"]), "vrnt_chrgrp": ds("i64", [p], m["chrgrp"]),
                "vrnt_phypos": ds("i64", [p], m["phypos"]), "vrnt_name": ds("str", [p], m["name"]),
                "ploidy": ds("i64", [], [2])}
        if case["phased"]:
            want["mat"] = ds("i8", [2, n, p], [x for pl in m["matP"] for row in pl for x in row])
        else:
            want["mat"] = ds("i8", [n, p], [x for row in m["matU"] for x in row])
        if m["runs"] is not None:
            want["vrnt_chrgrp_name"] = ds("i64", [len(m["runs"])], [r["name"] for r in m["runs"]])
            want["vrnt_chrgrp_stix"] = ds("i64", [len(m["runs"])], [r["stix"] for r in m["runs"]])
            want["vrnt_chrgrp_spix"] = ds("i64", [len(m["runs"])], [r["stix"] + r["len"] for r in m["runs"]])
            want["vrnt_chrgrp_len"] = ds("i64", [len(m["runs"])], [r["len"] for r in m["runs"]])
        corr = True
        for k in f:
            if f[k] != want.get(k):
                corr = False
                notes.append(f"{k}: model={json.dumps(want.get(k))[:150]} impl={json.dumps(f[k])[:150]}")
        # dtypes are part of "exactly": int8 calls, integer coordinates, str labels
        dt_ok = (f["mat"]["dt"] == "i8" and f["taxa"] and f["taxa"]["dt"] == "str" and
                 f["vrnt_name"] and f["vrnt_name"]["dt"] == "str" and
                 f["vrnt_chrgrp"] and f["vrnt_chrgrp"]["dt"] == "i64" and
                 f["vrnt_phypos"] and f["vrnt_phypos"]["dt"] == "i64")
        spec = bool(sp["ok"]) and bool(dt_ok)
        if not spec:
            notes.append(f"spec: {sp['detail']} dtypes_ok={bool(dt_ok)}")
        nontriv = n >= 2 and p >= 2 and len({(r["chrom"], r["pos"]) for r in case["recs"]}) >= 2
        return {"corr": corr, "spec": spec, "nontrivial": nontriv,
                "detail": f"vcf[{'phased' if case['phased'] else 'unphased'},group={case['group']}] "
                          + "; ".join(notes)[:1200]}

    # ------------------------------------------------------------------ object graphs / copy.deepcopy
    def _gen_graph(self, rng):
        cls = rng.choice(["ge", "ge", "algmod", "adlgmod", "bvmat", "bvmat", "pgmat", "vmat", "sgmap"])
        fields, ctx, grouped, _ = gen_obj(rng, cls, rich=rng.choice([0.5, 1.0]))
        # aliasing inside the source: two attributes holding one and the same array
        alias = rng.choice([None, None, "pair"])
        return {"kind": "graph", "cls": cls, "fields": fields, "ctx": ctx, "grouped": grouped, "alias": alias,
                "how": rng.choice(["copy.deepcopy", "obj.deepcopy"])}

    ALIAS_PAIRS = {"bvmat": ("scale", "location"), "algmod": ("u_a", "u_misc"), "adlgmod": ("u_a", "u_d"),
                   "ge": ("var_env", "var_err"), "pgmat": ("taxa_grp_name", "taxa_grp_len"),
                   "vmat": ("taxa_grp_name", "taxa_grp_len"), "sgmap": ("vrnt_chrgrp_stix", "vrnt_chrgrp_len")}

    def _impl_graph(self, case):
        cls = case["cls"]
        o = build(cls, case["fields"], case.get("ctx", 0), case.get("grouped", False))
        if case.get("alias") and cls in self.ALIAS_PAIRS:
            a, b = self.ALIAS_PAIRS[cls]
            va = getattr(o, a)
            if isinstance(va, numpy.ndarray) and isinstance(getattr(o, b), numpy.ndarray) \
                    and getattr(o, b).shape == va.shape and getattr(o, b).dtype == va.dtype:
                setattr(o, "_" + b, va)        # both attributes now refer to one buffer
        g0 = Graph()
        root0 = g0.ref(o)
        src_cells = json.loads(json.dumps(g0.cells))
        c = pycopy.deepcopy(o) if case["how"] == "copy.deepcopy" else o.deepcopy()
        root1 = g0.ref(c)                      # same heap: sharing between source and copy shows up
        cells = g0.cells
        shared = sorted(g_reach(cells, root0) & g_reach(cells, root1))
        return {"src_heap": src_cells, "src_root": root0,
                "copy_canon": g_canon(cells, root1), "src_tree": g_tree(cells, root0),
                "copy_tree": g_tree(cells, root1),
                "shared_kinds": sorted({next(iter(cells[a])) for a in shared}),
                "shared_n": len(shared), "same_type": type(c) is type(o), "ncells": len(src_cells)}

    def _req_graph(self, case, obs):
        return [{"op": "c16.deepcopy_graph", "heap": obs["src_heap"], "root": obs["src_root"],
                 "method": case["how"] == "obj.deepcopy"}]

    def _judge_graph(self, case, obs, answers):
        m = answers[0]["ok"]
        notes = []
        mc = g_canon(m["heap"], m["root"])
        corr = mc == obs["copy_canon"] and m["wf"] is True     # `wf` = hypothesis of the graph theorems
        if not m["wf"]:
            notes.append("the object graph of a real object is not acyclic / bottom-up")
        if not corr:
            notes.append(f"copy graph: model={json.dumps(mc)[:400]} impl={json.dumps(obs['copy_canon'])[:400]}")
        mshared = g_reach(m["heap"], obs["src_root"]) & g_reach(m["heap"], m["root"])
        mkinds = sorted({next(iter(m["heap"][a])) for a in mshared})
        if (len(mshared), mkinds) != (obs["shared_n"], obs["shared_kinds"]):
            corr = False
            notes.append(f"shared cells: model={len(mshared)} {mkinds} impl={obs['shared_n']} {obs['shared_kinds']}")
        spec = obs["same_type"] and obs["src_tree"] == obs["copy_tree"] and \
            all(k == "ext" for k in obs["shared_kinds"])       # only the random source may be shared
        if not spec:
            notes.append(f"deep copy differs from its source or shares state: shared={obs['shared_kinds']} "
                         f"equal={obs['src_tree'] == obs['copy_tree']}")
        return {"corr": corr, "spec": spec, "nontrivial": obs["ncells"] >= 4,
                "detail": f"graph[{case['cls']},{case['how']},alias={case.get('alias')}] " + "; ".join(notes)[:1200]}

    def _gen_copy(self, rng):
        cls = rng.choice(list(CLASSES))
        fields, ctx, grouped, _ = gen_obj(rng, cls, rich=rng.choice([0.3, 0.7, 1.0, 1.0]))
        return {"kind": "copy", "cls": cls, "fields": fields, "ctx": ctx, "grouped": grouped,
                "how": rng.choice(["copy.copy", "copy.deepcopy", "copy.deepcopy", "obj.copy", "obj.deepcopy"])}

    def _impl_copy(self, case):
        cls = case["cls"]
        o = build(cls, case["fields"], case.get("ctx", 0), case.get("grouped", False))
        before = fields_of(cls, o)
        how = case["how"]
        c = {"copy.copy": lambda: pycopy.copy(o), "copy.deepcopy": lambda: pycopy.deepcopy(o),
             "obj.copy": lambda: o.copy(), "obj.deepcopy": lambda: o.deepcopy()}[how]()
        after_copying = fields_of(cls, o)
        copy_fields = fields_of(cls, c)
        ao, ac = arrays_of(cls, o), arrays_of(cls, c)
        shared = any(numpy.shares_memory(x, y) for _, x in ao for _, y in ac)
        same_obj = c is o
        dict_same = any(isinstance(getattr(o, k), dict) and getattr(o, k) is getattr(c, k)
                        for k in CLASSES[cls]["fields"])
        extra_shared = False
        if cls == "ge":        # the bound genomic model is part of the protocol's state
            extra_shared = (c.gpmod is o.gpmod) or any(
                numpy.shares_memory(getattr(c.gpmod, k), getattr(o.gpmod, k)) for k in ("beta", "u_misc", "u_a"))
        seen = set()
        for _, a in ac:
            if id(a) not in seen:
                seen.add(id(a))
                bump_inplace(a)
        return {"before": before, "after_copying": after_copying, "copy": copy_fields, "shared": bool(shared),
                "same_obj": same_obj, "dict_same": bool(dict_same), "extra_shared": bool(extra_shared),
                "same_type": type(c) is type(o), "narr": len(ac),
                "src_after": fields_of(cls, o), "copy_after": fields_of(cls, c)}

    def _req_copy(self, case, obs):
        deep = "deep" in case["how"]
        return [{"op": "c16.copy", "deep": deep, "obj": obs["before"]},
                {"op": "c16.spec_obj", "cls": "any", "want": obs["before"], "got": obs["copy"]},
                {"op": "c16.spec_obj", "cls": "any", "want": obs["before"], "got": obs["src_after"]}]

    def _judge_copy(self, case, obs, answers):
        m, eq_copy, eq_src = answers[0]["ok"], answers[1]["ok"], answers[2]["ok"]
        deep = "deep" in case["how"]
        notes = []
        corr = True
        for k in ("copy", "src_after", "copy_after"):
            if not self._same_obj(m[k], obs[k]):
                corr = False
                notes.append(f"{k}: model={json.dumps(m[k])[:200]} impl={json.dumps(obs[k])[:200]}")
        if bool(m["shared"]) != obs["shared"]:
            corr = False
            notes.append(f"shared buffers: model={m['shared']} impl={obs['shared']}")
        spec = True
        if not eq_copy["ok"] or not obs["same_type"]:
            spec = False
            notes.append(f"the copy differs from its source in {eq_copy['diff']} (same type: {obs['same_type']})")
        if obs["after_copying"] != obs["before"] or obs["same_obj"]:
            spec = False
            notes.append("copying changed the source or returned the source itself")
        if deep:
            if obs["shared"] or obs["dict_same"] or obs["extra_shared"]:
                spec = False
                notes.append(f"deep copy shares state with its source (arrays={obs['shared']} "
                             f"dict={obs['dict_same']} bound model={obs['extra_shared']})")
            if not eq_src["ok"]:
                spec = False
                notes.append(f"mutating the deep copy changed the source in {eq_src['diff']}")
        return {"corr": corr, "spec": spec, "nontrivial": deep and obs["narr"] >= 2,
                "detail": f"copy[{case['cls']},{case['how']}] " + "; ".join(notes)[:1200]}

    # ------------------------------------------------------------------ implementation
    def run_impl(self, case):
        return getattr(self, "_impl_" + case["kind"])(case)

    def _impl_h5(self, case):
        M = _mods()
        os.makedirs(TMP_ROOT, exist_ok=True)
        d = tempfile.mkdtemp(prefix="h5_", dir=TMP_ROOT)
        fn = os.path.join(d, "f.h5")
        res = []
        last = {}               # location -> index of the last write that did not raise
        ctxs = {}
        try:
            for i, op in enumerate(case["ops"]):
                loc = norm_group(op["group"])
                if op["t"] == "w":
                    obj = build(op["cls"], op["fields"], op.get("ctx", 0), op.get("grouped", False))
                    want = fields_of(op["cls"], obj)
                    try:
                        if op.get("open"):
                            with M["h5py"].File(fn, "a") as h5:
                                obj.to_hdf5(h5, op["group"], overwrite=op["ow"])
                        else:
                            obj.to_hdf5(fn, op["group"], overwrite=op["ow"])
                        res.append({"t": "w", "want": want, "raised": None})
                        last[loc] = i
                        ctxs[loc] = op.get("ctx", 0)
                    except Exception as e:
                        res.append({"t": "w", "want": want, "raised": f"{type(e).__name__}: {e}"[:200]})
                else:
                    kw = {}
                    ctx = ctxs.get(loc, op.get("ctx", 0))     # the model bound to the protocol stored there
                    if op["cls"] == "ge":
                        kw["gpmod"] = _gpmod(ctx)
                    try:
                        got = M[op["cls"]].from_hdf5(fn, op["group"], **kw)
                        res.append({"t": "r", "got": fields_of(op["cls"], got), "raised": None, "ctx": ctx})
                    except Exception as e:
                        res.append({"t": "r", "got": None, "raised": f"{type(e).__name__}: {e}"[:200], "ctx": ctx})
            # final sweep: every location is read back with the class of its last successful write
            sweep = []
            for loc, i in sorted(last.items(), key=lambda kv: kv[1]):
                op = case["ops"][i]
                kw = {}
                if op["cls"] == "ge":
                    kw["gpmod"] = _gpmod(op.get("ctx", 0))
                try:
                    got = M[op["cls"]].from_hdf5(fn, op["group"], **kw)
                    sweep.append({"t": "r", "cls": op["cls"], "group": op["group"], "ctx": op.get("ctx", 0),
                                  "got": fields_of(op["cls"], got), "raised": None})
                except Exception as e:
                    sweep.append({"t": "r", "cls": op["cls"], "group": op["group"], "ctx": op.get("ctx", 0),
                                  "got": None, "raised": f"{type(e).__name__}: {e}"[:200]})
            return {"res": res, "sweep": sweep}
        finally:
            shutil.rmtree(d, ignore_errors=True)

    # ------------------------------------------------------------------ model requests
    def requests(self, case, obs):
        return getattr(self, "_req_" + case["kind"])(case, obs)

    def _all_ops(self, case, obs):
        """the executed history: the case's ops followed by the final sweep of reads"""
        ops = []
        for op, r in zip(case["ops"], obs["res"]):
            if op["t"] == "r":
                op = dict(op, ctx=r.get("ctx", op.get("ctx", 0)))
            ops.append((op, r))
        for s in obs["sweep"]:
            ops.append(({"t": "r", "cls": s["cls"], "group": s["group"], "ctx": s["ctx"]}, s))
        return ops

    def _req_h5(self, case, obs):
        mops = []
        for op, r in self._all_ops(case, obs):
            if op["t"] == "w":
                mops.append({"t": "w", "cls": op["cls"], "group": op["group"], "ow": op["ow"], "obj": r["want"],
                             "ctx": op.get("ctx", 0)})
            else:
                mops.append({"t": "r", "cls": op["cls"], "group": op["group"], "ctx": op.get("ctx", 0)})
        reqs = [{"op": "c16.h5", "ops": mops, "prerepair": MODEL_PREREPAIR}]
        # the theorems' hypothesis `valid` evaluated on the state of every real object written
        for op, r in self._all_ops(case, obs):
            if op["t"] == "w":
                reqs.append({"op": "c16.valid", "cls": op["cls"], "ctx": op.get("ctx", 0), "obj": r["want"]})
        # Spec oracle on the implementation's read-backs
        for (op, r), want in zip(self._all_ops(case, obs), self._expected(case, obs)):
            if op["t"] == "r" and r["got"] is not None and want is not None and not any(
                    has_other(v) for v in r["got"].values()):
                reqs.append({"op": "c16.spec_obj", "cls": op["cls"], "ctx": op.get("ctx", 0),
                             "want": want, "got": r["got"]})
        return reqs

    def _expected(self, case, obs):
        """for every executed op: the object a read must return (None for writes / nothing written yet)"""
        out = []
        last = {}
        for op, r in self._all_ops(case, obs):
            loc = norm_group(op["group"])
            if op["t"] == "w":
                if r["raised"] is None:
                    last[loc] = (op["cls"], r["want"])
                out.append(None)
            else:
                cw = last.get(loc)
                out.append(cw[1] if cw and cw[0] == op["cls"] else None)
        return out

    # ------------------------------------------------------------------ judge
    def judge(self, case, obs, answers):
        for a in answers:
            if "err" in a:
                raise RuntimeError("driver error: " + a["err"])
        return getattr(self, "_judge_" + case["kind"])(case, obs, answers)

    def _judge_h5(self, case, obs, answers):
        model = answers[0]["ok"]
        ops = self._all_ops(case, obs)
        nwrites = sum(1 for op, _ in ops if op["t"] == "w")
        valids = answers[1:1 + nwrites]
        specs = answers[1 + nwrites:]
        expected = self._expected(case, obs)
        corr, spec = True, True
        notes = []
        for (op, r), va in zip([x for x in ops if x[0]["t"] == "w"], valids):
            if not va["ok"]["valid"]:
                corr = False     # the model's notion of a valid object disagrees with the real constructor
                notes.append(f"a real {op['cls']} object does not satisfy the theorems' hypothesis `valid`")
        si = 0
        occupied = set()
        for idx, ((op, r), m, want) in enumerate(zip(ops, model, expected)):
            loc = norm_group(op["group"])
            if op["t"] == "w":
                m_ok = (m == "ok")
                i_ok = r["raised"] is None
                if m_ok != i_ok:
                    corr = False
                    notes.append(f"op{idx} write: model={m} impl_raised={r['raised']}")
                if not i_ok and not (op["ow"] is False and loc in occupied):
                    spec = False        # a valid write was refused
                    notes.append(f"op{idx} to_hdf5 raised on a valid write: {r['raised']}")
                if i_ok:
                    occupied.add(loc)
            else:
                if r["got"] is None:
                    if not (isinstance(m, dict) and "err" in m):
                        corr = False
                        notes.append(f"op{idx} read: impl raised {r['raised']} model={json.dumps(m)[:120]}")
                    if want is not None:
                        spec = False
                        notes.append(f"op{idx} from_hdf5 raised: {r['raised']}")
                    continue
                if not (isinstance(m, dict) and "obj" in m and self._same_obj(m["obj"], r["got"])):
                    corr = False
                    notes.append(f"op{idx} read: model={json.dumps(m)[:300]} impl={json.dumps(r['got'])[:300]}")
                if want is None:
                    continue
                if any(has_other(v) for v in r["got"].values()):
                    spec = False
                    notes.append(f"op{idx} dtype outside the storable vocabulary: "
                                 f"{[k for k, v in r['got'].items() if has_other(v)]}")
                    continue
                s = specs[si]["ok"]
                si += 1
                if not s["ok"]:
                    spec = False
                    notes.append(f"op{idx} read-back differs from the last object written to "
                                 f"{op['group']!r} in {s['diff']}")
        nw = {}
        for op in case["ops"]:
            if op["t"] == "w":
                nw[norm_group(op["group"])] = nw.get(norm_group(op["group"]), 0) + 1
        nontriv = any(v >= 2 for v in nw.values()) or any(
            op["t"] == "w" and sum(1 for v in op["fields"].values() if v is not None) >= 5 for op in case["ops"])
        return {"corr": corr, "spec": spec, "nontrivial": nontriv, "detail": "h5 " + "; ".join(notes)[:1500]}

    @staticmethod
    def _same_obj(a, b):
        """model object == implementation object (dictionaries as maps)"""
        keys = set(a) | set(b)
        for k in keys:
            x, y = a.get(k), b.get(k)
            if isinstance(x, dict) and "dict" in x and isinstance(y, dict) and "dict" in y:
                if x["dict"] != y["dict"]:
                    return False
            elif x != y:
                return False
        return True

    # ------------------------------------------------------------------ findings, shrinking
    def signature(self, case, obs, verdict):
        sig = {"kind": case.get("kind")}
        if case.get("kind") in ("copy", "frame", "graph"):
            sig["cls"] = case.get("cls")
        return sig

    def shrink(self, case):
        if case["kind"] == "h5":
            ops = case["ops"]
            for i in range(len(ops)):
                if len(ops) > 1:
                    yield {"kind": "h5", "ops": ops[:i] + ops[i + 1:]}
            for i, op in enumerate(ops):
                if op["t"] == "w":
                    for k, v in op["fields"].items():
                        if v is not None and k not in ("mat", "beta", "u_a", "u_d", "location", "scale", "nenv",
                                                       "nrep", "ploidy"):
                            o2 = dict(op)
                            o2["fields"] = {kk: vv for kk, vv in op["fields"].items() if kk != k}
                            yield {"kind": "h5", "ops": ops[:i] + [o2] + ops[i + 1:]}

        if case["kind"] == "vcf":
            for j in range(len(case["recs"])):
                if len(case["recs"]) > 1:
                    yield dict(case, recs=case["recs"][:j] + case["recs"][j + 1:])
            for i in range(len(case["samples"])):
                if len(case["samples"]) > 1:
                    yield dict(case, samples=case["samples"][:i] + case["samples"][i + 1:],
                               recs=[dict(r, calls=r["calls"][:i] + r["calls"][i + 1:]) for r in case["recs"]])
        if case["kind"] == "copy":
            for k, v in case["fields"].items():
                if v is not None and k not in ("mat", "beta", "u_a", "u_d", "location", "scale", "nenv", "nrep",
                                               "ploidy"):
                    yield dict(case, fields={kk: vv for kk, vv in case["fields"].items() if kk != k})

    def mutants(self):
        import sys
        M = _mods()
        h5util = M["h5util"]

        @contextlib.contextmanager
        def patch_name(name, new):
            """replace a function imported by name, in every pybrops module that holds it"""
            old = getattr(h5util, name)
            touched = []
            for mn, mod in list(sys.modules.items()):
                if mn.startswith("pybrops") and mod is not None and getattr(mod, name, None) is old:
                    setattr(mod, name, new)
                    touched.append(mod)
            try:
                yield
            finally:
                for mod in touched:
                    setattr(mod, name, old)

        @contextlib.contextmanager
        def patch_attr(obj, name, new):
            old = obj.__dict__[name] if name in obj.__dict__ else getattr(obj, name)
            had = name in obj.__dict__
            setattr(obj, name, new)
            try:
                yield
            finally:
                if had:
                    setattr(obj, name, old)
                else:
                    delattr(obj, name)

        # --- mechanism 1: write_dict -------------------------------------------------------------
        def write_no_delete(h5file, groupname, in_dict, overwrite=True):
            for key, item in in_dict.items():
                if item is None:
                    continue
                fieldname = groupname + key
                if isinstance(item, h5util.writable_classes):
                    h5file.create_dataset(fieldname, data=item)          # existing dataset not deleted first
                elif isinstance(item, dict):
                    write_no_delete(h5file, fieldname + "/", item)
                else:
                    raise ValueError("cannot save")

        def write_keep_first(h5file, groupname, in_dict, overwrite=True):
            for key, item in in_dict.items():
                if item is None:
                    continue
                fieldname = groupname + key
                if isinstance(item, h5util.writable_classes):
                    if fieldname in h5file:
                        if not overwrite:
                            raise ValueError("name already exists")
                        continue                                          # silently keeps the old dataset
                    h5file.create_dataset(fieldname, data=item)
                elif isinstance(item, dict):
                    write_keep_first(h5file, fieldname + "/", item)
                else:
                    raise ValueError("cannot save")

        def write_in_place(h5file, groupname, in_dict, overwrite=True):
            # an existing dataset of the same shape and dtype kind is overwritten in place: the stored
            # width (float32 / int32) silently narrows the new values
            import h5py
            rest = {}
            for key, item in in_dict.items():
                fieldname = groupname + key
                if (overwrite and isinstance(item, numpy.ndarray) and fieldname in h5file
                        and isinstance(h5file[fieldname], h5py.Dataset) and h5file[fieldname].shape == item.shape
                        and h5file[fieldname].dtype.kind == item.dtype.kind and item.dtype.kind in "fi"):
                    h5file[fieldname][...] = item
                    rest[key] = None if False else "__skip__"
                else:
                    rest[key] = item
            keep = {k: v for k, v in rest.items() if not (isinstance(v, str) and v == "__skip__")}
            return h5util.h5py_File_write_dict(h5file, groupname, keep, overwrite)

        def write_wrong_group(h5file, groupname, in_dict, overwrite=True):
            # every group collapses onto its last component: "a/b/" and "x/b/" share a location
            g = groupname.rstrip("/").split("/")[-1]
            return h5util.h5py_File_write_dict(h5file, (g + "/") if g else "", in_dict, overwrite)

        # --- mechanism 2: typed readers ------------------------------------------------------------
        def utf8_no_decode(h5file, fieldname):
            out = h5file[fieldname][()]
            return numpy.array([s for s in out], dtype=object)

        orig_read = h5util.h5py_File_read_ndarray

        def read_grp_as_float(h5file, fieldname):
            out = orig_read(h5file, fieldname)
            if fieldname.endswith("taxa_grp"):
                out = out.astype(float)
            return out

        def read_int8_plus(h5file, fieldname):
            out = h5file[fieldname][()].astype("int8")
            return numpy.ascontiguousarray(out[..., ::-1])               # variants in reverse order

        orig_int = h5util.h5py_File_read_int

        def read_int_off(h5file, fieldname):
            return orig_int(h5file, fieldname) + 1

        # --- mechanism 3: data-frame layouts ---------------------------------------------------------
        SG, BV, CM = M["sgmap"], M["bvmat"], M["cmat"]
        sg_to_pandas = SG.to_pandas

        def sg_to_pandas_factor(self, *a, **kw):
            df = sg_to_pandas(self, *a, **kw)
            if kw.get("vrnt_genpos_units", "cM") in ("cM", "centiMorgans"):
                df.iloc[:, 2] = df.iloc[:, 2] / 10.0
            return df

        bv_to_pandas = BV.to_pandas

        def bv_to_pandas_scaled(self, *a, **kw):
            kw["unscale"] = False
            return bv_to_pandas(self, *a, **kw)

        cm_from_pandas = CM.from_pandas.__func__

        def cm_from_pandas_transposed(cls, df, *a, **kw):
            out = cm_from_pandas(cls, df, *a, **kw)
            out.mat = numpy.ascontiguousarray(out.mat.T)
            return out

        # --- mechanism 4: copies -------------------------------------------------------------------
        PG = M["pgmat"]
        pg_deep = PG.__deepcopy__

        def pg_deep_shared(self, memo=None):
            out = pg_deep(self, memo)
            out._mat = self._mat                                         # the same array object
            return out

        AL = M["algmod"]
        al_deep = AL.__deepcopy__

        def al_deep_shallow_params(self, memo=None):
            out = al_deep(self, memo)
            out._params = dict(self._params)                             # nested arrays shared
            return out

        GE = M["ge"]
        ge_deep = GE.__deepcopy__

        def ge_deep_shares_model(self, memo=None):
            out = ge_deep(self, memo)
            out._gpmod = self._gpmod                                     # the bound genomic model is shared
            return out

        def al_deep_no_memo(self, memo=None):
            return al_deep(self, None)                                   # aliasing between attributes is lost

        bv_copy = BV.__copy__

        def bv_copy_drops_trait(self):
            out = bv_copy(self)
            out._trait = None
            return out

        # --- mechanism 5: VCF ------------------------------------------------------------------------
        import cyvcf2

        def from_vcf_shifted(cls, filename, auto_group_vrnt=True):
            vcf = cyvcf2.VCF(filename)
            taxa = numpy.array(vcf.samples, dtype=object)
            mat, chrgrp, phypos, name = [], [], [], []
            for variant in vcf:
                chrgrp.append(int(variant.CHROM))
                phypos.append(variant.POS)
                name.append(str(variant.ID))
                phases = numpy.int8(variant.genotypes)
                mat.append(phases[:, 1:3].copy())                         # allele 1 and the "phased" flag
            mat = numpy.int8(mat).transpose(2, 1, 0)
            out = cls(mat=mat, vrnt_chrgrp=numpy.int64(chrgrp), vrnt_phypos=numpy.int64(phypos),
                      vrnt_name=numpy.array(name, dtype=object), taxa=taxa)
            if auto_group_vrnt:
                out.group_vrnt()
            return out

        pg_from_vcf = PG.from_vcf.__func__

        def from_vcf_labels_unsorted(cls, filename, auto_group_vrnt=True):
            out = pg_from_vcf(cls, filename, auto_group_vrnt=False)
            if auto_group_vrnt:
                names = out.vrnt_name.copy()
                out.group_vrnt()
                out._vrnt_name = names                                   # names keep the file order
            return out

        return [
            ("write_dict_skip_delete_existing", lambda: patch_name("h5py_File_write_dict", write_no_delete)),
            ("write_dict_keep_first_dataset", lambda: patch_name("h5py_File_write_dict", write_keep_first)),
            ("write_dict_group_collapsed", lambda: patch_name("h5py_File_write_dict", write_wrong_group)),
            ("write_dict_in_place_narrowing", lambda: patch_name("h5py_File_write_dict", write_in_place)),
            ("reader_utf8_no_decode", lambda: patch_name("h5py_File_read_ndarray_utf8", utf8_no_decode)),
            ("reader_taxa_grp_as_float", lambda: patch_name("h5py_File_read_ndarray", read_grp_as_float)),
            ("reader_int8_reversed", lambda: patch_name("h5py_File_read_ndarray_int8", read_int8_plus)),
            ("reader_int_off_by_one", lambda: patch_name("h5py_File_read_int", read_int_off)),
            ("frame_gmap_cM_factor", lambda: patch_attr(SG, "to_pandas", sg_to_pandas_factor)),
            ("frame_bv_ignores_unscale", lambda: patch_attr(BV, "to_pandas", bv_to_pandas_scaled)),
            ("frame_cmat_transposed", lambda: patch_attr(CM, "from_pandas", classmethod(cm_from_pandas_transposed))),
            ("deepcopy_same_array", lambda: patch_attr(PG, "__deepcopy__", pg_deep_shared)),
            ("deepcopy_shallow_hyperparams", lambda: patch_attr(AL, "__deepcopy__", al_deep_shallow_params)),
            ("copy_drops_trait", lambda: patch_attr(BV, "__copy__", bv_copy_drops_trait)),
            ("deepcopy_shares_bound_model", lambda: patch_attr(GE, "__deepcopy__", ge_deep_shares_model)),
            ("deepcopy_drops_memo", lambda: patch_attr(AL, "__deepcopy__", al_deep_no_memo)),
            ("vcf_genotypes_1_3", lambda: patch_attr(PG, "from_vcf", classmethod(from_vcf_shifted))),
            ("vcf_names_not_reordered", lambda: patch_attr(PG, "from_vcf", classmethod(from_vcf_labels_unsorted))),
        ]


PROP = C16()
