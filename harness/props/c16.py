"""C16 — saving, loading and copying reproduce objects exactly.

kinds of cases
  h5     history of to_hdf5 / from_hdf5 calls on one temporary HDF5 file (8 persistable classes)
  copy   copy.copy / copy.deepcopy equality, then mutation of every array of the copy
  vcf    VCF text -> DensePhasedGenotypeMatrix / DenseGenotypeMatrix
  frame  data-frame / CSV layouts (breeding values, coancestry, variance matrix, genetic maps, models)
  copyseq  ONE live object copied repeatedly with in-place changes of earlier copies / the source in between
"""
import contextlib
import copy as pycopy
import json
import os
import random
import shutil
import tempfile
from fractions import Fraction

import numpy

from .. import canon, compat
from ..core import Prop

compat.install()

TMP_ROOT = os.environ.get("C16_TMP", "/tmp/wk/C16/tmp")


# ----------------------------------------------------------------------------- datasets <-> JSON
# Non-finite doubles are carried through the (value-agnostic) storage model as reserved rationals that
# no binary64 value can take: the encoding stays injective, so "dataset read = dataset written" still
# means what it says.  -0.0 is identified with 0.0 (they compare equal).
F_NAN, F_INF = 2 ** 1100, 2 ** 1101


def fenc(x):
    x = float(x)
    if x != x:
        return F_NAN
    if x in (float("inf"), float("-inf")):
        return F_INF if x > 0 else -F_INF
    return canon.enc(x)


def fdec(v):
    q = Fraction(v)
    if q == F_NAN:
        return float("nan")
    if abs(q) == F_INF:
        return float("inf") if q > 0 else float("-inf")
    return float(q)


def fclose(a, b, rel=1e-12, abs_=0):
    """tolerant comparison of two encoded float lists (nested allowed); the reserved non-finite codes
    only equal themselves; exact Fraction arithmetic throughout"""
    rel, abs_ = Fraction(rel), Fraction(abs_)
    if isinstance(a, list) or isinstance(b, list):
        return (isinstance(a, list) and isinstance(b, list) and len(a) == len(b)
                and all(fclose(x, y, rel, abs_) for x, y in zip(a, b)))
    if a is None or b is None or isinstance(a, bool) or isinstance(b, bool):
        return a is b or (a == b and type(a) is type(b))
    try:
        x, y = Fraction(a), Fraction(b)
    except (ValueError, TypeError):
        return a == b
    if x == y:
        return True
    if abs(x) >= F_NAN or abs(y) >= F_NAN:
        return False
    d = abs(x - y)
    return d <= abs_ or d <= rel * max(abs(x), abs(y))


def enc_ds(x):
    """numpy array / Python scalar -> {"dt","sh","v"} (None -> None)"""
    if x is None:
        return None
    if isinstance(x, (bool, numpy.bool_)):
        return {"dt": "bool", "sh": [], "v": [int(x)]}
    if isinstance(x, numpy.int8):
        return {"dt": "i8", "sh": [], "v": [int(x)]}
    if isinstance(x, (int, numpy.integer)):
        if isinstance(x, numpy.int32):
            return {"dt": "i32", "sh": [], "v": [int(x)]}
        if isinstance(x, numpy.integer) and x.dtype != numpy.int64:
            return {"dt": "other:" + x.dtype.name, "sh": [], "v": [int(x)]}
        return {"dt": "i64", "sh": [], "v": [int(x)]}
    if isinstance(x, (float, numpy.floating)):
        if isinstance(x, numpy.float32):
            return {"dt": "f32", "sh": [], "v": [fenc(x)]}
        if isinstance(x, numpy.floating) and x.dtype != numpy.float64:
            return {"dt": "other:" + x.dtype.name, "sh": [], "v": [str(x)]}
        return {"dt": "f64", "sh": [], "v": [fenc(x)]}
    if isinstance(x, str):
        return {"dt": "str", "sh": [], "v": [x]}
    if isinstance(x, bytes):
        return {"dt": "bytes", "sh": [], "v": [x.decode("utf-8", "replace")]}
    if isinstance(x, numpy.ndarray):
        sh = [int(s) for s in x.shape]
        flat = x.reshape(-1)
        if x.dtype == numpy.int8:
            return {"dt": "i8", "sh": sh, "v": [int(v) for v in flat]}
        if x.dtype == numpy.int64:
            return {"dt": "i64", "sh": sh, "v": [int(v) for v in flat]}
        if x.dtype == numpy.int32:
            return {"dt": "i32", "sh": sh, "v": [int(v) for v in flat]}
        if x.dtype == numpy.float32:
            return {"dt": "f32", "sh": sh, "v": [fenc(v) for v in flat]}
        if x.dtype == numpy.bool_:
            return {"dt": "bool", "sh": sh, "v": [int(v) for v in flat]}
        if x.dtype == numpy.float64:
            return {"dt": "f64", "sh": sh, "v": [fenc(v) for v in flat]}
        if x.dtype == object:
            if all(isinstance(v, str) for v in flat):
                return {"dt": "str", "sh": sh, "v": [str(v) for v in flat]}
            if all(isinstance(v, bytes) for v in flat):
                return {"dt": "bytes", "sh": sh, "v": [v.decode("utf-8", "replace") for v in flat]}
            return {"dt": "other:object", "sh": sh, "v": [repr(v) for v in flat]}
        return {"dt": "other:" + x.dtype.name, "sh": sh, "v": [repr(v) for v in flat]}
    return {"dt": "other:" + type(x).__name__, "sh": [], "v": [repr(x)]}


def dec_ds(j, scalar_py=True):
    """{"dt","sh","v"} -> numpy array (or Python scalar for shape [])"""
    if j is None:
        return None
    dt, sh, v = j["dt"], j["sh"], j["v"]
    if dt in ("f64", "f32"):
        vals = [fdec(x) for x in v]
        if sh == []:
            return vals[0] if dt == "f64" else numpy.float32(vals[0])
        return numpy.array(vals, dtype={"f64": "float64", "f32": "float32"}[dt]).reshape(sh)
    if dt in ("i8", "i32", "i64"):
        if sh == []:
            return int(v[0]) if dt == "i64" else (numpy.int8(v[0]) if dt == "i8" else numpy.int32(v[0]))
        return numpy.array(v, dtype={"i8": "int8", "i32": "int32", "i64": "int64"}[dt]).reshape(sh)
    if dt == "bool":
        if sh == []:
            return bool(v[0])
        return numpy.array([bool(x) for x in v], dtype=bool).reshape(sh)
    if dt == "str":
        if sh == []:
            return str(v[0])
        a = numpy.empty(len(v), dtype=object)
        a[:] = [str(x) for x in v]
        return a.reshape(sh)
    if dt == "bytes":
        if sh == []:
            return v[0].encode("utf-8")
        a = numpy.empty(len(v), dtype=object)
        a[:] = [x.encode("utf-8") for x in v]
        return a.reshape(sh)
    raise ValueError("cannot decode dtype " + dt)


def enc_item(x):
    if isinstance(x, dict):
        return {"dict": {str(k): enc_ds(v) for k, v in x.items()}}
    return enc_ds(x)


def dec_item(j):
    if isinstance(j, dict) and "dict" in j:
        return {k: dec_ds(v) for k, v in j["dict"].items()}
    return dec_ds(j)


def has_other(j):
    """an encoded object carries a dtype outside the model's vocabulary (dtype drift)"""
    if j is None:
        return False
    if "dict" in j:
        return any(has_other(v) for v in j["dict"].values())
    return str(j.get("dt", "")).startswith("other:")


def ds(dt, sh, v):
    return {"dt": dt, "sh": list(sh), "v": list(v)}


# ----------------------------------------------------------------------------- class table
TAXA_META = ["taxa_grp_name", "taxa_grp_stix", "taxa_grp_spix", "taxa_grp_len"]
VRNT_META = ["vrnt_chrgrp_name", "vrnt_chrgrp_stix", "vrnt_chrgrp_spix", "vrnt_chrgrp_len"]
VRNT = ["vrnt_chrgrp", "vrnt_phypos", "vrnt_name", "vrnt_genpos", "vrnt_xoprob", "vrnt_hapgrp",
        "vrnt_hapalt", "vrnt_hapref", "vrnt_mask"]
GMAT_FIELDS = ["mat", "taxa", "taxa_grp"] + VRNT + ["ploidy"] + TAXA_META + VRNT_META
MODEL_TAIL = ["trait", "model_name", "hyperparams"]

# fields in the order of the dictionary `to_hdf5` writes; ctor = constructor keywords; the others are
# assigned afterwards (group metadata)
CLASSES = {
    "pgmat": {"fields": GMAT_FIELDS, "ctor": ["mat", "taxa", "taxa_grp"] + VRNT},
    "gmat": {"fields": GMAT_FIELDS, "ctor": ["mat", "taxa", "taxa_grp"] + VRNT + ["ploidy"]},
    "bvmat": {"fields": ["mat", "location", "scale", "taxa", "taxa_grp", "trait"] + TAXA_META,
              "ctor": ["mat", "location", "scale", "taxa", "taxa_grp", "trait"]},
    "cmat": {"fields": ["mat", "taxa", "taxa_grp"] + TAXA_META, "ctor": ["mat", "taxa", "taxa_grp"]},
    "vmat": {"fields": ["mat", "taxa", "taxa_grp", "trait"] + TAXA_META,
             "ctor": ["mat", "taxa", "taxa_grp", "trait"]},
    "algmod": {"fields": ["beta", "u_misc", "u_a"] + MODEL_TAIL, "ctor": ["beta", "u_misc", "u_a"] + MODEL_TAIL},
    "adlgmod": {"fields": ["beta", "u_misc", "u_a", "u_d"] + MODEL_TAIL,
                "ctor": ["beta", "u_misc", "u_a", "u_d"] + MODEL_TAIL},
    "ge": {"fields": ["nenv", "nrep", "var_env", "var_rep", "var_err"],
           "ctor": ["nenv", "nrep", "var_env", "var_rep", "var_err"]},
}

GMAP_META = ["vrnt_chrgrp_name", "vrnt_chrgrp_stix", "vrnt_chrgrp_spix", "vrnt_chrgrp_len"]
CLASSES["sgmap"] = {"fields": ["vrnt_chrgrp", "vrnt_phypos", "vrnt_genpos"] + GMAP_META,
                    "ctor": ["vrnt_chrgrp", "vrnt_phypos", "vrnt_genpos"], "no_hdf5": True}
CLASSES["egmap"] = {"fields": ["vrnt_chrgrp", "vrnt_phypos", "vrnt_stop", "vrnt_genpos", "vrnt_name", "vrnt_fncode"]
                    + GMAP_META,
                    "ctor": ["vrnt_chrgrp", "vrnt_phypos", "vrnt_stop", "vrnt_genpos", "vrnt_name", "vrnt_fncode"],
                    "no_hdf5": True}
H5_CLASSES = [c for c in CLASSES if not CLASSES[c].get("no_hdf5")]
# TruePhenotyping: no stored parameters, only the bound genomic model
CLASSES["tp"] = {"fields": [], "ctor": []}
# three- and four-way variance matrices: (n,n,n,t) / (n,n,n,n,t), same field list as the two-way class
CLASSES["vmat3"] = CLASSES["vmat"]
CLASSES["vmat4"] = CLASSES["vmat"]
H5_CLASSES += ["vmat3", "vmat4", "tp"]
VM_AXES = {"vmat": 2, "vmat3": 3, "vmat4": 4}
# the base classes of pybrops.core.mat: every one has a to_hdf5 / from_hdf5 / __copy__ / __deepcopy__ of its OWN
# (copies of the anchored mechanism), plus the (n,n,t,t) progeny covariance matrices
BASE_CLASSES = {
    "dmat": {"fields": ["mat"], "ctor": ["mat"]},
    "tmat": {"fields": ["mat", "taxa", "taxa_grp"] + TAXA_META, "ctor": ["mat", "taxa", "taxa_grp"]},
    "vrmat": {"fields": ["mat"] + VRNT + VRNT_META, "ctor": ["mat"] + VRNT},
    "tvmat": {"fields": ["mat", "taxa", "taxa_grp"] + VRNT + TAXA_META + VRNT_META, "ctor": ["mat", "taxa", "taxa_grp"] + VRNT},
    "trmat": {"fields": ["mat", "trait"], "ctor": ["mat", "trait"]},
    "ttmat": {"fields": ["mat", "taxa", "taxa_grp", "trait"] + TAXA_META, "ctor": ["mat", "taxa", "taxa_grp", "trait"]},
    "sttmat": CLASSES["vmat"],
    "sq4": CLASSES["vmat"],
}
BASE_PATHS = {"dmat": "pybrops.core.mat.DenseMatrix", "tmat": "pybrops.core.mat.DenseTaxaMatrix",
              "vrmat": "pybrops.core.mat.DenseVariantMatrix", "tvmat": "pybrops.core.mat.DenseTaxaVariantMatrix",
              "trmat": "pybrops.core.mat.DenseTraitMatrix", "ttmat": "pybrops.core.mat.DenseTaxaTraitMatrix",
              "sttmat": "pybrops.core.mat.DenseSquareTaxaTraitMatrix",
              "sq4": "pybrops.core.mat.DenseSquareTaxaSquareTraitMatrix"}
CLASSES.update(BASE_CLASSES)
H5_CLASSES += list(BASE_CLASSES)
TAXA_CLASSES = ("pgmat", "gmat", "bvmat", "cmat", "vmat", "vmat3", "vmat4", "tmat", "tvmat", "ttmat", "sttmat", "sq4")
VRNT_CLASSES = ("pgmat", "gmat", "vrmat", "tvmat")

_M = {}


def _mods():
    if _M:
        return _M
    compat.import_pybrops()
    import h5py
    import pybrops.core.util.h5py as h5util
    from pybrops.popgen.gmat.DensePhasedGenotypeMatrix import DensePhasedGenotypeMatrix
    from pybrops.popgen.gmat.DenseGenotypeMatrix import DenseGenotypeMatrix
    from pybrops.popgen.bvmat.DenseBreedingValueMatrix import DenseBreedingValueMatrix
    from pybrops.popgen.cmat.DenseMolecularCoancestryMatrix import DenseMolecularCoancestryMatrix
    from pybrops.model.vmat.DenseTwoWayDHAdditiveGeneticVarianceMatrix import \
        DenseTwoWayDHAdditiveGeneticVarianceMatrix
    from pybrops.model.gmod.DenseAdditiveLinearGenomicModel import DenseAdditiveLinearGenomicModel
    from pybrops.model.gmod.DenseAdditiveDominanceLinearGenomicModel import \
        DenseAdditiveDominanceLinearGenomicModel
    from pybrops.breed.prot.pt.G_E_Phenotyping import G_E_Phenotyping
    _M.update({
        "h5py": h5py, "h5util": h5util,
        "pgmat": DensePhasedGenotypeMatrix, "gmat": DenseGenotypeMatrix, "bvmat": DenseBreedingValueMatrix,
        "cmat": DenseMolecularCoancestryMatrix, "vmat": DenseTwoWayDHAdditiveGeneticVarianceMatrix,
        "algmod": DenseAdditiveLinearGenomicModel, "adlgmod": DenseAdditiveDominanceLinearGenomicModel,
        "ge": G_E_Phenotyping,
    })
    from pybrops.model.vmat.DenseThreeWayDHAdditiveGeneticVarianceMatrix import \
        DenseThreeWayDHAdditiveGeneticVarianceMatrix
    from pybrops.model.vmat.DenseFourWayDHAdditiveGeneticVarianceMatrix import \
        DenseFourWayDHAdditiveGeneticVarianceMatrix
    from pybrops.breed.prot.pt.TruePhenotyping import TruePhenotyping
    _M["tp"] = TruePhenotyping
    _M.update({"vmat3": DenseThreeWayDHAdditiveGeneticVarianceMatrix,
               "vmat4": DenseFourWayDHAdditiveGeneticVarianceMatrix})
    from pybrops.popgen.gmap.StandardGeneticMap import StandardGeneticMap
    from pybrops.popgen.gmap.ExtendedGeneticMap import ExtendedGeneticMap
    import pandas
    _M.update({"sgmap": StandardGeneticMap, "egmap": ExtendedGeneticMap, "pandas": pandas})
    import importlib
    for k, path in BASE_PATHS.items():
        _M[k] = getattr(importlib.import_module(path), path.split(".")[-1])
    return _M


def _gpmod(t):
    """the genomic model a G_E_Phenotyping protocol is bound to (only its trait count matters)"""
    M = _mods()
    return M["algmod"](beta=numpy.zeros((1, t)), u_misc=None, u_a=numpy.ones((2, t)), trait=None)


# ----------------------------------------------------------------------------- variations of one object
# memory layouts: the same logical array held in a buffer that is not C-contiguous
def relayout(a, how):
    if not isinstance(a, numpy.ndarray) or a.ndim == 0 or how is None:
        return a
    if how == "F" and a.ndim >= 2:
        return numpy.asfortranarray(a)
    if how == "roll" and a.ndim >= 2:           # base array holds the axes rotated by one (a transposed view)
        p = list(range(1, a.ndim)) + [0]
        return numpy.ascontiguousarray(a.transpose(p)).transpose(numpy.argsort(p))
    if how == "neg":                            # negative strides
        sl = tuple(slice(None, None, -1) for _ in a.shape)
        return numpy.ascontiguousarray(a[sl])[sl]
    # "strided" (and the 1-d fallback of F / roll): every second element of a larger buffer
    big = numpy.empty(tuple(2 * s_ for s_ in a.shape), dtype=a.dtype)
    sl = tuple(slice(None, None, 2) for _ in a.shape)
    big[sl] = a
    return big[sl]


LAYOUTS = [None, "F", "roll", "strided", "neg"]

# concrete classes of one family (same fields, same constructor keywords): the subclasses inherit or
# re-implement the persistence / copy methods
PYCLS = {
    "bvmat": ["pybrops.popgen.bvmat.DenseEstimatedBreedingValueMatrix",
              "pybrops.popgen.bvmat.DenseGenomicEstimatedBreedingValueMatrix"],
    "cmat": ["pybrops.popgen.cmat.DenseVanRadenCoancestryMatrix", "pybrops.popgen.cmat.DenseYangCoancestryMatrix",
             "pybrops.popgen.cmat.DenseGeneralizedWeightedCoancestryMatrix"],
    "vmat": ["pybrops.model.vmat.DenseTwoWayDHAdditiveGenicVarianceMatrix",
             "pybrops.model.vmat.DenseDihybridDHAdditiveGeneticVarianceMatrix",
             "pybrops.model.vmat.DenseDihybridDHAdditiveGenicVarianceMatrix"],
    "vmat3": ["pybrops.model.vmat.DenseThreeWayDHAdditiveGenicVarianceMatrix"],
    "vmat4": ["pybrops.model.vmat.DenseFourWayDHAdditiveGenicVarianceMatrix"],
    "algmod": ["pybrops.model.gmod.rrBLUPModel0"],
    "dmat": ["pybrops.core.mat.DenseSquareMatrix"],
    "tmat": ["pybrops.core.mat.DenseSquareTaxaMatrix"],
    "sq4": ["pybrops.model.pcvmat.DenseTwoWayDHAdditiveProgenyGeneticCovarianceMatrix",
            "pybrops.model.pcvmat.DenseDihybridDHAdditiveProgenyGeneticCovarianceMatrix"],
}


def pyclass(cls, var=None):
    M = _mods()
    name = (var or {}).get("pycls")
    if not name:
        return M[cls]
    if name not in _M:
        import importlib
        _M[name] = getattr(importlib.import_module(name), name.split(".")[-1])
    return _M[name]


def _user_spline(chrgrp, phypos, genpos, kind, fill, warp):
    """a pre-built spline dictionary as the documented `spline=` argument takes it: interpolators that
    were NOT fitted to the map's own arrays (`warp` bends the genetic positions)"""
    from scipy.interpolate import interp1d
    out = {}
    for g in numpy.unique(chrgrp):
        m = chrgrp == g
        x = phypos[m].astype(float)
        y = genpos[m] * warp + (x - x.min()) * 1e-4
        out[g] = interp1d(x=numpy.concatenate([x, [x.max() + 10.0, x.max() + 25.0, x.max() + 30.0]]),
                          y=numpy.concatenate([y, [y.max() + 0.5, y.max() + 0.75, y.max() + 1.5]]),
                          kind=kind, fill_value=fill, assume_sorted=False)
    return out


def _fill_value(f):
    if f is None or isinstance(f, str):
        return "extrapolate" if f is None else f
    return numpy.array(float(Fraction(f)))


def apply_edit(obj, e):
    """one in-place step of a history on a live object"""
    k = e["k"]
    if e["t"] == "bump":                       # overwrite the buffer in place
        a = getattr(obj, k)
        if isinstance(a, numpy.ndarray):
            bump_inplace(a)
    elif e["t"] == "set":                      # re-assign the attribute
        setattr(obj, k, dec_item(e["v"]))
    elif e["t"] == "call":                     # a method of the class (sorting, grouping, pruning, statistics)
        getattr(obj, k)(*[numpy.array(a) if isinstance(a, list) else a for a in e.get("a", [])])


def build(cls, fields, ctx=0, grouped=False, var=None):
    """construct the real pybrops object from encoded fields; `var` = how (memory layout of the arrays
    handed over, concrete subclass, spline options of a genetic map, in-place steps applied afterwards)"""
    M = _mods()
    var = var or {}
    fam = cls
    spec = CLASSES[cls]
    lay = var.get("layout")
    kw = {k: relayout(dec_item(fields.get(k)), lay) for k in spec["ctor"]}
    C = pyclass(cls, var)
    if fam == "gmat" and kw.get("ploidy") is None:
        kw.pop("ploidy", None)
    if fam in ("ge", "tp"):
        obj = C(gpmod=_gpmod(ctx), **kw)
    elif fam in ("sgmap", "egmap"):
        sp = var.get("spline") or {}
        mode = sp.get("mode", "auto")
        kind = sp.get("kind", "linear")
        fill = _fill_value(sp.get("fill"))
        if mode == "auto":
            obj = C(auto_group=True, auto_build_spline=True, spline_kind=kind, spline_fill_value=fill, **kw)
        elif mode == "none":
            obj = C(auto_group=True, auto_build_spline=False, **kw)
        else:                                   # a user-supplied, pre-built spline
            usr = _user_spline(kw["vrnt_chrgrp"], kw["vrnt_phypos"], kw["vrnt_genpos"], kind, fill,
                               float(Fraction(sp.get("warp", "3/2"))))
            obj = C(auto_group=True, auto_build_spline=False, spline=usr, spline_kind=kind,
                    spline_fill_value=fill, **kw)
    else:
        obj = C(**kw)
    for k in spec["fields"]:
        if k not in spec["ctor"] and k != "ploidy" and fields.get(k) is not None and fam not in ("sgmap", "egmap"):
            setattr(obj, k, dec_item(fields[k]))
    if grouped:
        if getattr(obj, "taxa_grp", None) is not None and hasattr(obj, "group_taxa"):
            obj.group_taxa()
        if getattr(obj, "vrnt_chrgrp", None) is not None and hasattr(obj, "group_vrnt"):
            obj.group_vrnt()
    for e in var.get("prep") or []:
        apply_edit(obj, e)
    return obj


def fields_of(cls, obj):
    """observable state of a pybrops object: every field of the class, encoded"""
    return {k: enc_item(getattr(obj, k)) for k in CLASSES[cls]["fields"]}


# the model follows /repo HEAD (fixes 93761174 = D8, 9631bba1 = D29 and the repair of D30 included).  To compare a
# tree in which one of them is reverted with the matching pre-repair model: C16_PREREPAIR=D8 (or D29, D30, or D8,D29)
MODEL_PREREPAIR = [x for x in os.environ.get("C16_PREREPAIR", "").split(",") if x]

def arrays_of(cls, obj):
    """every numpy array reachable from the object's fields (directly or through a dictionary)"""
    out = []
    for k in CLASSES[cls]["fields"]:
        v = getattr(obj, k)
        if isinstance(v, numpy.ndarray):
            out.append((k, v))
        elif isinstance(v, dict):
            for kk, vv in v.items():
                if isinstance(vv, numpy.ndarray):
                    out.append((k + "/" + kk, vv))
    return out


def bump_inplace(a):
    """change every element of the buffer in place (mirrors StoreCopy.bump)"""
    if a.dtype == numpy.int8:
        a[...] = (((a.astype(numpy.int16) + 1 + 128) % 256) - 128).astype(numpy.int8)
    elif a.dtype == numpy.bool_:
        a[...] = ~a
    elif a.dtype == object:
        for i in range(a.size):
            a.flat[i] = (a.flat[i] + "_x") if isinstance(a.flat[i], str) else a.flat[i] + b"_x"
    else:
        a += 1


# ----------------------------------------------------------------------------- generic observable state
def _is_rng(x):
    return isinstance(x, (numpy.random.Generator, numpy.random.RandomState)) or hasattr(x, "bit_generator") \
        or type(x).__module__.startswith("pybrops.core.random")


def _is_interp(x):
    return type(x).__name__ == "interp1d"


def _probe_interp(f):
    """an interpolator is what it computes: knots, kind, fill rule and its values at probe points
    (between the knots, at them, and outside on both sides)"""
    x = numpy.asarray(f.x, dtype=float)
    xs = sorted(set(float(v) for v in x))
    pts = list(xs) + [(a + b) / 2 for a, b in zip(xs, xs[1:])] + [(2 * a + b) / 3 for a, b in zip(xs, xs[1:])]
    pts += [xs[0] - 1.0, xs[0] - 7.5, xs[-1] + 1.0, xs[-1] + 123.25]
    vals = []
    for q in pts:
        try:
            vals.append(fenc(float(f(q))))
        except Exception as e:          # bounds_error etc.: the refusal is the behaviour
            vals.append("raise:" + type(e).__name__)
    fv = getattr(f, "fill_value", None)
    try:
        fvs = [fenc(v) for v in numpy.atleast_1d(numpy.asarray(fv, dtype=float)).reshape(-1)] \
            if not isinstance(fv, str) else fv
    except Exception:
        fvs = repr(fv)
    return {"x": enc_ds(x), "y": enc_ds(numpy.asarray(f.y, dtype=float)), "kind": str(getattr(f, "_kind", "?")),
            "fill": fvs, "bounds_error": bool(getattr(f, "bounds_error", False)), "probe": vals}


_PROPS = {}


def _public_props(tp):
    if tp not in _PROPS:
        _PROPS[tp] = [n for n in dir(tp) if not n.startswith("_") and isinstance(getattr(tp, n, None), property)]
    return _PROPS[tp]


def state_of(x, seen=None):
    """everything observable about a live object, recursively over its attributes: arrays (dtype, shape,
    values), scalars, dictionaries (as maps), sequences, nested pybrops objects, interpolators (by their
    behaviour); the random source is an external resource"""
    seen = set() if seen is None else seen
    if x is None or isinstance(x, (bool, int, float, str, bytes, numpy.generic)):
        return {"imm": enc_ds(x)}
    if isinstance(x, numpy.ndarray):
        return {"arr": enc_ds(x)}
    if _is_rng(x):
        return {"ext": "rng"}
    if id(x) in seen:
        return {"cycle": type(x).__name__}
    seen = seen | {id(x)}
    if isinstance(x, dict):
        items = [[(str(int(k)) if isinstance(k, (int, numpy.integer)) else repr(k) if not isinstance(k, str) else k),
                  state_of(v, seen)] for k, v in x.items()]
        return {"dict": sorted(items, key=lambda kv: kv[0])}
    if isinstance(x, (list, tuple)):
        return {"seq": [state_of(v, seen) for v in x], "type": type(x).__name__}
    if _is_interp(x):
        return {"interp1d": _probe_interp(x)}
    if type(x).__module__.startswith("pybrops") and hasattr(x, "__dict__"):
        attrs = []
        for k, v in vars(x).items():
            # observable = what the public property of the same name hands out (a private slot that the
            # class's own getter overrides, e.g. `_ploidy` of a phased matrix, is not state)
            pub = k[1:] if k.startswith("_") else k
            if pub != k:
                if not isinstance(getattr(type(x), pub, None), property):
                    # a private slot under another public name (`_params` is handed out by `hyperparams`)?
                    # otherwise nobody can read it through the public interface (a cache, say): not state
                    alias = None
                    if isinstance(v, (dict, list, numpy.ndarray)):
                        for nme in _public_props(type(x)):
                            try:
                                if getattr(x, nme) is v:
                                    alias = nme
                                    break
                            except Exception:
                                pass
                    if alias is None:
                        continue
                    pub = alias
                else:
                    try:
                        v = getattr(x, pub)
                    except Exception as e:
                        v = "raise:" + type(e).__name__
            attrs.append([pub, state_of(v, seen)])
        return {"obj": type(x).__name__, "attrs": sorted(attrs, key=lambda kv: kv[0])}
    return {"opaque": type(x).__name__}


def cells_of(x, path="", out=None, seen=None):
    """every mutable cell reachable from a live object: [(path, object)] — arrays, dictionaries, lists,
    interpolators (and their knot arrays), nested pybrops objects; not the random source"""
    out = [] if out is None else out
    seen = set() if seen is None else seen
    if x is None or isinstance(x, (bool, int, float, str, bytes, numpy.generic)):
        return out
    if _is_rng(x) or id(x) in seen:
        return out
    if isinstance(x, numpy.ndarray):
        seen.add(id(x))
        out.append((path, x))
        return out
    if isinstance(x, dict):
        seen.add(id(x))
        out.append((path, x))
        for k, v in x.items():
            cells_of(v, f"{path}[{k!r}]", out, seen)
        return out
    if isinstance(x, (list, tuple)):
        seen.add(id(x))
        if isinstance(x, list):
            out.append((path, x))
        for i, v in enumerate(x):
            cells_of(v, f"{path}[{i}]", out, seen)
        return out
    if _is_interp(x):
        seen.add(id(x))
        out.append((path, x))
        for k in ("x", "y"):
            v = getattr(x, k, None)
            if isinstance(v, numpy.ndarray):
                out.append((path + "." + k, v))
        return out
    if type(x).__module__.startswith("pybrops") and hasattr(x, "__dict__"):
        seen.add(id(x))
        out.append((path, x))
        for k, v in vars(x).items():
            cells_of(v, path + "." + k, out, seen)
        return out
    return out


def shared_cells(a, b):
    """paths of mutable cells that two objects have in common (same object, or arrays over one buffer)"""
    ca, cb = cells_of(a), cells_of(b)
    ids = {id(o): p for p, o in ca}
    hits = []
    for p, o in cb:
        if id(o) in ids:
            hits.append(f"{p} is {ids[id(o)]}")
    arr_a = [(p, o) for p, o in ca if isinstance(o, numpy.ndarray) and o.size]
    for p, o in cb:
        if isinstance(o, numpy.ndarray) and o.size:
            for pa, oa in arr_a:
                if oa is not o and numpy.shares_memory(oa, o):
                    hits.append(f"{p} shares memory with {pa}")
    return sorted(set(hits))


def mutate_all(x, tag):
    """a subsequent mutation of EVERY array and every dictionary an object can reach through its
    attributes (not the internals of interpolators): arrays overwritten in place, a key added to each
    dictionary.  -> number of cells changed"""
    n = 0
    done = set()
    for p, o in cells_of(x):
        if id(o) in done:
            continue
        if isinstance(o, numpy.ndarray):
            if "._spline[" in p:                 # knot arrays inside an interpolator
                continue
            if o.size and o.flags.writeable:
                done.add(id(o))
                bump_inplace(o)
                n += 1
        elif isinstance(o, dict):
            done.add(id(o))
            ints = bool(o) and all(isinstance(k, (int, numpy.integer)) for k in o)
            o[tag] = o[next(iter(o))] if ints else 1
            n += 1
    return n


def diff_state(a, b, path=""):
    """first place where two `state_of` trees differ (None when equal)"""
    if type(a) is not type(b):
        return path or "/"
    if isinstance(a, dict):
        if set(a) != set(b):
            return f"{path} kinds {sorted(a)} vs {sorted(b)}"
        for k in a:
            d = diff_state(a[k], b[k], f"{path}/{k}")
            if d:
                return d
        return None
    if isinstance(a, list):
        if len(a) != len(b):
            return f"{path} length {len(a)} vs {len(b)}"
        for i, (x, y) in enumerate(zip(a, b)):
            tag = x[0] if isinstance(x, list) and len(x) == 2 and isinstance(x[0], str) else i
            d = diff_state(x, y, f"{path}/{tag}")
            if d:
                return d
        return None
    return None if a == b else f"{path}: {str(a)[:60]!r} vs {str(b)[:60]!r}"


# ----------------------------------------------------------------------------- object graphs
GRAPH_ATTRS = dict({c: list(CLASSES[c]["fields"]) for c in CLASSES},
                   ge=["gpmod", "nenv", "nrep", "var_env", "var_rep", "var_err", "rng"], tp=["gpmod"])


class Graph:
    """heap of cells built from live Python objects; identity = id()"""

    def __init__(self):
        self.cells, self.addr, self.keep = [], {}, []

    def ref(self, x):
        M = _mods()
        if x is None:
            return None
        if isinstance(x, (numpy.ndarray, dict)) or type(x) in self._classes():
            if id(x) in self.addr:
                return {"ptr": self.addr[id(x)]}
            self.keep.append(x)
            if isinstance(x, numpy.ndarray):
                cell = {"arr": enc_ds(x)}
            elif isinstance(x, dict):
                cell = {"dict": [[str(k), self.ref(v)] for k, v in x.items()]}
            else:
                cls = self._classes()[type(x)]
                cell = {"obj": cls, "attrs": [[k, self.ref(getattr(x, k))] for k in GRAPH_ATTRS[cls]]}
            self.cells.append(cell)            # children first: every reference points below its cell
            self.addr[id(x)] = len(self.cells) - 1
            return {"ptr": self.addr[id(x)]}
        if isinstance(x, (numpy.random.Generator, numpy.random.RandomState)) or hasattr(x, "bit_generator") \
                or type(x).__module__.startswith("pybrops.core.random"):
            if id(x) not in self.addr:
                self.keep.append(x)
                self.cells.append({"ext": "rng"})
                self.addr[id(x)] = len(self.cells) - 1
            return {"ptr": self.addr[id(x)]}
        return {"imm": enc_ds(x)}

    @staticmethod
    def _classes():
        M = _mods()
        return {M[c]: c for c in CLASSES}


def g_kids(cell):
    return cell.get("dict") or cell.get("attrs") or []


def g_canon(cells, root):
    """the graph below `root` with addresses renumbered in depth-first order"""
    num, out = {}, []

    def go(r):
        if r is None or "imm" in r:
            return r
        a = r["ptr"]
        if a in num:
            return {"ptr": num[a]}
        num[a] = len(num)
        c = cells[a]
        slot = len(out)
        out.append(None)
        if "arr" in c or "ext" in c:
            out[slot] = c
        elif "dict" in c:
            out[slot] = {"dict": [[k, go(v)] for k, v in c["dict"]]}
        else:
            out[slot] = {"obj": c["obj"], "attrs": [[k, go(v)] for k, v in c["attrs"]]}
        return {"ptr": num[a]}
    return {"root": go(root), "cells": out}


def g_tree(cells, r):
    if r is None or "imm" in r:
        return r
    c = cells[r["ptr"]]
    if "arr" in c or "ext" in c:
        return c
    if "dict" in c:
        return {"dict": sorted([[k, g_tree(cells, v)] for k, v in c["dict"]], key=lambda kv: kv[0])}
    return {"obj": c["obj"], "attrs": [[k, g_tree(cells, v)] for k, v in c["attrs"]]}


def g_reach(cells, r, acc=None):
    acc = set() if acc is None else acc
    if r is None or "imm" in r or r["ptr"] in acc:
        return acc
    acc.add(r["ptr"])
    for _, v in g_kids(cells[r["ptr"]]):
        g_reach(cells, v, acc)
    return acc


# ----------------------------------------------------------------------------- generation helpers
NAMES = ["tå", "βb", "c c", "D-4", "e_5", "ζ", "g.7", "日本", "i"]
TRAITS = ["yld", "hté", "oil %", "prot"]
GROUPS = [None, "a", "a/b", "grüppe/β", "/lead", "x//y", "trail/", "./dot/z", "p/q/r", "p/q/s", " sp ace",
          "Zoe\u0308/\u2126", "deep/er/and/deeper/", "A", "a/B", "1", "0/1"]
# labels that survive only if nothing "helpfully" normalises, trims, folds, retypes or re-encodes them:
# not NFC (combining sequences, canonical singletons), NFKC-sensitive (ligature, full width), case pairs,
# padded, CSV metacharacters, 4-byte code points, a long one
HARD = ["Zo\u00eb", "Zoe\u0308", "Nin\u0303o", "\u03a9", "\u2126", "\u212bng", "\ufb01x", "fix", "\uff211", "A1",
        "ab", "AB", "Ab", " lead", "trail ", "in  ner", "tab\tx", "q\"uote", "com,ma", "semi;colon", "'s'",
        "back\\slash", "#h", "nl\ny", "\U0001f33ew", "L" * 300, "\u00df", "ss", "\u0131", "\u1eb9\u0301",
        "e\u0323\u0301", "\u00c5", "A\u030a"]
# … and labels that look like numbers / missing values / booleans (text files retype those: not CSV-safe)
RETYPED = ["007", "1e5", "-3", "0.50", "NA", "nan", "None", "null", "", "True", "N/A", "1_000", "inf"]


def _labels(rng, base, k, hard=False, csv=False, prefix=""):
    pool = list(base)
    if hard:
        pool = pool + HARD + ([] if csv else RETYPED)
        pool = _perm(rng, pool)
        # at least one hard label whenever possible
        pool = [rng.choice(HARD)] + [x for x in pool]
    out = []
    for x in _perm(rng, pool) if not hard else pool:
        if prefix + x not in out:
            out.append(prefix + x)
        if len(out) == k:
            break
    i = 0
    while len(out) < k:                      # more labels than the pool holds (large matrices)
        out.append("%sx%d" % (prefix, i))
        i += 1
    return _perm(rng, out)


def _perm(rng, xs):
    xs = list(xs)
    rng.shuffle(xs)
    return xs


def _dy(rng, lo=-8, hi=8):
    """dyadic rational as canonical scalar"""
    return canon.enc(Fraction(rng.randint(lo * 4, hi * 4), 4))


def _dy_wide(rng):
    """a double that no float32 can hold (45 significant bits)"""
    return canon.enc(Fraction(2 * rng.randint(-2 ** 43, 2 ** 43) + 1, 2 ** 30))


def _mag(rng, nonneg=False, nonfinite=False, text=False):
    """a full-precision double at one of the magnitudes where tolerance-style shortcuts bite:
    ~1e-8, ~1e-5, 25000 + small differences, 1e9 +- 0.5, plain; exact ties come from repeats"""
    r = rng.random()
    if nonfinite and not nonneg and r < 0.12:
        return fenc(rng.choice([float("nan"), float("inf"), float("-inf")]))
    k = rng.randrange(6)
    if k == 0:
        x = 1e-8 * (1 + rng.random())
    elif k == 1:
        x = 1e-5 * (1 + rng.random())
    elif k == 2:
        x = 25000.0 + rng.randint(-8, 8) * 2.0 ** -20 + rng.random() * 1e-7
    elif k == 3:
        x = 1e9 + rng.choice([-0.5, 0.5, 0.25, 0.0])
    elif k == 4:
        x = rng.choice([0.1, 0.2, 0.3, 1 / 3, 2 / 3, 0.7, 123456.789012345] +
                       ([] if text else [1e-300, 5e-324, 1.7976931348623157e308]))
    else:
        x = rng.random() * rng.choice([1, 10, 1000])
    if not nonneg and rng.random() < 0.4:
        x = -x
    return canon.enc(x)


def gen_obj(rng, cls, shape=None, rich=None, width=None, hard=False, csv=False, nonfinite=False, hardf=None, extreme=True, meta=False):
    """-> (fields, ctx, grouped, shape).  `rich` = probability that an optional field is present;
    `width` = None (default dtypes, small values) | "narrow" (float32 / int32 where the class accepts
    them) | "wide" (float64 / int64 with values that do not fit the narrow types); `hard` = labels from
    the HARD pool and full-precision floats at awkward magnitudes (`csv`: keep labels CSV-safe);
    `nonfinite` = NaN / +-inf among the matrix values (storage only)"""
    if rich is None:
        rich = rng.choice([0.0, 0.3, 0.7, 1.0])
    hardf = hard if hardf is None else hardf
    opt = lambda: rng.random() < rich
    fdt = "f32" if width == "narrow" else "f64"
    idt = "i32" if width == "narrow" else "i64"
    if width == "wide":
        fval = lambda lo=-8, hi=8: _dy_wide(rng)
    elif hardf and width is None:
        fval = lambda lo=-8, hi=8: _mag(rng, nonneg=(lo >= 0), nonfinite=nonfinite, text=(csv or not extreme))
    else:
        fval = lambda lo=-8, hi=8: _dy(rng, lo, hi)
    def fvals(k, lo=-8, hi=8):
        """k values of one array; with hard floats half of the arrays are homogeneous in magnitude (all
        within a tolerance of 0, of 1, of a large common offset), which is what `allclose`-style tests see"""
        if not (hardf and width is None) or rng.random() < 0.5:
            return [fval(lo, hi) for _ in range(k)]
        mode = rng.choice(["tiny", "tiny", "near1", "offset", "big", "tie"])
        out = []
        tie = _mag(rng, nonneg=(lo >= 0), text=(csv or not extreme))
        for _ in range(k):
            if mode == "tiny":
                x = rng.choice([1e-9, 3e-9, 9.9e-9, 1e-12, 2e-16, 1e-8]) * (0.5 + rng.random() / 2)
            elif mode == "near1":
                x = 1.0 + rng.choice([-1, 1]) * rng.choice([2.0 ** -30, 1e-9, 2.0 ** -52, 4e-9])
            elif mode == "offset":
                x = 25000.0 + rng.randint(-64, 64) * 2.0 ** -24
            elif mode == "big":
                x = 1e9 + rng.choice([-0.5, 0.5, 0.25, -0.25, 0.0, 1.0])
            else:
                out.append(tie)
                continue
            if lo < 0 and mode in ("tiny",) and rng.random() < 0.3:
                x = -x
            out.append(canon.enc(x))
        return out

    big = (lambda v: v + rng.choice([0, 2 ** 31, 3 * 2 ** 33])) if width == "wide" else (lambda v: v)
    names = lambda k, prefix="": _labels(rng, NAMES, k, hard, csv, prefix)
    traits = lambda k: _labels(rng, TRAITS, k, hard, csv)
    fields = {}
    ctx = 0
    grouped = False
    if cls in ("pgmat", "gmat"):
        m, n, p = shape or (rng.choice([1, 2, 2, 3]), rng.randint(1, 4), rng.randint(1, 5))
        sh = [m, n, p] if cls == "pgmat" else [n, p]
        size = n * p * (m if cls == "pgmat" else 1)
        base = rng.randint(-128, 127)
        fields["mat"] = ds("i8", sh, [((base + 7 * i + rng.randint(0, 1)) % 256) - 128 for i in range(size)])
        if opt():
            fields["taxa"] = ds("str", [n], names(n))
        if opt():
            fields["taxa_grp"] = ds(idt, [n], [big(rng.randint(1, 3)) for _ in range(n)])
        if opt():
            fields["vrnt_chrgrp"] = ds(idt, [p], [big(rng.randint(1, 3)) for _ in range(p)])
        if opt():
            fields["vrnt_phypos"] = ds(idt, [p], [big(rng.randint(1, 10 ** 9)) for _ in range(p)])
        if opt():
            fields["vrnt_name"] = ds("str", [p], names(p, "m"))
        if opt():
            fields["vrnt_genpos"] = ds("f64", [p], fvals(p, 0, 8) if hardf else [_dy(rng, 0, 8) for _ in range(p)])
        if opt():
            fields["vrnt_xoprob"] = ds("f64", [p], [canon.enc(Fraction(rng.randint(0, 8), 16)) for _ in range(p)] if not hardf else
                                       [canon.enc(rng.choice([0.0, 0.5, 1e-9, 0.5 - 1e-12, 1e-300, 0.1])) for _ in range(p)])
        if opt():
            fields["vrnt_hapgrp"] = ds(idt, [p], [big(rng.randint(0, 4)) for _ in range(p)])
        if opt():
            fields["vrnt_hapalt"] = ds("str", [p], [rng.choice(["A", "C", "G", "T", "ÅT", "a", "<DEL>", "A\u030a"])
                                                    for _ in range(p)])
        if opt():
            fields["vrnt_hapref"] = ds("str", [p], [rng.choice(["A", "C", "G", "T", "t", "N"]) for _ in range(p)])
        if opt():
            fields["vrnt_mask"] = ds("bool", [p], [rng.randint(0, 1) for _ in range(p)])
        if cls == "gmat":
            fields["ploidy"] = ds("i64", [], [rng.choice([1, 2, 2, 4])])
        grouped = rng.random() < 0.5
        shape = (m, n, p)
    elif cls in ("dmat", "tmat", "vrmat", "tvmat", "trmat", "ttmat", "sttmat", "sq4"):
        # base classes: the first two axes are square for dmat / tmat (so that the Square* subclasses accept the
        # same object); taxa along axis 0, variants along axis 0 (vrmat) or 1 (tvmat), traits along axis 0 (trmat),
        # axis 1 (ttmat), the last axis (sttmat) or the last two (sq4)
        n, t = shape or (rng.randint(1, 3), rng.randint(1, 3))
        p = rng.randint(1, 4)
        sh = {"dmat": [n, n] + ([t] if rng.random() < 0.5 else []), "tmat": [n, n], "vrmat": [p, t], "tvmat": [n, p],
              "trmat": [t, n], "ttmat": [n, t], "sttmat": [n, n, t], "sq4": [n, n, t, t]}[cls]
        size = 1
        for x in sh:
            size *= x
        fields["mat"] = ds(fdt, sh, fvals(size))
        if cls in ("tmat", "tvmat", "ttmat", "sttmat", "sq4"):
            if opt():
                fields["taxa"] = ds("str", [n], names(n))
            if opt():
                fields["taxa_grp"] = ds(idt, [n], [big(rng.randint(1, 3)) for _ in range(n)])
        if cls in ("trmat", "ttmat", "sttmat", "sq4") and opt():
            fields["trait"] = ds("str", [t], traits(t))
        if cls in ("vrmat", "tvmat"):
            if opt():
                fields["vrnt_chrgrp"] = ds(idt, [p], [big(rng.randint(1, 3)) for _ in range(p)])
            if opt():
                fields["vrnt_phypos"] = ds(idt, [p], [big(rng.randint(1, 10 ** 9)) for _ in range(p)])
            if opt():
                fields["vrnt_name"] = ds("str", [p], names(p, "m"))
            if opt():
                fields["vrnt_genpos"] = ds("f64", [p], [_dy(rng, 0, 8) for _ in range(p)])
            if opt():
                fields["vrnt_xoprob"] = ds("f64", [p], [canon.enc(Fraction(rng.randint(0, 8), 16)) for _ in range(p)])
            if opt():
                fields["vrnt_hapgrp"] = ds(idt, [p], [big(rng.randint(0, 4)) for _ in range(p)])
            if opt():
                fields["vrnt_hapalt"] = ds("str", [p], [rng.choice(["A", "C", "ÅT", "<DEL>"]) for _ in range(p)])
            if opt():
                fields["vrnt_hapref"] = ds("str", [p], [rng.choice(["A", "C", "G", "t"]) for _ in range(p)])
            if opt():
                fields["vrnt_mask"] = ds("bool", [p], [rng.randint(0, 1) for _ in range(p)])
        grouped = rng.random() < 0.5
        shape = (n, t)
    elif cls in ("bvmat", "cmat", "vmat", "vmat3", "vmat4"):
        n, t = shape or (rng.randint(1, 4) if cls in ("bvmat", "cmat", "vmat") else rng.randint(1, 3) if cls == "vmat3"
                         else rng.randint(1, 2), rng.randint(1, 3))
        if cls == "bvmat":
            fields["mat"] = ds(fdt, [n, t], fvals(n * t))
            fields["location"] = ds(fdt, [t], [_dy(rng) for _ in range(t)] if (nonfinite or not extreme) else fvals(t))
            fields["scale"] = ds("f64", [t], [canon.enc(Fraction(rng.randint(1, 16), 4)) for _ in range(t)]
                                 if not (hardf and extreme) or rng.random() < 0.5 else
                                 [canon.enc(1.0 + rng.choice([2.0 ** -30, -2.0 ** -31, 1e-9, 0.0])) for _ in range(t)])
        elif cls == "cmat":
            # float64 / int64 only (the class insists), but wide values all the same
            fields["mat"] = ds("f64", [n, n], fvals(n * n, 0, 2) if (width == "wide" or hardf) else
                               [_dy(rng, 0, 2) for _ in range(n * n)])     # asymmetric on purpose
        else:
            k = VM_AXES[cls]
            fields["mat"] = ds(fdt, [n] * k + [t], fvals(n ** k * t, 0, 8))
        if opt():
            fields["taxa"] = ds("str", [n], names(n))
        if opt():
            gdt = "i64" if cls == "cmat" else idt
            fields["taxa_grp"] = ds(gdt, [n], [big(rng.randint(1, 3)) for _ in range(n)])
        if cls != "cmat" and opt():
            fields["trait"] = ds("str", [t], traits(t))
        grouped = rng.random() < 0.5
        shape = (n, t)
    elif cls in ("algmod", "adlgmod"):
        q, pm, pa, t = shape or (rng.randint(1, 2), rng.randint(0, 2), rng.randint(1, 4), rng.randint(1, 3))
        fields["beta"] = ds("f64", [q, t], fvals(q * t))
        if pm > 0 or rng.random() < 0.5:
            fields["u_misc"] = ds("f64", [pm, t], fvals(pm * t))
        fields["u_a"] = ds("f64", [pa, t], fvals(pa * t))
        if cls == "adlgmod":
            fields["u_d"] = ds("f64", [pa, t], fvals(pa * t))
        if opt():
            fields["trait"] = ds("str", [t], traits(t))
        if opt():
            fields["model_name"] = ds("str", [], [rng.choice(["rrBLUP", "mödel №1", "x"] +
                                                            (["Zoe\u0308 \u2126", " padded ", "NA"] if hard else []))])
        if opt():
            hp = {}
            for k in _perm(rng, ["k", "lam", "nit", "tol", "wts", "flag", "K", "Lam"])[:rng.randint(0, 4)]:
                r = rng.random()
                if r < 0.3:
                    hp[k] = ds("i64", [], [rng.randint(0, 50) if not hardf else rng.choice([0, -1, 2 ** 53 + 1, 2 ** 62])])
                elif r < 0.6:
                    hp[k] = ds("f64", [], [_mag(rng) if hardf else _dy(rng)])
                elif r < 0.75:
                    hp[k] = ds("f64", [2], [_dy(rng), _mag(rng) if hardf else _dy(rng)])
                elif r < 0.92:
                    hp[k] = ds("str", [], [rng.choice(["ML", "REML", "méthode"] +
                                                      (["e\u0301", "", "1e-5", " x "] if hard else []))])
                else:
                    hp[k] = ds("bool", [], [rng.randint(0, 1)])
            fields["hyperparams"] = {"dict": hp}
        shape = (q, pm, pa, t)
    elif cls == "tp":
        ctx = rng.randint(1, 3)
        shape = (ctx,)
    elif cls == "ge":
        ne, t = shape or (rng.randint(1, 3), rng.randint(1, 3))
        ctx = t
        fields["nenv"] = ds("i64", [], [ne])
        fields["nrep"] = ds("i64", [ne], [rng.randint(1, 4) for _ in range(ne)])
        for k in ("var_env", "var_rep", "var_err"):
            if opt():
                fields[k] = ds("f64", [t], fvals(t, 0, 8) if hardf else
                               [canon.enc(Fraction(rng.randint(0, 12), 4)) for _ in range(t)])
        shape = (ne, t)
    elif cls in ("sgmap", "egmap"):
        p = (shape or (rng.randint(2, 7),))[0]
        chrs = sorted(rng.randint(1, 3) for _ in range(p))
        pos, gen = [], []
        den = 2 ** 40 if hardf else 64
        for j in range(p):
            new = j == 0 or chrs[j] != chrs[j - 1]
            pos.append(rng.randint(1, 50) if new else pos[-1] + rng.randint(1, 1000))
            gen.append(Fraction(rng.randint(0, den // 8), den) if new else gen[-1] + Fraction(rng.randint(1, den), den))
        order = _perm(rng, range(p))               # the constructor sorts and groups
        fields["vrnt_chrgrp"] = ds("i64", [p], [chrs[i] for i in order])
        fields["vrnt_phypos"] = ds("i64", [p], [pos[i] for i in order])
        fields["vrnt_genpos"] = ds("f64", [p], [canon.enc(gen[i]) for i in order])
        if cls == "egmap":
            fields["vrnt_stop"] = ds("i64", [p], [pos[i] + rng.randint(0, 5) for i in order])
            if opt():
                fields["vrnt_name"] = ds("str", [p], names(p, "m"))
            if opt():
                fields["vrnt_fncode"] = ds("str", [p], [rng.choice(["H", "K", "U", "çustom"]) for _ in range(p)])
        shape = (p,)
    else:
        raise ValueError(cls)
    # group metadata assigned by hand (public setters): whatever the object holds must be saved / copied as it
    # is, not recomputed.  Such an object is not re-grouped by the harness.
    if meta and rng.random() < 0.12:
        for lab, names in (("taxa_grp", TAXA_META), ("vrnt_chrgrp", VRNT_META)):
            if fields.get(lab) is not None and names[0] in CLASSES[cls]["fields"] and cls not in ("sgmap", "egmap"):
                g = rng.randint(1, 3)
                mdt = fields[lab]["dt"]
                for i, k in enumerate(names):
                    fields[k] = ds(mdt, [g], [rng.randint(0, 9) + (5 if i == 0 else 0) for _ in range(g)])
                grouped = False
    return fields, ctx, grouped, shape


def norm_group(g):
    """h5py path normalisation, mirrored here only to keep generated histories valid"""
    if g is None:
        return ()
    return tuple(c for c in g.split("/") if c not in ("", "."))


# ----------------------------------------------------------------------------- the property
class C16(Prop):
    PID = "C16"
    MODULE = "PybropsModel.Props.C16"
    N_QUICK = 520
    N_THOROUGH = 8000
    CORRESPONDENCE = ("functional (h5 histories, flat copies, copy histories on one live object, object-graph deep copies, VCF import, all data-frame "
                      "layouts incl. the k-way long layout); CSV text is covered by the frame models through the "
                      "abstract dialect contract (cell printing/parsing itself is trusted); interpolation splines "
                      "of genetic maps are compared by behaviour (Spec only, scipy is not modelled)")
    RULE = ("h5 (34%): histories of 1-6 to_hdf5 calls on one file (19 classes — the 11 listed in the property, the 7 base "
            "classes of pybrops.core.mat that carry their own copy of the persistence / copy methods, the (n,n,t,t) "
            "covariance matrices — + 15 subclasses; the parameter-free TruePhenotyping under fresh, nested, oddly spelled "
            "and occupied named groups, overwrite=False included; optional label arrays "
            "present/absent, grouped or not or with hand-assigned group metadata, labels that are not NFC / NFKC, padded, "
            "case pairs, number- and NA-looking, 4-byte, long; non-ASCII and odd spellings of nested groups; floats at "
            "1e-8 / 1e-5 / 25000+-small / 1e9+-0.5 / 1+-1e-9, whole arrays within a tolerance of 0 or 1, ties, NaN and "
            "+-inf; arrays handed over Fortran-ordered / as transposed, strided, negatively strided views; same and "
            "different groups and classes, richer-then-poorer and same-/different-shape overwrites, dtype widths, "
            "overwrite=False on occupied groups; file name / pathlib.Path / open h5py.File on both sides; ONE live "
            "object saved, changed in place or re-labelled, saved again; an object read back, changed and re-saved) "
            "with interleaved reads and a final from_hdf5 of every location; non-trivial = a location written at "
            "least twice or >= 5 fields present.  "
            "copyseq (6%, stratified over 23 classes x 5 ways; the corpus holds every class x the four ways once): ONE live "
            "object copied 2-3 times (the same way again, or another way) with in-place changes of an earlier copy and / or "
            "of the source in between: every copy must equal the source AS IT IS THEN, be of the same type, not be the source, "
            "and a deep copy and the source must not see each other's later changes; non-trivial = >= 2 copies of an object with arrays.  "
            "copy (12%, stratified over 23 classes x 5 ways; the corpus holds every class x way once on a fully labelled grouped "
            "object): copy.copy / copy.deepcopy / .copy() / .deepcopy() after a "
            "short history of in-place steps (statistics, sort / group / prune, buffers overwritten, attributes "
            "re-assigned); genetic maps with auto-built, user-supplied, stale or absent splines of every kind / fill "
            "value; observable equality of every attribute incl. nested objects and interpolators, then EVERY array "
            "and dictionary of the copy, then of the source, is changed; non-trivial = deep copy with >= 2 arrays.  "
            "graph (6%): the object graph (arrays, dictionaries, nested instances, random source) of an object "
            "with and without aliased attributes, deep-copied by copy.deepcopy and by .deepcopy().  "
            "frame (26%, stratified over 9 classes x pandas/CSV): to_pandas/from_pandas or to_csv/from_csv (dict "
            "variants for models) with matching options (label columns on/off, renamed columns, separators, M/cM "
            "units; on the reading side the columns named by POSITION in a quarter of the cases), two- / three- / four-way variance matrices and their genic / dihybrid twins, sorted and "
            "unsorted labels, any memory layout, exported twice with an in-place change in between; variance matrices (45%) and "
            "coancestry matrices (25%) with missing estimates = NaN cells: scattered, a parent without any estimate (its whole "
            "row and column on every taxa axis, every trait), a trait without any estimate, everything.  "
            "vcf (16%): VCF text (plain or gzip) with 1-4 samples x 1-7 records (corpus: 131 samples, 300 records), "
            "unsorted chromosomes, position ties, SNPs / multi-allelic / indels / symbolic / no ALT, FILTER, QUAL, INFO "
            "and extra FORMAT fields, missing IDs, ';'-separated identifier lists, duplicated / case-paired / number- and NA-looking "
            "identifiers and sample names, coordinates at the end of the 32-bit range, phased and unphased class, with and without grouping; one file in "
            "eight has unphased or missing calls (correspondence only); non-trivial = >= 2 samples, >= 2 records, "
            ">= 2 distinct coordinates")
    TRUSTED = ["h5py: dataset read = dataset written (variable-length strings come back as bytes); "
               "path normalisation as modelled by Store.parsePath (checked by correspondence on odd spellings)",
               "numpy.ndarray.__copy__/__deepcopy__ allocate a fresh buffer with equal contents (copy.deepcopy "
               "itself — memo, dictionaries, the classes' __deepcopy__ — is modelled in Model/StoreGraph)",
               "pandas: DataFrame(dict) keeps insertion order, df[name] finds the column; CSV text: the dialect "
               "contract StoreFrame.Lawful (a printed float/int/label-safe string column is typed and parsed "
               "back to itself, None = empty cell = NA; floats to 1e-12 relative)",
               "cyvcf2: variant.genotypes[i] = [allele0, allele1, phased] (missing allele = -1), vcf.samples, "
               "CHROM/POS/ID as written",
               "scipy.interpolate.interp1d (a genetic map's spline is compared through its knots, kind, fill rule "
               "and values at probe points; deep copying it is copy.deepcopy's default)",
               "constructors of the persistable classes as modelled by Store.construct* (checked on every "
               "generated object through the driver op c16.valid and on every read-back)",
               "non-finite doubles travel through the value-agnostic storage model AND the value-agnostic frame models "
               "(theorems for every value type) as reserved rationals outside "
               "the binary64 range (injective encoding; -0.0 is identified with 0.0): a NaN cell is a value like any other, "
               "to_pandas writes its row and from_pandas / from_csv read it back (pandas prints NaN as an empty CSV cell and "
               "parses it back to NaN: part of the trusted dialect contract)",
               "copy histories: which object a poke addresses (`who`, field name) is resolved by the driver op c16.copy_hist; the "
               "theorem copy_after_any_history covers writes to ANY buffer of the heap; that repeated calls of one copying "
               "routine are independent of each other (no state kept between calls: a shared default memo, a cache on the "
               "instance) is exactly what the check tests against the model, in which copyObj has no such state"]
    ASSUMPTIONS = ["matrices have at least one taxon / variant / trait (h5py cannot store an empty object array)",
                   "group names are non-empty strings without '..' whose components are not field names of the "
                   "classes stored in the same file; hyper-parameter keys are plain names without '/', their "
                   "values are not None; labels hold no NUL character (h5py refuses them)",
                   "floats are binary64 values carried exactly (as rationals)",
                   "overwrite=False is exercised on fresh locations and on locations holding an object of the same "
                   "class (where the call must refuse and leave the file unchanged; TruePhenotyping, which stores nothing, "
                   "is accepted), not across classes",
                   "an HDF5 group made on purpose (require_group) is a marker entry of the model's path -> dataset map; "
                   "groups that create_dataset makes implicitly are not tracked (they never become empty in a history "
                   "of complete to_hdf5 calls)",
                   "data-frame layouts: label arrays that the layout has no way to omit are present (trait names of "
                   "a breeding-value matrix, taxa of coancestry / variance matrices); variance-matrix labels that "
                   "are not sorted come back in sorted label order (the long layout is canonical in label order: "
                   "same labelled data); column names are pairwise distinct; no magnitudes near the ends of the "
                   "binary64 range (standardisation / unit conversion would overflow)",
                   "breeding values through a frame are compared relative to the magnitude of their trait COLUMN "
                   "(from_numpy re-centres and re-scales each column: a value keeps rounding accuracy at the scale "
                   "of its column, not its own)",
                   "labels going through CSV text are label-safe: not number-, NA- or boolean-looking (read_csv "
                   "would retype the column: '007' -> 7.0, 'NA' -> nan); separators, quotes, line breaks and "
                   "padding inside labels ARE exercised",
                   "VCF: the Spec covers phased diploid calls without missing alleles; files with unphased separators "
                   "or missing alleles are outside the quantifier — the code keeps the two allele columns as cyvcf2 "
                   "delivers them (missing = -1) and ignores the phase flag, which is checked as model = code only; a "
                   "chromosome name that is not an integer literal is outside too (the matrix stores integer "
                   "chromosomes; the import is refused with ValueError and the model says so); a record without ID is "
                   "inside, its name is not compared (the code stores 'None'); the ID column is reproduced as ONE string, a "
                   "';'-separated list of identifiers included",
                   "a genetic map is also what it interpolates: copies must reproduce the spline (knots, kind, fill "
                   "value, values at probe points) whether it was built from the map's current arrays or not; a "
                   "frame round trip with the default spline options reproduces the interpolation of a map whose "
                   "spline was auto-built with those options",
                   "observable state = what the public property of each attribute hands out (a private slot that the "
                   "class's own getter overrides, e.g. `_ploidy` of a phased matrix, is not state)",
                   "G_E_Phenotyping.__deepcopy__ hands the random source over on purpose (source comment 'should "
                   "not be copied'): it is treated as an external resource, not as object state"]

    # ------------------------------------------------------------------ generation
    def corpus(self):
        mat = ds("i8", [2, 2, 3], [0, 1, 0, 1, 1, 0, 1, 0, 0, 0, 1, 1])
        rich = {"mat": mat, "taxa": ds("str", [2], ["tå", "βb"]), "taxa_grp": ds("i64", [2], [2, 1]),
                "vrnt_chrgrp": ds("i64", [3], [1, 1, 2]), "vrnt_phypos": ds("i64", [3], [10, 20, 5]),
                "vrnt_name": ds("str", [3], ["m1", "m2", "m3"])}
        poor = {"mat": ds("i8", [2, 2, 3], [1, 1, 0, 0, 1, 0, 0, 1, 1, 1, 0, 0])}
        poor_other_shape = {"mat": ds("i8", [2, 3, 3], [0] * 18)}
        w = lambda cls, g, f, grouped=False, ow=True, ctx=0: {
            "t": "w", "cls": cls, "group": g, "ow": ow, "fields": f, "ctx": ctx, "grouped": grouped, "open": False}
        beta = ds("f64", [1, 2], [1, 2])
        ua = ds("f64", [2, 2], ["1/2", "3/2", 2, -1])
        return [
            # regression D8 (fixed by 93761174): rich then poor object at one location; before the fix the
            # labels and group metadata of the first came back
            {"kind": "h5", "ops": [w("pgmat", "a/b", rich, grouped=True), w("pgmat", "a/b", poor)]},
            # regression D8, shape variant: the stale labels no longer fitted and from_hdf5 raised
            {"kind": "h5", "ops": [w("pgmat", None, rich), w("pgmat", None, poor_other_shape)]},
            # regression D8, nested dictionary variant: keys of an earlier `hyperparams` survived
            {"kind": "h5", "ops": [
                w("algmod", "m", {"beta": beta, "u_a": ua, "trait": ds("str", [2], ["yld", "hté"]),
                                  "hyperparams": {"dict": {"k": ds("i64", [], [5]), "lam": ds("f64", [], ["1/4"])}}}),
                w("algmod", "m", {"beta": beta, "u_a": ua, "trait": ds("str", [2], ["yld", "hté"]),
                                  "hyperparams": {"dict": {"k": ds("i64", [], [6])}}})]},
            # regression D29 (fixed by 9631bba1): a string-valued hyper-parameter was read back as bytes
            {"kind": "h5", "ops": [
                w("algmod", "grüppe/β", {"beta": beta, "u_a": ua, "model_name": ds("str", [], ["mödel"]),
                                         "hyperparams": {"dict": {"method": ds("str", [], ["ML"])}}})]},
            # boundary cases that hold
            {"kind": "h5", "ops": [w("pgmat", "a/b", poor), w("pgmat", "a/b", rich, grouped=True)]},
            {"kind": "h5", "ops": [w("pgmat", "/x//y/", rich), w("pgmat", "x/y", rich, ow=False),
                                   {"t": "r", "cls": "pgmat", "group": "x/./y", "ctx": 0}]},
            {"kind": "h5", "ops": [w("cmat", None, {"mat": ds("f64", [1, 1], ["3/2"])}),
                                   w("cmat", "sub", {"mat": ds("f64", [1, 1], ["5/2"]), "taxa": ds("str", [1], ["日本"])})]},
            # copies: nested dictionary holding an array, grouped matrix, protocol bound to a model
            {"kind": "copy", "cls": "algmod", "ctx": 0, "grouped": False, "how": "copy.deepcopy",
             "fields": {"beta": beta, "u_a": ua, "trait": ds("str", [2], ["yld", "hté"]),
                        "hyperparams": {"dict": {"wts": ds("f64", [2], [1, "1/2"]), "k": ds("i64", [], [3])}}}},
            {"kind": "copy", "cls": "algmod", "ctx": 0, "grouped": False, "how": "copy.copy",
             "fields": {"beta": beta, "u_a": ua,
                        "hyperparams": {"dict": {"wts": ds("f64", [2], [1, "1/2"])}}}},
            {"kind": "copy", "cls": "pgmat", "ctx": 0, "grouped": True, "how": "obj.deepcopy", "fields": rich},
            {"kind": "copy", "cls": "ge", "ctx": 2, "grouped": False, "how": "copy.deepcopy",
             "fields": {"nenv": ds("i64", [], [2]), "nrep": ds("i64", [2], [1, 3]),
                        "var_err": ds("f64", [2], ["1/2", 2])}},
            # VCF: unsorted chromosomes, tie in position, tri-allelic call, non-ASCII names
            {"kind": "vcf", "samples": ["tå", "βb", "s 3"], "group": True, "phased": True, "recs": [
                {"chrom": 2, "pos": 100, "id": "m1", "calls": [[0, 1], [1, 1], [1, 0]]},
                {"chrom": 1, "pos": 300, "id": "mé2", "calls": [[2, 1], [0, 0], [0, 2]]},
                {"chrom": 1, "pos": 200, "id": "m3", "calls": [[1, 1], [0, 1], [0, 0]]},
                {"chrom": 1, "pos": 200, "id": "m4", "calls": [[0, 0], [1, 0], [1, 1]]}]},
            {"kind": "vcf", "samples": ["only"], "group": False, "phased": False, "recs": [
                {"chrom": 3, "pos": 7, "id": "x", "calls": [[1, 0]]}]},
            # dtype width at one location: float32 then float64 (values no float32 holds), int32 then int64 > 2^31
            {"kind": "h5", "ops": [
                w("bvmat", "w", {"mat": ds("f32", [2, 1], ["1/2", "-3/4"]), "location": ds("f32", [1], ["1/4"]),
                                 "scale": ds("f64", [1], [2]), "taxa_grp": ds("i32", [2], [1, 2])}),
                w("bvmat", "w", {"mat": ds("f64", [2, 1], ["1099511627777/1073741824", "-7/3221225472"]),
                                 "location": ds("f64", [1], ["1/1073741824"]), "scale": ds("f64", [1], [2]),
                                 "taxa_grp": ds("i64", [2], [2147483648, 25769803779])})]},
            {"kind": "h5", "ops": [
                w("pgmat", None, {"mat": mat, "vrnt_phypos": ds("i32", [3], [10, 20, 5])}),
                w("pgmat", None, {"mat": mat, "vrnt_phypos": ds("i64", [3], [4294967296, 2147483649, 5])}),
                w("pgmat", None, {"mat": mat, "vrnt_phypos": ds("i32", [3], [7, 8, 9])})]},
            # VCF with allele indices 2 and 3 in phased calls
            {"kind": "vcf", "samples": ["a", "b"], "group": True, "phased": True, "recs": [
                {"chrom": 1, "pos": 5, "id": "t1", "calls": [[2, 3], [3, 0]]},
                {"chrom": 1, "pos": 2, "id": "t2", "calls": [[0, 2], [1, 3]]}]},
            {"kind": "vcf", "samples": ["a", "b"], "group": False, "phased": False, "recs": [
                {"chrom": 1, "pos": 5, "id": "t1", "calls": [[2, 3], [3, 0]]}]},
            # object graphs: aliased attributes (kept by the memo / split where the class copies without memo /
            # split by .deepcopy() of the classes that call __deepcopy__(None)), nested instance
            {"kind": "graph", "cls": "algmod", "ctx": 0, "grouped": False, "alias": "pair", "how": "copy.deepcopy",
             "fields": {"beta": beta, "u_a": ua, "u_misc": ds("f64", [2, 2], [0, 1, 2, 3]),
                        "hyperparams": {"dict": {"wts": ds("f64", [2], [1, "1/2"])}}}},
            {"kind": "graph", "cls": "algmod", "ctx": 0, "grouped": False, "alias": "pair", "how": "obj.deepcopy",
             "fields": {"beta": beta, "u_a": ua, "u_misc": ds("f64", [2, 2], [0, 1, 2, 3])}},
            {"kind": "graph", "cls": "bvmat", "ctx": 0, "grouped": True, "alias": "pair", "how": "copy.deepcopy",
             "fields": {"mat": ds("f64", [2, 1], [1, 2]), "location": ds("f64", [1], [3]), "scale": ds("f64", [1], [2]),
                        "taxa_grp": ds("i64", [2], [2, 1])}},
            {"kind": "graph", "cls": "ge", "ctx": 2, "grouped": False, "alias": "pair", "how": "obj.deepcopy",
             "fields": {"nenv": ds("i64", [], [2]), "nrep": ds("i64", [2], [1, 3]),
                        "var_env": ds("f64", [2], [1, 2]), "var_err": ds("f64", [2], ["1/2", 2])}},
            # VCF: identifiers missing on some records; a chromosome that is not an integer (refused)
            {"kind": "vcf", "samples": ["a", "b"], "group": True, "phased": True, "recs": [
                {"chrom": 2, "pos": 5, "id": None, "calls": [[0, 1], [1, 0]]},
                {"chrom": 1, "pos": 9, "id": "rs1", "calls": [[1, 1], [0, 0]]},
                {"chrom": 1, "pos": 3, "id": None, "calls": [[0, 0], [1, 1]]}]},
            {"kind": "vcf", "samples": ["a"], "group": False, "phased": True, "recs": [
                {"chrom": 1, "pos": 5, "id": "m1", "calls": [[0, 1]]},
                {"chrom": "X", "pos": 9, "id": "m2", "calls": [[1, 1]]}]},
            # genetic maps through CSV with non-default matching units on both sides
            {"kind": "frame", "cls": "sgmap", "ctx": 0, "via": "csv", "opts": {"units": "M"},
             "fields": {"vrnt_chrgrp": ds("i64", [3], [1, 1, 2]), "vrnt_phypos": ds("i64", [3], [10, 50, 5]),
                        "vrnt_genpos": ds("f64", [3], ["1/8", "1/2", "3/64"])}},
            {"kind": "frame", "cls": "sgmap", "ctx": 0, "via": "csv", "opts": {"units": "Morgans"},
             "fields": {"vrnt_chrgrp": ds("i64", [2], [1, 1]), "vrnt_phypos": ds("i64", [2], [10, 50]),
                        "vrnt_genpos": ds("f64", [2], ["1/4", "3/4"])}},
            {"kind": "frame", "cls": "egmap", "ctx": 0, "via": "csv", "opts": {"units": "M", "name": False, "fncode": False},
             "fields": {"vrnt_chrgrp": ds("i64", [2], [1, 1]), "vrnt_phypos": ds("i64", [2], [10, 50]),
                        "vrnt_stop": ds("i64", [2], [12, 50]), "vrnt_genpos": ds("f64", [2], ["1/4", "3/4"])}},
            # data frames: centimorgan default on the way out needs the matching unit on the way in
            {"kind": "frame", "cls": "sgmap", "ctx": 0, "via": "csv", "opts": {"units": "cM"},
             "fields": {"vrnt_chrgrp": ds("i64", [4], [2, 1, 1, 2]), "vrnt_phypos": ds("i64", [4], [10, 50, 20, 5]),
                        "vrnt_genpos": ds("f64", [4], ["7/64", "1/2", "1/4", "1/64"])}},
        ] + self._corpus3() + self._corpus4() + self._corpus_copies() + self._corpus_copyseq() + self._corpus5()

    def _corpus_copies(self):
        """every class x every way of copying, on a fully labelled, grouped object (fixed stream): the random
        part of a run rotates through the same pairs with other contents, options and histories"""
        import random
        rng = random.Random(1604)
        out = []
        for cls in list(CLASSES):
            for how in ("copy.copy", "copy.deepcopy", "obj.copy", "obj.deepcopy"):
                fields, ctx, grouped, shape = gen_obj(rng, cls, rich=1.0)
                var = {"spline": {"mode": "auto", "kind": "linear", "fill": None}} if cls in ("sgmap", "egmap") else {}
                out.append({"kind": "copy", "cls": cls, "fields": fields, "ctx": ctx, "grouped": True, "how": how, "var": var})
        return out

    def _corpus4(self):
        """round 4: every class (and base class) with group metadata: a GROUPED, labelled object and then an
        UNGROUPED bare one of the same shape at one location (each class hands its own dictionary to the
        writer); the same the other way round; the protocols next to them"""
        w = lambda cls, g, f, **kw: dict({"t": "w", "cls": cls, "group": g, "ow": True, "fields": f, "ctx": 0,
                                         "grouped": False, "via": "name"}, **kw)
        n, p, t = 3, 4, 2
        taxa = {"taxa": ds("str", [n], ["c", "a", "b"]), "taxa_grp": ds("i64", [n], [2, 1, 2])}
        vrnt = {"vrnt_chrgrp": ds("i64", [p], [2, 1, 1, 2]), "vrnt_phypos": ds("i64", [p], [7, 9, 3, 1]),
                "vrnt_name": ds("str", [p], ["m1", "m2", "m3", "m4"])}
        trait = {"trait": ds("str", [t], ["yld", "hté"])}
        f64 = lambda sh: ds("f64", sh, [canon.enc(Fraction((7 * i) % 23, 4)) for i in range(int(numpy.prod(sh)))])
        i8 = lambda sh: ds("i8", sh, [(5 * i) % 3 for i in range(int(numpy.prod(sh)))])
        shapes = {
            "pgmat": (i8([2, n, p]), dict(taxa, **vrnt)), "gmat": (i8([n, p]), dict(taxa, **vrnt)),
            "bvmat": (f64([n, t]), dict(taxa, **trait)), "cmat": (f64([n, n]), taxa),
            "vmat": (f64([n, n, t]), dict(taxa, **trait)), "vmat3": (f64([n, n, n, t]), dict(taxa, **trait)),
            "vmat4": (f64([2, 2, 2, 2, t]), {"taxa": ds("str", [2], ["b", "a"]), "taxa_grp": ds("i64", [2], [2, 1]), **trait}),
            "tmat": (f64([n, n]), taxa), "vrmat": (f64([p, t]), vrnt), "tvmat": (f64([n, p]), dict(taxa, **vrnt)),
            "ttmat": (f64([n, t]), dict(taxa, **trait)), "sttmat": (f64([n, n, t]), dict(taxa, **trait)),
            "sq4": (f64([n, n, t, t]), dict(taxa, **trait)),
        }
        out = []
        for i, (cls, (mat, labels)) in enumerate(shapes.items()):
            base = {"mat": mat}
            if cls == "bvmat":
                base.update({"location": ds("f64", [t], [1, 2]), "scale": ds("f64", [t], [2, "1/2"])})
            rich = dict(base, **labels)
            g = ["a/b", None, "grüppe/β", "x//y"][i % 4]
            var = {"pycls": PYCLS[cls][i % len(PYCLS[cls])]} if cls in PYCLS and i % 2 else {}
            ops = [w(cls, g, rich, grouped=True, var=var), w(cls, g, base, var=var), w(cls, g, rich, grouped=True, var=var),
                   w(cls, g, dict(base, taxa=labels.get("taxa")) if "taxa" in labels else base, var=var)]
            out.append({"kind": "h5", "ops": ops[:2] if i % 2 else ops})
        return out

    def _corpus3(self):
        """round 3: labels that are not NFC, memory layouts, interpolation splines, one live object saved
        more than once, sizes past 127 / 1024 / 4096, magnitudes that tolerance shortcuts would eat"""
        w = lambda cls, g, f, **kw: dict({"t": "w", "cls": cls, "group": g, "ow": True, "fields": f, "ctx": 0,
                                         "grouped": False, "via": "name"}, **kw)
        nfc = ["Zoe\u0308", "\u2126", "\u212bng", "Zo\u00eb"]
        bv = {"mat": ds("f64", [4, 2], [1, 2, 3, 5, 8, 13, 21, 34]), "location": ds("f64", [2], [0, 1]),
              "scale": ds("f64", [2], [1, 2]), "taxa": ds("str", [4], nfc), "taxa_grp": ds("i64", [4], [1, 1, 2, 2]),
              "trait": ds("str", [2], ["Nin\u0303o", "\ufb01x"])}
        pg = {"mat": ds("i8", [2, 4, 3], list(range(24))), "taxa": ds("str", [4], nfc),
              "vrnt_name": ds("str", [3], ["snp_Zoe\u0308", "snp_\u2126", " m3 "]),
              "vrnt_chrgrp": ds("i64", [3], [1, 1, 2]), "vrnt_phypos": ds("i64", [3], [5, 9, 2])}
        n, t = 3, 2
        vm = {"mat": ds("f64", [n, n, t], [canon.enc(Fraction(i * 7 % 19, 8)) for i in range(n * n * t)]),
              "taxa": ds("str", [n], ["a", "b", "c"]), "taxa_grp": ds("i64", [n], [1, 2, 2]),
              "trait": ds("str", [t], ["t1", "t2"])}
        vm3 = {"mat": ds("f64", [2, 2, 2, 2], [canon.enc(Fraction(i * 5 % 17, 4)) for i in range(16)]),
               "taxa": ds("str", [2], ["a", "b"]), "trait": ds("str", [2], ["t1", "t2"])}
        gm = {"vrnt_chrgrp": ds("i64", [6], [1, 1, 1, 1, 2, 2]), "vrnt_phypos": ds("i64", [6], [10, 40, 90, 200, 5, 70]),
              "vrnt_genpos": ds("f64", [6], ["1/16", "1/4", "1/2", "9/8", 0, "3/8"])}
        big_n = 130
        big = {"mat": ds("i8", [2, big_n, 3], [((i * 7) % 5) for i in range(2 * big_n * 3)]),
               "taxa": ds("str", [big_n], ["t%03d" % i for i in range(big_n)]),
               "taxa_grp": ds("i64", [big_n], [i % 3 for i in range(big_n)])}
        wide = {"mat": ds("i8", [1, 2, 1030], [(i % 3) for i in range(2060)]),
                "vrnt_phypos": ds("i64", [1030], [3 * i + 1 for i in range(1030)]),
                "vrnt_chrgrp": ds("i64", [1030], [1 + (i * 3) // 1030 for i in range(1030)]),
                "vrnt_name": ds("str", [1030], ["m%d" % i for i in range(1030)])}
        cm_n = 66
        cmbig = {"mat": ds("f64", [cm_n, cm_n], [canon.enc(((i * 31) % 257) / 7.0) for i in range(cm_n * cm_n)]),
                 "taxa": ds("str", [cm_n], ["c%d" % i for i in range(cm_n)])}
        bvbig = {"mat": ds("f64", [1100, 1], [canon.enc(((i * 37) % 1009) / 3.0 - 100) for i in range(1100)]),
                 "location": ds("f64", [1], [canon.enc(1e-9)]), "scale": ds("f64", [1], [canon.enc(1.0 + 2.0 ** -30)])}
        mags = {"mat": ds("f64", [3, 3], [canon.enc(x) for x in [1.2345678901234e-8, 25000.000000123, 1e9 + 0.5, 1e9 - 0.5,
                                                                   1.0000000001e-5, 25000.000000124, 0.1, 1e-300, 1 / 3]]),
                "taxa": ds("str", [3], ["a", "A", " a"])}
        alg = {"beta": ds("f64", [1, 2], [1, 2]), "u_a": ds("f64", [2, 2], ["1/2", "3/2", 2, -1]),
               "trait": ds("str", [2], ["yld", "hte\u0301"]),
               "hyperparams": {"dict": {"k": ds("i64", [], [5]), "m": ds("str", [], ["Zoe\u0308"])}}}
        recs_many = [{"chrom": 1 + (j * 3) // 300, "pos": 1000 - 3 * j if j % 2 else 3 * j + 1, "id": "r%d" % j,
                      "calls": [[j % 2, (j // 2) % 3], [(j // 3) % 2, 1]]} for j in range(300)]
        many_samples = ["s%03d" % i for i in range(131)]
        return [
            # labels that are not in NFC / NFKC form, padded, case pairs: every class of label array, nested non-ASCII group
            {"kind": "h5", "ops": [w("bvmat", "población/ciclo 1/bv", bv), w("pgmat", "población/ciclo 1/gm/", pg),
                                   w("algmod", "Zoe\u0308", alg), w("algmod", "Zoe\u0308", dict(alg, trait=None))]},
            # memory layouts: transposed view / Fortran order / strides through the long and wide layouts and HDF5
            {"kind": "frame", "cls": "vmat", "fields": vm, "ctx": 0, "via": "pandas", "opts": {"grp": True, "sorted": True},
             "var": {"layout": "roll"}},
            {"kind": "frame", "cls": "vmat", "fields": dict(vm, taxa_grp=None), "ctx": 0, "via": "csv", "opts": {"grp": False, "sorted": True},
             "var": {"layout": "F"}},
            {"kind": "frame", "cls": "vmat3", "fields": vm3, "ctx": 0, "via": "pandas", "opts": {"grp": False, "sorted": True},
             "var": {"layout": "roll", "pycls": PYCLS["vmat3"][0]}},
            {"kind": "frame", "cls": "bvmat", "fields": bv, "ctx": 0, "via": "csv",
             "opts": {"taxa_col": "taxa", "taxa_grp_col": "taxa_grp", "sep": ";", "twice": True}, "var": {"layout": "strided"}},
            {"kind": "h5", "ops": [w("vmat", "v", vm, var={"layout": "roll"}), w("pgmat", "g", pg, var={"layout": "neg"}),
                                   w("vmat3", "v3", vm3, var={"layout": "F"})]},
            {"kind": "copy", "cls": "vmat", "fields": vm, "ctx": 0, "grouped": True, "how": "copy.deepcopy",
             "var": {"layout": "roll"}},
            # genetic maps: what is interpolated is part of the map — user-supplied spline, spline made stale by pruning,
            # non-default kind / fill value, no spline at all
            {"kind": "copy", "cls": "sgmap", "fields": gm, "ctx": 0, "grouped": False, "how": "copy.deepcopy",
             "var": {"spline": {"mode": "user", "kind": "cubic", "fill": None, "warp": "3/2"}}},
            {"kind": "copy", "cls": "sgmap", "fields": gm, "ctx": 0, "grouped": False, "how": "obj.deepcopy",
             "var": {"spline": {"mode": "auto", "kind": "linear", "fill": None},
                     "prep": [{"t": "call", "k": "remove", "a": [[1]]}]}},
            {"kind": "copy", "cls": "sgmap", "fields": gm, "ctx": 0, "grouped": False, "how": "copy.copy",
             "var": {"spline": {"mode": "auto", "kind": "previous", "fill": "-1/4"},
                     "prep": [{"t": "call", "k": "select", "a": [[0, 2, 3, 4, 5]]}]}},
            {"kind": "copy", "cls": "egmap", "fields": dict(gm, vrnt_stop=ds("i64", [6], [11, 40, 95, 200, 5, 71])),
             "ctx": 0, "grouped": False, "how": "copy.deepcopy",
             "var": {"spline": {"mode": "user", "kind": "quadratic", "fill": "nan", "warp": "1/2"}}},
            {"kind": "copy", "cls": "sgmap", "fields": gm, "ctx": 0, "grouped": False, "how": "copy.deepcopy",
             "var": {"spline": {"mode": "none"}}},
            {"kind": "copy", "cls": "bvmat", "fields": bv, "ctx": 0, "grouped": True, "how": "copy.copy"},
            {"kind": "copy", "cls": "bvmat", "fields": bv, "ctx": 0, "grouped": False, "how": "obj.copy",
             "var": {"pycls": PYCLS["bvmat"][0], "layout": "F"}},
            {"kind": "frame", "cls": "vmat", "fields": vm, "ctx": 0, "via": "pandas",
             "opts": {"grp": True, "sorted": True, "twice": True}, "var": {}},
            # regression D30 (repaired: TruePhenotyping.to_hdf5 creates the named group): the protocol has nothing to
            # store, so before the repair a named group was never created and from_hdf5 refused it (LookupError);
            # fresh nested group, odd spellings, overwrite=False on a fresh and on an occupied group, twice to one
            # group, next to / below / above other objects, through an open file and a Path
            {"kind": "h5", "ops": [w("tp", "prot/true", {}, ctx=2)]},
            {"kind": "h5", "ops": [w("tp", None, {}, ctx=2), w("bvmat", "a/b", bv), w("tp", "a", {}, ctx=1)]},
            {"kind": "h5", "ops": [w("tp", "/x//y/", {}, ctx=1, via="open"), {"t": "r", "cls": "tp", "group": "x/./y", "ctx": 1},
                                   w("tp", "x/y", {}, ctx=3, ow=False, via="path"), w("tp", "x/y/z", {}, ctx=2, ow=False),
                                   w("bvmat", "x", bv), w("tp", "grüppe/β", {}, ctx=1), w("tp", "x/y", {}, ctx=2)]},
            {"kind": "h5", "ops": [w("bvmat", "p/q", bv), w("tp", "p/q", {}, ctx=2), w("bvmat", "p/q", dict(bv, taxa=None)),
                                   {"t": "r", "cls": "tp", "group": "p/q/", "ctx": 2}]},
            # ONE live object: saved, changed in place (buffer overwritten, labels dropped), saved again
            {"kind": "h5", "ops": [
                w("bvmat", "x", bv, id=0),
                dict(w("bvmat", "x", bv, id=1), reuse=0, edit=[{"t": "bump", "k": "mat"}, {"t": "set", "k": "taxa", "v": None}]),
                {"t": "r", "cls": "bvmat", "group": "x", "ctx": 0, "via": "open", "rid": 0},
                dict(w("bvmat", "y/", bv, id=2), reuse=0, edit=[{"t": "call", "k": "tmean"}, {"t": "bump", "k": "location"}]),
                dict(w("bvmat", "x", bv, id=3), from_read=0, edit=[{"t": "bump", "k": "mat"}])]},
            {"kind": "h5", "ops": [
                w("algmod", None, alg, id=0),
                dict(w("algmod", None, alg, id=1), reuse=0, edit=[{"t": "set", "k": "hyperparams", "v": None},
                                                                   {"t": "bump", "k": "u_a"}])]},
            # sizes: > 127 taxa, > 1024 variants, > 4096 cells
            {"kind": "h5", "ops": [w("pgmat", "big", big), w("pgmat", "wide", wide, grouped=True), w("cmat", "c", cmbig),
                                   w("bvmat", "b", bvbig)]},
            {"kind": "copy", "cls": "pgmat", "fields": big, "ctx": 0, "grouped": True, "how": "copy.deepcopy"},
            {"kind": "frame", "cls": "cmat", "fields": cmbig, "ctx": 0, "via": "csv",
             "opts": {"taxa_col": "taxa", "taxa_grp_col": None}},
            # magnitudes: 1e-8, 1e-5, 25000 + 1e-7, 1e9 +- 0.5, ties broken in the 12th digit; labels differing in case / padding
            {"kind": "h5", "ops": [w("cmat", "m", mags)]},
            {"kind": "frame", "cls": "cmat", "fields": dict(mags, mat=ds("f64", [3, 3], mags["mat"]["v"][:7] + [canon.enc(2e-8), canon.enc(1 / 3)])),
             "ctx": 0, "via": "csv", "opts": {"taxa_col": "taxa", "taxa_grp_col": None}},
            # VCF: identifier lists (';'), separators of other formats, case pairs, number- / NA-looking identifiers
            # and sample names, duplicated identifiers, coordinates at the end of the 32-bit range — both importers
            {"kind": "vcf", "samples": ["007", "NA", " lead", "Zoe\u0308"], "group": True, "phased": False, "recs": [
                {"chrom": 2, "pos": 2 ** 31 - 1, "id": "rs12;ss9001", "calls": [[0, 1], [1, 1], [1, 0], [0, 0]]},
                {"chrom": 2 ** 31 + 5, "pos": 7, "id": "AX-100", "calls": [[1, 1], [0, 0], [0, 1], [1, 0]]},
                {"chrom": 1, "pos": 400, "id": "m2_400;alt_name;x", "calls": [[1, 0], [0, 1], [0, 0], [1, 1]]},
                {"chrom": 1, "pos": 400, "id": "Rs12", "calls": [[0, 0], [1, 0], [1, 1], [0, 1]]},
                {"chrom": 1, "pos": 3, "id": "rs12", "calls": [[0, 1], [0, 1], [1, 0], [1, 1]]},
                {"chrom": 1, "pos": 2, "id": "rs12", "calls": [[1, 1], [0, 1], [0, 0], [1, 0]]}]},
            {"kind": "vcf", "samples": ["q\"uote", "com,ma", "semi;colon"], "group": False, "phased": True, "recs": [
                {"chrom": 1, "pos": 5, "id": "a;b;c", "calls": [[0, 1], [1, 1], [1, 0]]},
                {"chrom": 1, "pos": 6, "id": "007", "calls": [[1, 1], [0, 0], [0, 1]]},
                {"chrom": 1, "pos": 7, "id": "None", "calls": [[1, 0], [0, 1], [0, 0]]},
                {"chrom": 1, "pos": 8, "id": None, "calls": [[0, 0], [1, 0], [1, 1]]},
                {"chrom": 1, "pos": 9, "id": "x,y", "calls": [[0, 1], [0, 1], [1, 0]]},
                {"chrom": 1, "pos": 10, "id": "chr1:12345_A/T", "calls": [[1, 1], [0, 1], [0, 0]]}]},
            # VCF: many records (> 255), many samples (> 127)
            {"kind": "vcf", "samples": ["a", "b"], "group": True, "phased": True, "recs": recs_many},
            {"kind": "vcf", "samples": many_samples, "group": False, "phased": False, "recs": [
                {"chrom": 2, "pos": 7, "id": "x1", "calls": [[i % 2, (i // 2) % 2] for i in range(131)]},
                {"chrom": 1, "pos": 9, "id": "x2", "calls": [[(i // 3) % 3, i % 3] for i in range(131)]}]},
        ]

    def _safe_edits(self, rng, cls, fields):
        """in-place steps that keep any object of the class valid whatever happened to it before:
        buffers overwritten, labels re-assigned, read-only statistics"""
        has = lambda k: fields.get(k) is not None
        opts = [("bump", k) for k in CLASSES[cls]["ctor"]
                if has(k) and fields[k].get("sh") and k not in ("scale", "nrep", "var_env", "var_rep", "var_err",
                                                                  "taxa", "trait", "vrnt_name")]
        if cls in TAXA_CLASSES:
            opts += [("relabel", "taxa")]
        if cls in ("pgmat", "gmat"):
            opts += [("call", "afreq"), ("call", "maf")]
        if cls == "bvmat":
            opts += [("call", "tmean"), ("call", "unscale")]
        if cls in ("algmod", "adlgmod"):
            opts += [("hp", "hyperparams")]
        steps = []
        for _ in range(rng.randint(1, 2)):
            if not opts:
                break
            t, k = rng.choice(opts)
            if t == "bump":
                steps.append({"t": "bump", "k": k})
            elif t == "call":
                steps.append({"t": "call", "k": k})
            elif t == "relabel":
                n = fields["mat"]["sh"][1 if cls == "pgmat" else 0]
                steps.append({"t": "set", "k": k, "v": rng.choice([None, ds("str", [n], _labels(rng, NAMES, n, True))])})
            elif t == "hp":
                steps.append({"t": "set", "k": k, "v": rng.choice([None, {"dict": {"z": ds("f64", [3], [1, 2, "1/2"]),
                                                                                  "s": ds("str", [], ["Zoe\u0308"])}}])})
        return steps

    def _gen_h5(self, rng):
        nloc = rng.choice([1, 1, 2, 3])
        # pairwise non-interfering locations: distinct after normalisation (nesting is allowed, group
        # components never collide with field names)
        locs = []
        for g in _perm(rng, GROUPS):
            if norm_group(g) not in [norm_group(x) for x in locs]:
                locs.append(g)
            if len(locs) == nloc:
                break
        ops = []
        state = {}          # location -> (cls, shape)
        richness = {}       # location -> richness of the last object (half of the rewrites do not get poorer)
        mixed = rng.random() < 0.33
        nw = rng.randint(1, 6)
        wid = 0
        content = {}        # location -> (cls, ctx, fields) of the object it holds
        written = []        # (id, cls, fields, ctx) of the writes so far
        readable = []       # (rid, cls, ctx, fields) of the reads so far
        for _ in range(nw):
            g = rng.choice(locs)
            key = norm_group(g)
            r = rng.random()
            base = {"t": "w", "group": g, "via": rng.choice(["name", "open", "open", "path"]), "id": wid}
            if written and r < 0.22:
                # the SAME live object again: changed in place since it was saved last, then saved to the
                # same or to another location
                j, cls, fields, ctx = rng.choice(written)
                op = dict(base, cls=cls, reuse=j, edit=self._safe_edits(rng, cls, fields), ow=True, ctx=ctx,
                          fields=fields, grouped=False)
                shape = None
            elif readable and r < 0.34:
                # an object that was read back from the file is changed and saved again
                j, cls, ctx, fields = rng.choice(readable)
                op = dict(base, cls=cls, from_read=j, edit=self._safe_edits(rng, cls, fields), ow=True, ctx=ctx,
                          fields=fields, grouped=False)
                shape = None
            else:
                if key in state and rng.random() < 0.85:
                    cls, shape = state[key]
                    if shape is None or rng.random() < (0.1 if mixed else 0.25):
                        shape = None
                else:
                    cls, shape = rng.choice(H5_CLASSES), None
                rich = rng.choice([0.0, 0.3, 0.7, 1.0])
                if key in richness and rng.random() < 0.5:
                    rich = 1.0 if richness[key] > 0 else 0.0
                richness[key] = rich
                # a third of the histories mix dtype widths at one location: float32/int32 objects and
                # float64/int64 objects whose values do not fit the narrow types, same shape
                width = rng.choice(["narrow", "wide", "wide"]) if mixed else None
                hard = (not mixed) and rng.random() < 0.5
                fields, ctx, grouped, shape = gen_obj(rng, cls, shape, rich=rich, width=width, hard=hard,
                                                      nonfinite=hard and rng.random() < 0.3, meta=True)
                ow = rng.random() < 0.88
                if key in state and state[key][0] != cls:
                    ow = True      # overwrite=False is only exercised where it must refuse (same class) or on fresh locations
                op = dict(base, cls=cls, ow=ow, fields=fields, ctx=ctx, grouped=grouped,
                          var=self._gen_var(rng, cls, fields, shape, history=rng.random() < 0.5))
                if op["var"].get("prep"):
                    shape = None    # pruning / re-labelling may have changed it
            ops.append(op)
            written.append((wid, op["cls"], op["fields"], op["ctx"]))
            wid += 1
            if op["ow"] or key not in state or op["cls"] == "tp":      # (the parameter-free protocol is never refused)
                state[key] = (op["cls"], shape)
                content[key] = (op["cls"], op["ctx"], op["fields"])     # what the location holds from now on
            if rng.random() < 0.3:
                c, cctx, cfields = content[key]
                rop = {"t": "r", "cls": c, "group": g, "ctx": cctx if c in ("ge", "tp") else 0,
                       "via": rng.choice(["name", "open", "path"]), "rid": len(readable)}
                ops.append(rop)
                readable.append((rop["rid"], c, cctx, cfields))
        return {"kind": "h5", "ops": ops}

    def generate(self, rng, n, tier):
        out = []
        # copies and frames are stratified: classes x ways of copying / exporting are visited in turn
        # (random start), so that a quick run meets every pair
        kc, kf, ks = rng.randrange(1000), rng.randrange(1000), rng.randrange(1000)
        for _ in range(n):
            r = rng.random()
            if r < 0.34:
                out.append(self._gen_h5(rng))
            elif r < 0.46:
                out.append(self._gen_copy(rng, kc))
                kc += 1
            elif r < 0.52:
                out.append(self._gen_copyseq(rng, ks))
                ks += 1
            elif r < 0.58:
                out.append(self._gen_graph(rng))
            elif r < 0.84:
                out.append(self._gen_frame(rng, kf))
                kf += 1
            else:
                out.append(self._gen_vcf(rng))
        return out

    # ------------------------------------------------------------------ data frames / CSV
    VM_COLS = {"vmat": ["female", "male"], "vmat3": ["recurrent", "female", "male"],
               "vmat4": ["female2", "male2", "female1", "male1"]}

    FRAME_ORDER = ["bvmat", "cmat", "vmat", "vmat3", "sgmap", "vmat4", "egmap", "algmod", "bvmat", "adlgmod", "vmat", "sgmap"]

    def _gen_frame(self, rng, k=None):
        if k is None:
            k = rng.randrange(10 ** 6)
        cls = self.FRAME_ORDER[k % len(self.FRAME_ORDER)]
        rnd = k // len(self.FRAME_ORDER)
        via = ["pandas", "csv"][rnd % 2]
        hard = rng.random() < 0.5
        fields, ctx, grouped, shape = gen_obj(rng, cls, rich=1.0, hard=hard, csv=(via == "csv"), extreme=False)
        opts = {}
        ren = rng.random() < 0.4            # non-default column names, the same on both sides
        nm = (lambda d, alt: rng.choice(alt) if ren else d)
        if cls == "bvmat":
            # a label array that is absent has no column: the matching option is `..._col = None`
            if rng.random() < 0.3:
                fields.pop("taxa", None)
            if rng.random() < 0.3:
                fields.pop("taxa_grp", None)
            opts = {"taxa_col": nm("taxa", ["taxa", "Taxon näme", "id"]) if "taxa" in fields else None,
                    "taxa_grp_col": rng.choice(["taxa_grp", "grp ü"]) if "taxa_grp" in fields else None}
        elif cls == "cmat":
            if rng.random() < 0.4:
                fields.pop("taxa_grp", None)
            opts = {"taxa_col": rng.choice(["taxa", "näme"]),
                    "taxa_grp_col": rng.choice(["taxa_grp", None]) if "taxa_grp" not in fields else nm("taxa_grp", ["g", "taxa_grp"])}
            if rng.random() < 0.25:
                holes = rng.choice(["scatter", "taxon", "all"])
                fields["mat"] = self._with_holes(rng, fields["mat"], holes)
                opts["holes"] = holes
        elif cls in self.VM_COLS:
            # the long layout is canonical in label order: taxa and traits sorted (numpy.unique)
            n, t = shape
            srt = rng.random() < 0.65
            if srt:
                fields["taxa"] = ds("str", [n], sorted(fields["taxa"]["v"]))
                fields["trait"] = ds("str", [t], sorted(fields["trait"]["v"]))
            if rng.random() < 0.4:
                fields.pop("taxa_grp", None)
            # unsorted labels: the read-back must be the same labelled data in sorted label order
            opts = {"grp": "taxa_grp" in fields, "sorted": srt}
            # crosses without an estimate: NaN cells — scattered, a parent with no estimate at all (its whole row
            # and column on every axis), a trait that is NaN everywhere, everything
            if rng.random() < 0.45:
                holes = rng.choice(["scatter", "scatter", "taxon", "taxon", "trait", "taxon+trait", "all"])
                fields["mat"] = self._with_holes(rng, fields["mat"], holes)
                opts["holes"] = holes
            if ren:
                opts["cols"] = {c + "_col": rng.choice([c, c.upper(), "p_" + c]) for c in self.VM_COLS[cls]}
                opts["cols"].update({"trait_col": rng.choice(["trait", "Trait ü"]), "variance_col": rng.choice(["variance", "σ²"])})
                if opts["grp"]:
                    opts["cols"].update({c + "_grp_col": "G" + c for c in self.VM_COLS[cls]})
        elif cls in ("sgmap", "egmap"):
            opts = {"units": rng.choice(["M", "cM", "Morgans", "centiMorgans"])}
            if cls == "egmap":
                opts["name"] = "vrnt_name" in fields
                opts["fncode"] = "vrnt_fncode" in fields
            if ren:
                opts["cols"] = {"vrnt_chrgrp_col": rng.choice(["chr", "chrom", "LG"]), "vrnt_phypos_col": rng.choice(["pos", "bp"]),
                                "vrnt_genpos_col": rng.choice(["cM", "gen pos", "M"])}
                if cls == "egmap":
                    opts["cols"]["vrnt_stop_col"] = rng.choice(["stop", "end"])
        else:
            fields.pop("model_name", None)
            fields.pop("hyperparams", None)
            if "u_misc" not in fields:
                q, pm, pa, t = shape
                fields["u_misc"] = ds("f64", [0, t], [])
        if via == "csv" and rng.random() < 0.35:
            opts["sep"] = rng.choice([";", "\t", "|"])
        # export once, change the object in place, export again: the second export is what counts
        if (rnd // 2) % 3 == 1:
            opts["twice"] = True
        if cls not in ("algmod", "adlgmod") and rng.random() < float(os.environ.get("C16_BYPOS", "0.25")):
            opts["bypos"] = True
        var = self._gen_var(rng, cls, fields, shape, history=False)
        var.pop("spline", None)
        return {"kind": "frame", "cls": cls, "fields": fields, "ctx": ctx, "via": via, "opts": opts, "var": var}

    @staticmethod
    def _with_holes(rng, mat, holes, i0=None, j0=None):
        """the encoded float array (taxa axes first, traits last when there are >= 3 axes) with NaN cells"""
        sh = mat["sh"]
        kt = len(sh) - 1 if len(sh) >= 3 else len(sh)          # number of taxa axes
        n, t = sh[0], (sh[-1] if len(sh) >= 3 else 1)
        i0 = rng.randrange(n) if i0 is None else i0
        j0 = rng.randrange(t) if j0 is None else j0
        v = list(mat["v"])
        for flat in range(len(v)):
            idx, r = [], flat
            for d in reversed(sh):
                idx.append(r % d)
                r //= d
            idx.reverse()
            taxa_ix, tr = idx[:kt], (idx[-1] if len(sh) >= 3 else 0)
            hit = (holes == "all" or (holes == "scatter" and rng.random() < 0.3)
                   or ("taxon" in holes and i0 in taxa_ix) or ("trait" in holes and tr == j0))
            if hit:
                v[flat] = F_NAN
        return ds(mat["dt"], sh, v)

    def _corpus5(self):
        """round 5: variance / coancestry matrices with missing (NaN) estimates through the data-frame layouts — a
        parent without any estimate, a trait without any estimate, scattered holes"""
        n, t = 4, 2
        vm = {"mat": ds("f64", [n, n, t], [canon.enc(Fraction(1 + i * 7 % 19, 8)) for i in range(n * n * t)]),
              "taxa": ds("str", [n], ["P1-Ähre", "P2-Bøg", "P3-Çay", "P4-Dün"]), "taxa_grp": ds("i64", [n], [1, 1, 2, 2]),
              "trait": ds("str", [t], ["protein", "yield"])}
        vm3 = {"mat": ds("f64", [2, 2, 2, 2], [canon.enc(Fraction(1 + i * 5 % 17, 4)) for i in range(16)]),
               "taxa": ds("str", [2], ["a", "b"]), "trait": ds("str", [2], ["t1", "t2"])}
        cm = {"mat": ds("f64", [3, 3], [canon.enc(Fraction(1 + i * 5 % 17, 4)) for i in range(9)]),
              "taxa": ds("str", [3], ["a", "b", "c"])}
        out = []
        for via in ("pandas", "csv"):
            for holes in ("taxon", "trait", "scatter", "all"):
                f = dict(vm, mat=self._with_holes(random.Random(5), vm["mat"], holes, i0=2, j0=0))
                out.append({"kind": "frame", "cls": "vmat", "fields": f, "ctx": 0, "via": via,
                            "opts": {"grp": True, "sorted": True, "holes": holes}, "var": {}})
            f3 = dict(vm3, mat=self._with_holes(random.Random(5), vm3["mat"], "taxon", i0=1))
            out.append({"kind": "frame", "cls": "vmat3", "fields": f3, "ctx": 0, "via": via,
                        "opts": {"grp": False, "sorted": True, "holes": "taxon"}, "var": {}})
            vm4 = {"mat": ds("f64", [2, 2, 2, 2, 2], [canon.enc(Fraction(1 + i * 5 % 23, 4)) for i in range(32)]),
                   "taxa": ds("str", [2], ["a", "b"]), "taxa_grp": ds("i64", [2], [1, 2]), "trait": ds("str", [2], ["t1", "t2"])}
            for holes in ("trait", "scatter"):
                f4 = dict(vm4, mat=self._with_holes(random.Random(7), vm4["mat"], holes, j0=1))
                out.append({"kind": "frame", "cls": "vmat4", "fields": f4, "ctx": 0, "via": via,
                            "opts": {"grp": True, "sorted": True, "holes": holes}, "var": {}})
            fc = dict(cm, mat=self._with_holes(random.Random(5), cm["mat"], "taxon", i0=1))
            out.append({"kind": "frame", "cls": "cmat", "fields": fc, "ctx": 0, "via": via,
                        "opts": {"taxa_col": "taxa", "taxa_grp_col": None, "holes": "taxon"}, "var": {}})
        return out

    TWICE_FIELD = {"bvmat": "mat", "cmat": "mat", "vmat": "mat", "vmat3": "mat", "vmat4": "mat", "algmod": "u_a",
                   "adlgmod": "u_d", "sgmap": None, "egmap": None}

    def _impl_frame(self, case):
        M = _mods()
        cls, via, opts = case["cls"], case["via"], case["opts"]
        o = build(cls, case["fields"], case.get("ctx", 0), False, case.get("var"))
        os.makedirs(TMP_ROOT, exist_ok=True)
        d = tempfile.mkdtemp(prefix="fr_", dir=TMP_ROOT)
        fn = os.path.join(d, "t.csv")
        sepw = {"sep": opts["sep"]} if opts.get("sep") else {}
        try:
            C = type(o)
            if cls == "bvmat":
                kw = {"taxa_col": opts["taxa_col"], "taxa_grp_col": opts["taxa_grp_col"]}
                exp = (lambda: o.to_pandas(unscale=True, **kw)) if via == "pandas" else \
                    (lambda: o.to_csv(fn, unscale=True, **kw, **sepw))
                imp = (lambda df: C.from_pandas(df, **kw)) if via == "pandas" else (lambda _: C.from_csv(fn, **kw, **sepw))
            elif cls == "cmat":
                kw = {"taxa_col": opts["taxa_col"], "taxa_grp_col": opts["taxa_grp_col"]}
                exp = (lambda: o.to_pandas(**kw)) if via == "pandas" else (lambda: o.to_csv(fn, **kw, **sepw))
                imp = (lambda df: C.from_pandas(df, **kw)) if via == "pandas" else (lambda _: C.from_csv(fn, **kw, **sepw))
            elif cls in self.VM_COLS:
                kw = dict(opts.get("cols") or {})
                if not opts["grp"]:
                    kw.update({c + "_grp_col": None for c in self.VM_COLS[cls]})
                exp = (lambda: o.to_pandas(**kw)) if via == "pandas" else (lambda: o.to_csv(fn, **kw, **sepw))
                imp = (lambda df: C.from_pandas(df, **kw)) if via == "pandas" else (lambda _: C.from_csv(fn, **kw, **sepw))
            elif cls in ("sgmap", "egmap"):
                kw = dict({"vrnt_genpos_units": opts["units"]}, **(opts.get("cols") or {}))
                kr = dict(kw)
                if cls == "egmap":
                    kr["vrnt_name_col"] = "name" if opts["name"] else None
                    kr["vrnt_fncode_col"] = "fncode" if opts["fncode"] else None
                exp = (lambda: o.to_pandas(**kw)) if via == "pandas" else (lambda: o.to_csv(fn, **kw, **sepw))
                imp = (lambda df: C.from_pandas(df, **kr)) if via == "pandas" else (lambda _: C.from_csv(fn, **kr, **sepw))
            else:
                names = {k: os.path.join(d, k + ".csv") for k in (["beta", "u_misc", "u_a"] +
                                                                    (["u_d"] if cls == "adlgmod" else []))}
                exp = (lambda: o.to_pandas_dict()) if via == "pandas" else (lambda: o.to_csv_dict(names, **sepw))
                imp = (lambda df: C.from_pandas_dict(df)) if via == "pandas" else (lambda _: C.from_csv_dict(names, **sepw))
            if opts.get("bypos") and cls not in ("algmod", "adlgmod"):
                # the reading side names every column by its POSITION (an argument form the signatures allow):
                # the positions of the very columns that were written
                import inspect
                rk = dict(kr if cls in ("sgmap", "egmap") else kw)
                reader = C.from_pandas if via == "pandas" else C.from_csv

                def imp(df, rk=rk, reader=reader):
                    cols = list(df.columns) if via == "pandas" else list(M["pandas"].read_csv(fn, nrows=0, **sepw).columns)
                    eff = dict(rk)
                    for nme, prm in inspect.signature(reader).parameters.items():
                        if nme.endswith("_col"):
                            v = rk.get(nme, prm.default)
                            if isinstance(v, str) and v in cols:
                                eff[nme] = cols.index(v)
                    return reader(df, **eff) if via == "pandas" else reader(fn, **eff, **sepw)
            if opts.get("twice"):
                exp()
                k = self.TWICE_FIELD.get(cls)
                if k is not None and isinstance(getattr(o, k), numpy.ndarray) and getattr(o, k).size:
                    a = getattr(o, k)
                    a[...] = a * 2 + 1            # in place; exact on the generated values' grid or rounded once
            before = fields_of(cls, o)
            usrc = enc_ds(o.unscale()) if cls == "bvmat" else None
            r = imp(exp())
            extra = {"unscaled_src": usrc, "unscaled_got": enc_ds(r.unscale())} if cls == "bvmat" else {}
            if cls in ("sgmap", "egmap"):
                # a map is also what it interpolates: same (default) spline options on both sides
                extra["probe_src"] = self._probe_map(o)
                extra["probe_got"] = self._probe_map(r)
            return dict({"before": before, "got": fields_of(cls, r), "src_after": fields_of(cls, o),
                         "same_type": type(r) is type(o)}, **extra)
        finally:
            shutil.rmtree(d, ignore_errors=True)

    @staticmethod
    def _probe_map(g):
        chr_ = numpy.asarray(g.vrnt_chrgrp)
        pos = numpy.asarray(g.vrnt_phypos)
        qc, qp = [], []
        for c in numpy.unique(chr_):
            ps = numpy.sort(pos[chr_ == c])
            for x in list(ps) + [(int(a) + int(b)) // 2 for a, b in zip(ps, ps[1:])] + [int(ps[-1]) + 7]:
                qc.append(int(c))
                qp.append(int(x))
        qc.append(int(chr_.max()) + 5)        # a chromosome the map does not have
        qp.append(1)
        import warnings
        with warnings.catch_warnings():
            warnings.simplefilter("ignore")
            v = g.interp_genpos(numpy.array(qc), numpy.array(qp))
        return [fenc(x) for x in v]

    # which fields a layout carries (everything else is not part of the format)
    FRAME_FIELDS = {
        "bvmat": ["taxa", "taxa_grp", "trait"], "cmat": ["mat", "taxa", "taxa_grp"],
        "vmat": ["mat", "taxa", "taxa_grp", "trait"], "vmat3": ["mat", "taxa", "taxa_grp", "trait"],
        "vmat4": ["mat", "taxa", "taxa_grp", "trait"],
        "sgmap": ["vrnt_chrgrp", "vrnt_phypos", "vrnt_genpos"] + GMAP_META,
        "egmap": ["vrnt_chrgrp", "vrnt_phypos", "vrnt_stop", "vrnt_genpos", "vrnt_name", "vrnt_fncode"] + GMAP_META,
        "algmod": ["beta", "u_misc", "u_a", "trait"], "adlgmod": ["beta", "u_misc", "u_a", "u_d", "trait"],
    }

    @staticmethod
    def _vmat_sorted(b, like=None):
        """the same labelled variance matrix with taxa and traits in increasing label order (any number of taxa
        axes, traits last) — or, given `like`, in the label order of that read-back when its labels are the same
        sets: with unsorted labels the long layout cannot promise an order, only the same labelled data"""
        sh = b["mat"]["sh"]
        n, t, k = sh[0], sh[-1], len(sh) - 1
        po = sorted(range(n), key=lambda i: b["taxa"]["v"][i])
        to = sorted(range(t), key=lambda j: b["trait"]["v"][j])
        try:
            lt, lr = like["taxa"]["v"], like["trait"]["v"]
            if sorted(lt) == sorted(b["taxa"]["v"]) and sorted(lr) == sorted(b["trait"]["v"]) \
                    and len(set(lt)) == n and len(set(lr)) == t:
                po = [b["taxa"]["v"].index(x) for x in lt]
                to = [b["trait"]["v"].index(x) for x in lr]
        except (TypeError, KeyError, AttributeError):
            pass
        a = numpy.array(b["mat"]["v"], dtype=object).reshape(sh)
        for ax in range(k):
            a = numpy.take(a, po, axis=ax)
        a = numpy.take(a, to, axis=k)
        out = dict(b)
        out["mat"] = ds(b["mat"]["dt"], sh, list(a.reshape(-1)))
        out["taxa"] = ds("str", [n], [b["taxa"]["v"][i] for i in po])
        out["trait"] = ds("str", [t], [b["trait"]["v"][j] for j in to])
        if b.get("taxa_grp"):
            out["taxa_grp"] = ds(b["taxa_grp"]["dt"], [n], [b["taxa_grp"]["v"][i] for i in po])
        return out

    def _req_frame(self, case, obs):
        cls, b = case["cls"], obs["before"]
        if cls == "bvmat":
            n, t = b["mat"]["sh"]
            return [{"op": "c16.frame_bv", "mat": self._nest(b["mat"]["v"], [n, t]), "location": b["location"]["v"],
                     "scale": b["scale"]["v"], "taxa": b["taxa"]["v"] if b["taxa"] else None,
                     "taxa_grp": b["taxa_grp"]["v"] if b["taxa_grp"] else None,
                     "trait": b["trait"]["v"] if b["trait"] else None,
                     "taxa_col": case["opts"]["taxa_col"], "taxa_grp_col": case["opts"]["taxa_grp_col"]}]
        if cls == "sgmap":
            return [{"op": "c16.frame_gmap", "chrgrp": b["vrnt_chrgrp"]["v"], "phypos": b["vrnt_phypos"]["v"],
                     "genpos": b["vrnt_genpos"]["v"], "units_out": case["opts"]["units"],
                     "units_in": case["opts"]["units"]}]
        lst = lambda k: b[k]["v"] if b.get(k) else None
        if cls == "cmat":
            n = b["mat"]["sh"][0]
            return [{"op": "c16.frame_cmat", "mat": self._nest(b["mat"]["v"], [n, n]), "taxa": lst("taxa"),
                     "taxa_grp": lst("taxa_grp"), "taxa_col": case["opts"]["taxa_col"],
                     "taxa_grp_col": case["opts"]["taxa_grp_col"]}]
        if cls == "egmap":
            return [{"op": "c16.frame_egmap", "chrgrp": lst("vrnt_chrgrp"), "phypos": lst("vrnt_phypos"),
                     "stop": lst("vrnt_stop"), "genpos": lst("vrnt_genpos"), "name": lst("vrnt_name"),
                     "fncode": lst("vrnt_fncode"), "units": case["opts"]["units"],
                     "read_name": case["opts"]["name"], "read_fncode": case["opts"]["fncode"]}]
        if cls in ("algmod", "adlgmod"):
            keys = ["beta", "u_misc", "u_a"] + (["u_d"] if cls == "adlgmod" else [])
            t = b["beta"]["sh"][1]
            return [{"op": "c16.frame_model", "ntrait": t, "trait": lst("trait"),
                     "blocks": [{"k": k, "rows": self._nest(b[k]["v"], b[k]["sh"])} for k in keys]}]
        kway = {"op": "c16.frame_vmatk", "k": VM_AXES.get(cls, 0), "flat": b["mat"]["v"] if b.get("mat") else [],
                "taxa": lst("taxa"), "taxa_grp": lst("taxa_grp"), "trait": lst("trait"),
                "with_grp": case["opts"].get("grp", False)}
        if cls == "vmat":
            # the two-way model (nested lists) and the k-way model (index-tuple function) at k = 2
            return [{"op": "c16.frame_vmat", "mat": self._nest(b["mat"]["v"], b["mat"]["sh"]), "taxa": lst("taxa"),
                     "taxa_grp": lst("taxa_grp"), "trait": lst("trait"), "with_grp": case["opts"]["grp"]}, kway]
        if cls in ("vmat3", "vmat4"):
            return [kway]
        return []

    @staticmethod
    def _ds_close(a, b):
        """equal labels / integers, floats to 1e-9 (text and unit conversions round)"""
        if a is None or b is None:
            return a is None and b is None
        if a["dt"] != b["dt"] or a["sh"] != b["sh"]:
            return False
        if a["dt"] in ("f64", "f32"):
            # text and unit conversions round: a few ulps, relative to the value itself (no absolute slack:
            # 1e-8 must not come back as 1.0001e-8, 25000.0000001 not as 25000)
            return fclose(a["v"], b["v"], rel=1e-12, abs_=0)
        return a["v"] == b["v"]

    @staticmethod
    def _cols_close(a, b, n, t, tol=1e-12, floor=None):
        """two (n,t) matrices given flat: equal to `tol` relative to the magnitude of the COLUMN — the
        breeding-value layout re-centres and re-scales every trait column on the way in, so a value is
        only kept to rounding at the scale of its column (250000007.125 next to 7.250000013)"""
        if len(a) != n * t or len(b) != n * t:
            return False
        A, B = [Fraction(x) for x in a], [Fraction(x) for x in b]
        tol = Fraction(tol)
        if any((abs(x) >= F_NAN or abs(y) >= F_NAN) and x != y for x, y in zip(A, B)):
            return False
        for j in range(t):
            ca = [A[i * t + j] for i in range(n)]
            cb = [B[i * t + j] for i in range(n)]
            m = max([abs(x) for x in ca] + [abs(x) for x in cb] + [0] + ([floor[j]] if floor else []))
            if any(abs(x - y) > tol * m for x, y in zip(ca, cb)):
                return False
        return True

    @staticmethod
    def _bv_floor(b):
        """magnitude of the operands of `mat * scale + location` per trait: the float result is only good to
        rounding at THAT scale when the two terms cancel (model = exact rationals)"""
        n, t = b["mat"]["sh"]
        mat = [Fraction(x) for x in b["mat"]["v"]]
        loc = [Fraction(x) for x in b["location"]["v"]]
        sc = [Fraction(x) for x in b["scale"]["v"]]
        return [max([abs(loc[j])] + [abs(mat[i * t + j] * sc[j]) for i in range(n)]) for j in range(t)]

    def _judge_frame(self, case, obs, answers):
        cls = case["cls"]
        notes = []
        spec = obs["same_type"] and obs["src_after"] == obs["before"]
        if not spec:
            notes.append("type changed or exporting modified the source")
        want = obs["before"]
        if cls in self.VM_COLS and not case["opts"].get("sorted", True):
            want = self._vmat_sorted(want, obs["got"])
        for k in self.FRAME_FIELDS[cls]:
            if not self._ds_close(want[k], obs["got"][k]):
                spec = False
                notes.append(f"{k}: wrote {json.dumps(obs['before'][k])[:160]} read {json.dumps(obs['got'][k])[:160]}")
        if cls in ("sgmap", "egmap") and not fclose(obs["probe_src"], obs["probe_got"], rel=1e-9, abs_=1e-12):
            spec = False
            notes.append(f"interpolated positions: source {json.dumps(obs['probe_src'])[:200]} "
                         f"read-back {json.dumps(obs['probe_got'])[:200]}")
        if cls == "bvmat" and not (obs["unscaled_src"]["sh"] == obs["unscaled_got"]["sh"] and
                                   obs["unscaled_src"]["dt"] == obs["unscaled_got"]["dt"] and
                                   self._cols_close(obs["unscaled_src"]["v"], obs["unscaled_got"]["v"],
                                                    *obs["unscaled_src"]["sh"])):
            spec = False
            notes.append(f"breeding values: wrote {json.dumps(obs['unscaled_src'])[:200]} "
                         f"read {json.dumps(obs['unscaled_got'])[:200]}")
        corr = True
        if cls == "bvmat":
            m = answers[0]["ok"]
            g = obs["got"]
            n, t = obs["unscaled_got"]["sh"]
            cols_impl = [[obs["unscaled_got"]["v"][i * t + j] for i in range(n)] for j in range(t)]
            ok = ("err" not in m and m["taxa"] == (g["taxa"]["v"] if g["taxa"] else None)
                  and m["taxa_grp"] == (g["taxa_grp"]["v"] if g["taxa_grp"] else None)
                  and [str(x) for x in m["trait"]] == [str(x) for x in (g["trait"]["v"] if g["trait"] else [])]
                  and self._cols_close([m["cols"][j][i] for i in range(n) for j in range(t)],
                                       obs["unscaled_got"]["v"], n, t, 1e-9, self._bv_floor(obs["before"])))
            if not ok:
                corr = False
                notes.append(f"model={json.dumps(m)[:300]} impl labels/values={json.dumps(g)[:300]}")
        if cls == "sgmap":
            m = answers[0]["ok"]
            g = obs["got"]
            ok = ("err" not in m and m["chrgrp"] == g["vrnt_chrgrp"]["v"] and m["phypos"] == g["vrnt_phypos"]["v"]
                  and fclose(m["genpos"], g["vrnt_genpos"]["v"], rel=1e-9, abs_=1e-12))
            if not ok:
                corr = False
                notes.append(f"model={json.dumps(m)[:300]} impl={json.dumps(g)[:300]}")
        flat = lambda x: [e for r in x for e in (flat(r) if isinstance(r, list) else [r])]
        vals = lambda k: (obs["got"][k]["v"] if obs["got"].get(k) else None)
        if cls in self.VM_COLS:
            mk = answers[-1]["ok"]
            g = obs["got"]
            okk = ("err" not in mk and mk["taxa"] == vals("taxa") and mk["taxa_grp"] == vals("taxa_grp")
                   and mk["trait"] == vals("trait") and None not in mk["flat"]
                   and not str(g["mat"]["dt"]).startswith("other") and fclose(mk["flat"], g["mat"]["v"], rel=1e-9, abs_=1e-12))
            if not okk:
                corr = False
                notes.append(f"k-way model={json.dumps(mk)[:300]} impl={json.dumps(g)[:300]}")
        if cls in ("cmat", "egmap", "algmod", "adlgmod", "vmat"):
            m = answers[0]["ok"]
            g = obs["got"]
            if "err" in m:
                ok = False
            elif cls == "cmat":
                ok = (m["taxa"] == vals("taxa") and m["taxa_grp"] == vals("taxa_grp")
                      and fclose(flat(m["mat"]), g["mat"]["v"], rel=1e-9, abs_=1e-12))
            elif cls == "egmap":
                ok = (m["chrgrp"] == vals("vrnt_chrgrp") and m["phypos"] == vals("vrnt_phypos")
                      and m["stop"] == vals("vrnt_stop") and m["name"] == vals("vrnt_name")
                      and m["fncode"] == vals("vrnt_fncode")
                      and fclose(m["genpos"], g["vrnt_genpos"]["v"], rel=1e-9, abs_=1e-12))
            elif cls == "vmat":
                mm = flat(m["mat"])
                ok = (m["taxa"] == vals("taxa") and m["taxa_grp"] == vals("taxa_grp") and m["trait"] == vals("trait")
                      and None not in mm and not str(g["mat"]["dt"]).startswith("other")
                      and fclose(mm, g["mat"]["v"], rel=1e-9, abs_=1e-12))
            else:
                ok = [str(x) for x in m["trait"]] == [str(x) for x in (vals("trait") or [])]
                for blk in m["blocks"]:
                    ok = ok and fclose(flat(blk["rows"]), g[blk["k"]]["v"], rel=1e-9, abs_=1e-12) \
                        and [len(blk["rows"])] == g[blk["k"]]["sh"][:1]
            if not ok:
                corr = False
                notes.append(f"model={json.dumps(m)[:300]} impl={json.dumps(g)[:300]}")
        return {"corr": corr, "spec": spec, "nontrivial": True,
                "detail": f"frame[{cls},{case['via']},{json.dumps(case['opts'])}] " + "; ".join(notes)[:1200]}

    # ------------------------------------------------------------------ VCF
    # identifiers / sample names that survive only if the importer takes the column as it is: ';'-separated
    # identifier lists (allowed by the VCF specification), separators of other formats, case pairs, number- /
    # NA- / None-looking, not NFC, padded (sample names only: the header is split on tabs), long
    VCF_IDS = ["rs12;ss9001", "a;b;c", "AX-100", "chr1:12345_A/T", "007", "1e5", "NA", "nan", "None", "Rs12", "rs12",
               "x,y", "id=5", "snp|x", "#lead", "L" * 300, "Zo\u00eb", "Zoe\u0308", "\u2126", "a.b", "..", "-", "1_000",
               "m2_400;alt_name;x", "RS12;rs12", "0", "-1", "True", "ss9001;rs12"]
    VCF_SAMPLES = [x for x in HARD if "\t" not in x and "\n" not in x] + ["007", "NA", "1e5", "a=b", "x:y", "None", "0"]

    def _gen_vcf(self, rng):
        n = rng.randint(1, 4)
        p = rng.randint(1, 7)
        hard = rng.random() < 0.4
        samples = _perm(rng, NAMES)[:n]
        nchr = rng.randint(1, 3)
        ids = _perm(rng, ["m%d" % i for i in range(20)] + ["mé", "ß9", "rs12"])[:p]
        if hard:
            samples = _perm(rng, self.VCF_SAMPLES)[:n]
            ids = ([rng.choice(self.VCF_IDS[:3] + self.VCF_IDS[-6:])] + _perm(rng, self.VCF_IDS))[:p]
            if p >= 2 and rng.random() < 0.25:
                ids[-1] = ids[0]                    # identifiers need not be unique
            ids = _perm(rng, ids)
        recs = []
        for j in range(p):
            # what kind of site: SNP, multi-allelic SNP, insertion / deletion, symbolic allele, no alternative at all;
            # filtered or low-quality records, extra INFO / FORMAT fields — all of it is "VCF contents"
            ref, alt = rng.choice([("A", ["C"]), ("A", ["C", "G"]), ("A", ["C", "G", "T"]), ("AT", ["A"]), ("G", ["GTT", "GA"]),
                                   ("C", ["<DEL>"]), ("T", []), ("ACG", ["A", "ACGCG", "TCG"]), ("N", ["A", "C", "G"])])
            amax = len(alt)
            rec = {"chrom": rng.randint(1, nchr), "pos": rng.choice([10, 10, 20, 300, 4000, rng.randint(1, 10 ** 6)]),
                   "id": ids[j], "calls": [[rng.randint(0, amax), rng.randint(0, amax)] for _ in range(n)],
                   "ref": ref, "alt": alt}
            if rng.random() < 0.4:
                rec["filter"] = rng.choice(["PASS", "q10"])
                rec["qual"] = rng.choice(["30", "3.5", "0"])
            if rng.random() < 0.3:
                rec["info"] = "DP=%d" % rng.randint(0, 99)
            if rng.random() < 0.3:
                rec["fmt"] = rng.choice(["GT:DP", "GT:GQ:DP"])
            if hard and rng.random() < 0.3:         # coordinates at the ends of the 32-bit range htslib allows
                rec["pos"] = rng.choice([1, 2 ** 31 - 1, 2 ** 31 - 2, 2 ** 30 + 7])
            if hard and rng.random() < 0.15:
                rec["chrom"] = rng.choice([2 ** 31 + 5, 2 ** 40, 1000003])
            recs.append(rec)
        # a fifth of the files have records without identifier (`.`); one file in twelve names a
        # chromosome with something that is not an integer literal (must be refused)
        if rng.random() < 0.2:
            for r in recs:
                if rng.random() < 0.5:
                    r["id"] = None
        if rng.random() < 0.08:
            recs[rng.randrange(p)]["chrom"] = rng.choice(["X", "chr1", "1A", "Ⅷ", "2.0"])
        case = {"kind": "vcf", "samples": samples, "recs": recs, "group": rng.random() < 0.6,
                "phased": rng.random() < 0.6, "gz": rng.random() < 0.15}
        # one file in eight is OUTSIDE the property's quantifier ("phased diploid calls"): some calls use the
        # unphased separator or have a missing allele.  The code takes the two allele columns as cyvcf2
        # delivers them (missing = -1) and ignores the phase flag; only model = code is checked there.
        if rng.random() < 0.125:
            case["loose"] = True
            for r in recs:
                for c in r["calls"]:
                    q = rng.random()
                    if q < 0.3:
                        c.append("/")
                    elif q < 0.4:
                        c[rng.randrange(2)] = -1
                    elif q < 0.45:
                        c[0] = c[1] = -1
                        c.append("/")
        return case

    @staticmethod
    def _vcf_text(case):
        chroms = sorted({str(r["chrom"]) for r in case["recs"]})
        lines = ["##fileformat=VCFv4.2"] + ["##contig=<ID=%s>" % c for c in chroms]
        lines.append('##ALT=<ID=DEL,Description="Deletion">')
        lines.append('##FILTER=<ID=q10,Description="Quality below 10">')
        lines.append('##INFO=<ID=DP,Number=1,Type=Integer,Description="Total depth">')
        lines.append('##FORMAT=<ID=GT,Number=1,Type=String,Description="Genotype">')
        lines.append('##FORMAT=<ID=DP,Number=1,Type=Integer,Description="Depth">')
        lines.append('##FORMAT=<ID=GQ,Number=1,Type=Integer,Description="Genotype quality">')
        lines.append("\t".join(["#CHROM", "POS", "ID", "REF", "ALT", "QUAL", "FILTER", "INFO", "FORMAT"] + case["samples"]))
        for j, r in enumerate(case["recs"]):
            alt = r.get("alt", ["C", "G", "T"])
            fmt = r.get("fmt", "GT")
            extra = "".join(":%d" % (7 + j) for _ in fmt.split(":")[1:])
            lines.append("\t".join([str(r["chrom"]), str(r["pos"]), r["id"] if r["id"] is not None else ".",
                                    r.get("ref", "A"), ",".join(alt) if alt else ".", r.get("qual", "."),
                                    r.get("filter", "."), r.get("info", "."), fmt]
                                   + ["%s%s%s%s" % ("." if c[0] < 0 else c[0], c[2] if len(c) > 2 else "|",
                                                    "." if c[1] < 0 else c[1], extra) for c in r["calls"]]))
        return "\n".join(lines) + "\n"

    def _impl_vcf(self, case):
        M = _mods()
        os.makedirs(TMP_ROOT, exist_ok=True)
        d = tempfile.mkdtemp(prefix="vcf_", dir=TMP_ROOT)
        fn = os.path.join(d, "in.vcf.gz" if case.get("gz") else "in.vcf")
        try:
            if case.get("gz"):
                import gzip
                with gzip.open(fn, "wt", encoding="utf-8") as f:
                    f.write(self._vcf_text(case))
            else:
                with open(fn, "w", encoding="utf-8") as f:
                    f.write(self._vcf_text(case))
            cls = M["pgmat"] if case["phased"] else M["gmat"]
            bad = [r["chrom"] for r in case["recs"] if not isinstance(r["chrom"], int)]
            try:
                o = cls.from_vcf(fn, auto_group_vrnt=case["group"])
            except ValueError as e:
                if not bad:
                    raise
                return {"fields": None, "refused": f"ValueError: {e}"[:200]}     # meant to be refused
            return {"fields": fields_of("pgmat" if case["phased"] else "gmat", o), "type": type(o).__name__}
        finally:
            shutil.rmtree(d, ignore_errors=True)

    def _req_vcf(self, case, obs):
        if case.get("loose"):
            case = dict(case, recs=[dict(r, calls=[c[:2] for c in r["calls"]]) for r in case["recs"]])
        f = obs["fields"]
        if f is None:
            return [{"op": "c16.vcf", "samples": case["samples"], "recs": case["recs"], "group": case["group"]}]
        req = {"op": "c16.spec_vcf", "samples": case["samples"], "recs": case["recs"], "group": case["group"],
               "phased": case["phased"],
               "taxa": (f["taxa"] or {}).get("v", []), "chrgrp": (f["vrnt_chrgrp"] or {}).get("v", []),
               "phypos": (f["vrnt_phypos"] or {}).get("v", []), "name": (f["vrnt_name"] or {}).get("v", [])}
        mat = f["mat"]
        nested = self._nest(mat["v"], mat["sh"]) if mat and not str(mat["dt"]).startswith("other") else []
        req["matP" if case["phased"] else "matU"] = nested
        return [{"op": "c16.vcf", "samples": case["samples"], "recs": case["recs"], "group": case["group"]}, req]

    @staticmethod
    def _nest(v, sh):
        if len(sh) <= 1:
            return list(v)
        step = 1
        for s_ in sh[1:]:
            step *= s_
        return [C16._nest(v[i * step:(i + 1) * step], sh[1:]) for i in range(sh[0])]

    def _judge_vcf(self, case, obs, answers):
        if obs["fields"] is None:
            # a chromosome name that is not an integer literal: outside the property's quantifier (the
            # matrix stores integer chromosomes); the model says the import is refused, and so it was
            m = answers[0]["ok"]
            return {"corr": isinstance(m, dict) and "err" in m, "spec": True, "nontrivial": False,
                    "detail": f"vcf refused ({obs['refused']}) model={json.dumps(m)[:100]}"}
        m, sp = answers[0]["ok"], answers[1]["ok"]
        if isinstance(m, dict) and "err" in m:
            return {"corr": False, "spec": True, "nontrivial": False,
                    "detail": "vcf: the model refuses a file the implementation imported"}
        f = obs["fields"]
        n, p = len(case["samples"]), len(case["recs"])
        notes = []
        want = {"taxa": ds("str", [n], m["taxa"]), "vrnt_chrgrp": ds("i64", [p], m["chrgrp"]),
                "vrnt_phypos": ds("i64", [p], m["phypos"]), "vrnt_name": ds("str", [p], m["name"]),
                "ploidy": ds("i64", [], [2])}
        if case["phased"]:
            want["mat"] = ds("i8", [2, n, p], [x for pl in m["matP"] for row in pl for x in row])
        else:
            want["mat"] = ds("i8", [n, p], [x for row in m["matU"] for x in row])
        if m["runs"] is not None:
            want["vrnt_chrgrp_name"] = ds("i64", [len(m["runs"])], [r["name"] for r in m["runs"]])
            want["vrnt_chrgrp_stix"] = ds("i64", [len(m["runs"])], [r["stix"] for r in m["runs"]])
            want["vrnt_chrgrp_spix"] = ds("i64", [len(m["runs"])], [r["stix"] + r["len"] for r in m["runs"]])
            want["vrnt_chrgrp_len"] = ds("i64", [len(m["runs"])], [r["len"] for r in m["runs"]])
        corr = True
        for k in f:
            if f[k] != want.get(k):
                corr = False
                notes.append(f"{k}: model={json.dumps(want.get(k))[:150]} impl={json.dumps(f[k])[:150]}")
        # dtypes are part of "exactly": int8 calls, integer coordinates, str labels
        dt_ok = (f["mat"]["dt"] == "i8" and f["taxa"] and f["taxa"]["dt"] == "str" and
                 f["vrnt_name"] and f["vrnt_name"]["dt"] == "str" and
                 f["vrnt_chrgrp"] and f["vrnt_chrgrp"]["dt"] == "i64" and
                 f["vrnt_phypos"] and f["vrnt_phypos"]["dt"] == "i64")
        spec = bool(sp["ok"]) and bool(dt_ok)
        if case.get("loose"):
            spec = True          # unphased / missing calls: outside the quantifier, correspondence only
        if not spec:
            notes.append(f"spec: {sp['detail']} dtypes_ok={bool(dt_ok)}")
        nontriv = n >= 2 and p >= 2 and len({(r["chrom"], r["pos"]) for r in case["recs"]}) >= 2
        return {"corr": corr, "spec": spec, "nontrivial": nontriv,
                "detail": f"vcf[{'phased' if case['phased'] else 'unphased'},group={case['group']}] "
                          + "; ".join(notes)[:1200]}

    # ------------------------------------------------------------------ object graphs / copy.deepcopy
    def _gen_graph(self, rng):
        cls = rng.choice(["ge", "ge", "algmod", "adlgmod", "bvmat", "bvmat", "pgmat", "vmat", "sgmap",
                          "tp", "gmat", "cmat", "egmap", "vmat3", "vmat4", "dmat", "tmat", "vrmat", "tvmat", "trmat",
                          "ttmat", "sttmat", "sq4"])
        fields, ctx, grouped, _ = gen_obj(rng, cls, rich=rng.choice([0.5, 1.0]))
        # aliasing inside the source: two attributes holding one and the same array
        alias = rng.choice([None, None, "pair"])
        return {"kind": "graph", "cls": cls, "fields": fields, "ctx": ctx, "grouped": grouped, "alias": alias,
                "how": rng.choice(["copy.deepcopy", "obj.deepcopy"]),
                "var": {"layout": rng.choice(LAYOUTS)} if rng.random() < 0.4 else {}}

    ALIAS_PAIRS = {"bvmat": ("scale", "location"), "algmod": ("u_a", "u_misc"), "adlgmod": ("u_a", "u_d"),
                   "ge": ("var_env", "var_err"), "pgmat": ("taxa_grp_name", "taxa_grp_len"),
                   "vmat": ("taxa_grp_name", "taxa_grp_len"), "sgmap": ("vrnt_chrgrp_stix", "vrnt_chrgrp_len"),
                   "gmat": ("vrnt_chrgrp_name", "vrnt_chrgrp_len"), "cmat": ("taxa_grp_name", "taxa_grp_len"),
                   "egmap": ("vrnt_chrgrp_stix", "vrnt_chrgrp_len"), "vmat3": ("taxa_grp_stix", "taxa_grp_spix"),
                   "vmat4": ("taxa_grp_name", "taxa_grp_len"), "tmat": ("taxa_grp_name", "taxa_grp_len"),
                   "tvmat": ("vrnt_chrgrp_name", "vrnt_chrgrp_len"), "vrmat": ("vrnt_chrgrp_stix", "vrnt_chrgrp_len"),
                   "ttmat": ("taxa_grp_stix", "taxa_grp_len"), "sttmat": ("taxa_grp_name", "taxa_grp_len"),
                   "sq4": ("taxa_grp_stix", "taxa_grp_spix")}

    def _impl_graph(self, case):
        cls = case["cls"]
        o = build(cls, case["fields"], case.get("ctx", 0), case.get("grouped", False), case.get("var"))
        if case.get("alias") and cls in self.ALIAS_PAIRS:
            a, b = self.ALIAS_PAIRS[cls]
            va = getattr(o, a)
            if isinstance(va, numpy.ndarray) and isinstance(getattr(o, b), numpy.ndarray) \
                    and getattr(o, b).shape == va.shape and getattr(o, b).dtype == va.dtype:
                setattr(o, "_" + b, va)        # both attributes now refer to one buffer
        g0 = Graph()
        root0 = g0.ref(o)
        src_cells = json.loads(json.dumps(g0.cells))
        c = pycopy.deepcopy(o) if case["how"] == "copy.deepcopy" else o.deepcopy()
        root1 = g0.ref(c)                      # same heap: sharing between source and copy shows up
        cells = g0.cells
        shared = sorted(g_reach(cells, root0) & g_reach(cells, root1))
        return {"src_heap": src_cells, "src_root": root0,
                "copy_canon": g_canon(cells, root1), "src_tree": g_tree(cells, root0),
                "copy_tree": g_tree(cells, root1),
                "shared_kinds": sorted({next(iter(cells[a])) for a in shared}),
                "shared_n": len(shared), "same_type": type(c) is type(o), "ncells": len(src_cells)}

    def _req_graph(self, case, obs):
        return [{"op": "c16.deepcopy_graph", "heap": obs["src_heap"], "root": obs["src_root"],
                 "method": case["how"] == "obj.deepcopy"}]

    def _judge_graph(self, case, obs, answers):
        m = answers[0]["ok"]
        notes = []
        mc = g_canon(m["heap"], m["root"])
        corr = mc == obs["copy_canon"] and m["wf"] is True     # `wf` = hypothesis of the graph theorems
        if not m["wf"]:
            notes.append("the object graph of a real object is not acyclic / bottom-up")
        if not corr:
            notes.append(f"copy graph: model={json.dumps(mc)[:400]} impl={json.dumps(obs['copy_canon'])[:400]}")
        mshared = g_reach(m["heap"], obs["src_root"]) & g_reach(m["heap"], m["root"])
        mkinds = sorted({next(iter(m["heap"][a])) for a in mshared})
        if (len(mshared), mkinds) != (obs["shared_n"], obs["shared_kinds"]):
            corr = False
            notes.append(f"shared cells: model={len(mshared)} {mkinds} impl={obs['shared_n']} {obs['shared_kinds']}")
        spec = obs["same_type"] and obs["src_tree"] == obs["copy_tree"] and \
            all(k == "ext" for k in obs["shared_kinds"])       # only the random source may be shared
        if not spec:
            notes.append(f"deep copy differs from its source or shares state: shared={obs['shared_kinds']} "
                         f"equal={obs['src_tree'] == obs['copy_tree']}")
        return {"corr": corr, "spec": spec, "nontrivial": obs["ncells"] >= 4,
                "detail": f"graph[{case['cls']},{case['how']},alias={case.get('alias')}] " + "; ".join(notes)[:1200]}

    SPLINE_KINDS = ["linear", "nearest", "zero", "previous", "next", "slinear", "quadratic", "cubic"]

    def _gen_var(self, rng, cls, fields, shape, layouts=True, history=True):
        """how the object is brought about: memory layout of the arrays handed to the constructor, a
        concrete subclass, spline options of a genetic map, and a short history of in-place steps"""
        var = {}
        if layouts and rng.random() < 0.45:
            var["layout"] = rng.choice(LAYOUTS[1:])
        if cls in PYCLS and rng.random() < 0.4:
            var["pycls"] = rng.choice(PYCLS[cls])
        if cls in ("sgmap", "egmap"):
            chrs = fields["vrnt_chrgrp"]["v"]
            least = min(chrs.count(c) for c in set(chrs))
            mode = rng.choice(["auto", "auto", "user", "user", "none"])
            kinds = self.SPLINE_KINDS[:5] + (["slinear"] if least >= 2 else []) + (["quadratic"] if least >= 3 else []) \
                + (["cubic"] if least >= 4 else [])
            sp = {"mode": mode, "kind": rng.choice(self.SPLINE_KINDS if mode == "user" else kinds),
                  "fill": rng.choice([None, None, "0", "-1/4", "nan"])}
            if sp["fill"] == "nan":
                sp["fill"] = None if sp["kind"] in ("slinear", "quadratic", "cubic") and False else "nan"
            if mode == "user":
                sp["warp"] = rng.choice(["3/2", "1/2", "2"])
            var["spline"] = sp
        if history and rng.random() < 0.5:
            var["prep"] = self._gen_prep(rng, cls, fields, shape)
        return var

    def _gen_prep(self, rng, cls, fields, shape):
        """in-place steps between construction and the save / copy: statistics that may prime caches,
        sorting / grouping / pruning, buffers overwritten in place, attributes re-assigned"""
        steps = []
        has = lambda k: fields.get(k) is not None
        if cls in ("sgmap", "egmap"):
            p = shape[0]
            opts = ["ungroup", "group", "sort"]
            if p >= 3:
                opts += ["remove", "remove", "select", "select"]
            opts += ["reorder"]
            for _ in range(rng.randint(1, 2)):
                k = rng.choice(opts)
                if k == "remove":
                    steps.append({"t": "call", "k": "remove", "a": [[rng.randrange(p)]]})
                    p -= 1
                elif k == "select":
                    keep = sorted(rng.sample(range(p), max(2, p - 1)))
                    steps.append({"t": "call", "k": "select", "a": [keep]})
                    p = len(keep)
                elif k == "reorder":
                    steps.append({"t": "call", "k": "reorder", "a": [_perm(rng, range(p))]})
                else:
                    steps.append({"t": "call", "k": k})
                if p < 3 and "remove" in opts:
                    opts = [o for o in opts if o not in ("remove", "select")]
            return steps
        arrays = [k for k in CLASSES[cls]["ctor"] if has(k) and fields[k].get("sh")]
        opts = []
        if arrays:
            opts += [("bump", k) for k in arrays if k not in ("scale", "nrep", "var_env", "var_rep", "var_err")]
        if cls in TAXA_CLASSES:
            if has("taxa"):
                opts += [("call", "sort_taxa"), ("relabel", "taxa")]
            if has("taxa_grp"):
                opts += [("call", "group_taxa")]
            if has("taxa"):
                opts += [("none", "taxa")]
        if cls in VRNT_CLASSES:
            if has("vrnt_chrgrp") and has("vrnt_phypos"):
                opts += [("call", "sort_vrnt"), ("call", "group_vrnt")]
        if cls in ("pgmat", "gmat"):
            opts += [("call", "afreq"), ("call", "maf")]
        if cls == "bvmat":
            opts += [("call", "tmean"), ("call", "tstd"), ("call", "unscale")]
            if has("trait"):
                opts += [("relabel", "trait")]
        if cls in ("algmod", "adlgmod") and has("hyperparams"):
            opts += [("hp", "hyperparams")]
        if not opts:
            return steps
        for _ in range(rng.randint(1, 2)):
            t, k = rng.choice(opts)
            if t == "bump":
                steps.append({"t": "bump", "k": k})
            elif t == "call":
                steps.append({"t": "call", "k": k})
            elif t == "none":
                steps.append({"t": "set", "k": k, "v": None})
                opts = [o for o in opts if o[1] not in ("sort_taxa", k)]
            elif t == "relabel":
                n = fields[k]["sh"][0]
                steps.append({"t": "set", "k": k, "v": ds("str", [n], _labels(rng, NAMES, n, True, True))})
            elif t == "hp":
                steps.append({"t": "set", "k": k, "v": {"dict": {"z": ds("f64", [3], [1, 2, "1/2"]),
                                                                "s": ds("str", [], ["Zoe\u0308"])}}})
        return steps

    COPY_HOWS = ["copy.copy", "copy.deepcopy", "obj.deepcopy", "obj.copy", "copy.deepcopy"]

    def _gen_copy(self, rng, k=None):
        order = list(CLASSES) + ["sgmap"]
        if k is None:
            k = rng.randrange(10 ** 6)
        cls = order[k % len(order)]
        how = self.COPY_HOWS[(k // len(order)) % 5]
        hard = rng.random() < 0.5
        fields, ctx, grouped, shape = gen_obj(rng, cls, rich=rng.choice([0.3, 0.7, 1.0, 1.0]), hard=hard, hardf=False,
                                              meta=True)
        return {"kind": "copy", "cls": cls, "fields": fields, "ctx": ctx, "grouped": grouped, "how": how,
                "var": self._gen_var(rng, cls, fields, shape)}

    def _impl_copy(self, case):
        cls = case["cls"]
        o = build(cls, case["fields"], case.get("ctx", 0), case.get("grouped", False), case.get("var"))
        before = fields_of(cls, o)
        st0 = state_of(o)
        how = case["how"]
        deep = "deep" in how
        c = {"copy.copy": lambda: pycopy.copy(o), "copy.deepcopy": lambda: pycopy.deepcopy(o),
             "obj.copy": lambda: o.copy(), "obj.deepcopy": lambda: o.deepcopy()}[how]()
        after_copying = fields_of(cls, o)
        copy_fields = fields_of(cls, c)
        # generic observable state: every attribute, nested objects, interpolators by behaviour
        d_copy = diff_state(st0, state_of(c))
        d_src = diff_state(st0, state_of(o))
        shared_paths = shared_cells(o, c) if deep else []
        ao, ac = arrays_of(cls, o), arrays_of(cls, c)
        shared = any(numpy.shares_memory(x, y) for _, x in ao for _, y in ac)
        same_obj = c is o
        dict_same = any(isinstance(getattr(o, k), dict) and getattr(o, k) is getattr(c, k)
                        for k in CLASSES[cls]["fields"])
        extra_shared = False
        if cls in ("ge", "tp"):        # the bound genomic model is part of the protocol's state
            extra_shared = (c.gpmod is o.gpmod) or any(
                numpy.shares_memory(getattr(c.gpmod, k), getattr(o.gpmod, k)) for k in ("beta", "u_misc", "u_a"))
        seen = set()
        for _, a in ac:
            if id(a) not in seen:
                seen.add(id(a))
                bump_inplace(a)
        src_after, copy_after = fields_of(cls, o), fields_of(cls, c)
        # every array and every dictionary of the copy is changed: the source must not move (deep);
        # then every array and dictionary of the source: the copy must not move
        d_indep = d_indep2 = None
        ncell = 0
        if deep:
            ncell = mutate_all(c, "__verif_copy__")
            d_indep = diff_state(st0, state_of(o))
            st_c = state_of(c)
            mutate_all(o, "__verif_src__")
            d_indep2 = diff_state(st_c, state_of(c))
        return {"before": before, "after_copying": after_copying, "copy": copy_fields, "shared": bool(shared),
                "same_obj": same_obj, "dict_same": bool(dict_same), "extra_shared": bool(extra_shared),
                "same_type": type(c) is type(o), "narr": len(ac), "ncell": ncell,
                "state_diff_copy": d_copy, "state_diff_src": d_src, "shared_paths": shared_paths[:6],
                "indep_diff": d_indep, "indep_diff2": d_indep2,
                "src_after": src_after, "copy_after": copy_after}

    def _req_copy(self, case, obs):
        deep = "deep" in case["how"]
        return [{"op": "c16.copy", "deep": deep, "obj": obs["before"]},
                {"op": "c16.spec_obj", "cls": "any", "want": obs["before"], "got": obs["copy"]},
                {"op": "c16.spec_obj", "cls": "any", "want": obs["before"], "got": obs["src_after"]}]

    def _judge_copy(self, case, obs, answers):
        m, eq_copy, eq_src = answers[0]["ok"], answers[1]["ok"], answers[2]["ok"]
        deep = "deep" in case["how"]
        notes, cnotes = [], []
        corr = True
        for k in ("copy", "src_after", "copy_after"):
            if not self._same_obj(m[k], obs[k]):
                corr = False
                cnotes.append(f"{k}: model={json.dumps(m[k])[:200]} impl={json.dumps(obs[k])[:200]}")
        if bool(m["shared"]) != obs["shared"]:
            corr = False
            cnotes.append(f"shared buffers: model={m['shared']} impl={obs['shared']}")
        spec = True
        if not eq_copy["ok"] or not obs["same_type"]:
            spec = False
            notes.append(f"the copy differs from its source in {eq_copy['diff']} (same type: {obs['same_type']})")
        if obs["after_copying"] != obs["before"] or obs["same_obj"] or obs["state_diff_src"]:
            spec = False
            notes.append(f"copying changed the source or returned the source itself ({obs['state_diff_src']})")
        if obs["state_diff_copy"]:
            spec = False
            notes.append(f"the copy is not observably equal to its source at {obs['state_diff_copy']}")
        if deep:
            if obs["shared"] or obs["dict_same"] or obs["extra_shared"]:
                spec = False
                notes.append(f"deep copy shares state with its source (arrays={obs['shared']} "
                             f"dict={obs['dict_same']} bound model={obs['extra_shared']})")
            if not eq_src["ok"]:
                spec = False
                notes.append(f"mutating the deep copy changed the source in {eq_src['diff']}")
            if obs["shared_paths"]:
                spec = False
                notes.append(f"deep copy shares mutable state with its source: {obs['shared_paths']}")
            if obs["indep_diff"] or obs["indep_diff2"]:
                spec = False
                notes.append(f"mutation leaks between deep copy and source: source moved at {obs['indep_diff']}, "
                             f"copy moved at {obs['indep_diff2']}")
        return {"corr": corr, "spec": spec, "nontrivial": deep and obs["narr"] >= 2,
                "detail": f"copy[{case['cls']},{case['how']}] " + "; ".join(notes + cnotes)[:1200]}

    # ------------------------------------------------------------------ copy histories on one live object
    @staticmethod
    def _pokeable(fields):
        return [k for k, v in fields.items() if isinstance(v, dict) and "dict" not in v and v.get("sh")]

    def _gen_copyseq(self, rng, k=None, cls=None, how=None):
        """ONE live object, copied more than once (the same way or another way), with in-place changes of an
        earlier copy and / or of the source in between: every copy must equal the source AS IT IS THEN"""
        order = list(CLASSES) + ["sgmap"]
        if k is None:
            k = rng.randrange(10 ** 6)
        cls = cls or order[k % len(order)]
        how = how or self.COPY_HOWS[(k // len(order)) % 5]
        fields, ctx, grouped, shape = gen_obj(rng, cls, rich=rng.choice([0.5, 1.0, 1.0]), hard=rng.random() < 0.3,
                                              hardf=False)
        pk = self._pokeable(fields)
        ops = [{"t": "copy", "how": how}]
        if pk:
            both = rng.random()
            if both < 0.7:
                ops.append({"t": "poke", "who": 0, "k": rng.choice(pk)})
            if both > 0.3:
                ops.append({"t": "poke", "who": -1, "k": rng.choice(pk)})
        ops.append({"t": "copy", "how": how if rng.random() < 0.65 else rng.choice(self.COPY_HOWS)})
        if rng.random() < 0.4:
            if pk:
                ops.append({"t": "poke", "who": rng.choice([-1, 0, 1]), "k": rng.choice(pk)})
            ops.append({"t": "copy", "how": rng.choice([how] + self.COPY_HOWS)})
        var = self._gen_var(rng, cls, fields, shape, history=False)
        return {"kind": "copyseq", "cls": cls, "fields": fields, "ctx": ctx, "grouped": grouped, "ops": ops, "var": var}

    def _corpus_copyseq(self):
        """every class x the four ways of copying: copy, change the copy, change the source, copy again the same way"""
        import random
        rng = random.Random(1605)
        out = []
        for cls in list(CLASSES):
            for how in ("obj.deepcopy", "obj.copy", "copy.deepcopy", "copy.copy"):
                fields, ctx, grouped, shape = gen_obj(rng, cls, rich=1.0)
                pk = self._pokeable(fields)
                first = "mat" if "mat" in pk else (pk[0] if pk else None)
                ops = [{"t": "copy", "how": how}]
                if first:
                    ops += [{"t": "poke", "who": 0, "k": first}, {"t": "poke", "who": -1, "k": pk[-1]}]
                ops += [{"t": "copy", "how": how}]
                var = {"spline": {"mode": "auto", "kind": "linear", "fill": None}} if cls in ("sgmap", "egmap") else {}
                out.append({"kind": "copyseq", "cls": cls, "fields": fields, "ctx": ctx, "grouped": True, "ops": ops,
                            "var": var})
        return out

    def _impl_copyseq(self, case):
        cls = case["cls"]
        o = build(cls, case["fields"], case.get("ctx", 0), case.get("grouped", False), case.get("var"))
        before = fields_of(cls, o)
        copies, deep_flags, taken, leaks = [], [], [], []
        for i, op in enumerate(case["ops"]):
            if op["t"] == "copy":
                how = op["how"]
                deep = "deep" in how
                src_then = fields_of(cls, o)
                st_src = state_of(o)
                others_then = [fields_of(cls, c) for c in copies]
                c = {"copy.copy": lambda: pycopy.copy(o), "copy.deepcopy": lambda: pycopy.deepcopy(o),
                     "obj.copy": lambda: o.copy(), "obj.deepcopy": lambda: o.deepcopy()}[how]()
                ac = arrays_of(cls, c)
                shares_src = deep and any(numpy.shares_memory(x, y) for _, x in arrays_of(cls, o) for _, y in ac)
                shares_old = [j for j, cj in enumerate(copies)
                              if cj is c or any(numpy.shares_memory(x, y) for _, x in arrays_of(cls, cj) for _, y in ac)]
                taken.append({"i": i, "how": how, "src": src_then, "copy": fields_of(cls, c),
                              "src_after": fields_of(cls, o), "state_diff": diff_state(st_src, state_of(c)),
                              "same_type": type(c) is type(o), "is_src": c is o,
                              "is_earlier": [j for j, cj in enumerate(copies) if cj is c],
                              "shares_src": bool(shares_src), "shares_earlier": shares_old if deep else [],
                              "others_moved": [j for j, cj in enumerate(copies) if fields_of(cls, cj) != others_then[j]]})
                copies.append(c)
                deep_flags.append(deep)
            else:
                who = op["who"]
                tgt = o if who < 0 else (copies[who] if who < len(copies) else None)
                a = getattr(tgt, op["k"], None) if tgt is not None else None
                if not isinstance(a, numpy.ndarray) or a.shape == ():
                    continue
                snap_src = fields_of(cls, o)
                snap = [fields_of(cls, c) for c in copies]
                bump_inplace(a)
                # a deep copy and the source must not see each other's in-place changes
                if who >= 0 and deep_flags[who] and fields_of(cls, o) != snap_src:
                    leaks.append({"i": i, "poked": who, "moved": "source"})
                if who < 0:
                    for j, c in enumerate(copies):
                        if deep_flags[j] and fields_of(cls, c) != snap[j]:
                            leaks.append({"i": i, "poked": "source", "moved": j})
        return {"before": before, "taken": taken, "leaks": leaks, "final_src": fields_of(cls, o),
                "final_copies": [fields_of(cls, c) for c in copies], "narr": len(arrays_of(cls, o))}

    def _req_copyseq(self, case, obs):
        mops = [{"t": "copy", "deep": "deep" in op["how"]} if op["t"] == "copy" else op for op in case["ops"]]
        return [{"op": "c16.copy_hist", "obj": obs["before"], "ops": mops}] + \
               [{"op": "c16.spec_obj", "cls": "any", "want": t["src"], "got": t["copy"]} for t in obs["taken"]]

    def _judge_copyseq(self, case, obs, answers):
        m = answers[0]["ok"]
        notes, cnotes = [], []
        corr = len(m["taken"]) == len(obs["taken"]) and len(m["final_copies"]) == len(obs["final_copies"])
        if corr:
            for n, (mt, it) in enumerate(zip(m["taken"], obs["taken"])):
                for k in ("copy", "src"):
                    if not self._same_obj(mt[k], it[k]):
                        corr = False
                        cnotes.append(f"copy #{n} {k}: model={json.dumps(mt[k])[:200]} impl={json.dumps(it[k])[:200]}")
                if "deep" in it["how"] and (not mt["fresh"]) != bool(it["shares_src"] or it["shares_earlier"]):
                    corr = False
                    cnotes.append(f"copy #{n}: fresh buffers model={mt['fresh']} impl shares src={it['shares_src']} "
                                  f"earlier={it['shares_earlier']}")
            if not self._same_obj(m["final_src"], obs["final_src"]):
                corr = False
                cnotes.append(f"final source: model={json.dumps(m['final_src'])[:200]} impl={json.dumps(obs['final_src'])[:200]}")
            for n, (mc, ic) in enumerate(zip(m["final_copies"], obs["final_copies"])):
                if not self._same_obj(mc, ic):
                    corr = False
                    cnotes.append(f"final copy #{n}: model={json.dumps(mc)[:200]} impl={json.dumps(ic)[:200]}")
        else:
            cnotes.append("number of copies differs")
        spec = True
        for n, t in enumerate(obs["taken"]):
            eq = answers[1 + n]["ok"]
            deep = "deep" in t["how"]
            if not eq["ok"] or not t["same_type"] or t["state_diff"]:
                spec = False
                notes.append(f"copy #{n} ({t['how']}, step {t['i']}) differs from its source as it is at that moment in "
                             f"{eq['diff']} {t['state_diff']} (same type: {t['same_type']}; it IS earlier copy "
                             f"{t['is_earlier']})")
            if t["is_src"] or t["src_after"] != t["src"]:
                spec = False
                notes.append(f"copy #{n} is the source itself or taking it changed the source")
            if deep and t["shares_src"]:
                spec = False
                notes.append(f"deep copy #{n} shares buffers with its source")
        for lk in obs["leaks"]:
            spec = False
            notes.append(f"in-place change of {lk['poked']} at step {lk['i']} shows in {lk['moved']} (deep copy / source)")
        ncopy = len(obs["taken"])
        return {"corr": corr, "spec": spec, "nontrivial": ncopy >= 2 and obs["narr"] >= 1,
                "detail": f"copyseq[{case['cls']},{[o.get('how', 'poke') for o in case['ops']]}] " + "; ".join(notes + cnotes)[:1400]}

    # ------------------------------------------------------------------ implementation
    def run_impl(self, case):
        return getattr(self, "_impl_" + case["kind"])(case)

    def _impl_h5(self, case):
        import pathlib
        M = _mods()
        os.makedirs(TMP_ROOT, exist_ok=True)
        d = tempfile.mkdtemp(prefix="h5_", dir=TMP_ROOT)
        fn = os.path.join(d, "f.h5")
        res = []
        last = {}               # location -> index of the last write that did not raise
        ctxs = {}
        live = {}               # write id -> the live object that was written
        got_live = {}           # read id -> the live object that was read
        snap = {}               # location -> (concrete class, generic state of the object when it was written)
        live_ctx = {}           # write id -> trait count of the genomic model the live object is bound to
        got_ctx = {}            # read id -> the same for an object that was read back

        def read(C, group, via, kw):
            if via == "open":
                with M["h5py"].File(fn, "r") as h5:
                    return C.from_hdf5(h5, group, **kw)
            return C.from_hdf5(pathlib.Path(fn) if via == "path" else fn, group, **kw)

        def read_op(cls, group, ctx, via):
            loc = norm_group(group)
            kw = {"gpmod": _gpmod(ctx)} if cls in ("ge", "tp") else {}
            C, st = snap.get(loc, (M[cls], None))
            if not (isinstance(C, type) and issubclass(C, M[cls])):
                C, st = M[cls], None
            try:
                got = read(C, group, via, kw)
            except Exception as e:
                return None, {"got": None, "raised": f"{type(e).__name__}: {e}"[:200]}
            out = {"got": fields_of(cls, got), "raised": None, "same_type": type(got) is C}
            if st is not None:
                out["state_diff"] = diff_state(st, state_of(got))
            return got, out

        try:
            for i, op in enumerate(case["ops"]):
                loc = norm_group(op["group"])
                if op["t"] == "w":
                    try:
                        if "reuse" in op:
                            obj = live[op["reuse"]]
                            wctx = live_ctx[op["reuse"]]
                        elif "from_read" in op:
                            obj = got_live[op["from_read"]]
                            wctx = got_ctx[op["from_read"]]
                        else:
                            obj = build(op["cls"], op["fields"], op.get("ctx", 0), op.get("grouped", False), op.get("var"))
                            wctx = op.get("ctx", 0)
                        for e in op.get("edit") or []:
                            apply_edit(obj, e)
                    except KeyError:
                        res.append({"t": "w", "want": None, "raised": "skipped: the object of an earlier step is missing"})
                        continue
                    live[op.get("id", i)] = obj
                    live_ctx[op.get("id", i)] = wctx
                    want = fields_of(op["cls"], obj)
                    st = state_of(obj)
                    via = op.get("via", "open" if op.get("open") else "name")
                    try:
                        if via == "open":
                            with M["h5py"].File(fn, "a") as h5:
                                obj.to_hdf5(h5, op["group"], overwrite=op["ow"])
                        else:
                            obj.to_hdf5(pathlib.Path(fn) if via == "path" else fn, op["group"], overwrite=op["ow"])
                        res.append({"t": "w", "want": want, "raised": None, "ctx": wctx,
                                    "src_diff": diff_state(st, state_of(obj))})
                        last[loc] = i
                        ctxs[loc] = wctx
                        snap[loc] = (type(obj), st)
                    except Exception as e:
                        res.append({"t": "w", "want": want, "ctx": wctx, "raised": f"{type(e).__name__}: {e}"[:200]})
                else:
                    ctx = ctxs.get(loc, op.get("ctx", 0))     # the model bound to the protocol stored there
                    got, out = read_op(op["cls"], op["group"], ctx, op.get("via", "name"))
                    if got is not None and "rid" in op:
                        got_live[op["rid"]] = got
                        got_ctx[op["rid"]] = ctx
                    res.append(dict(out, t="r", ctx=ctx))
            # final sweep: every location is read back with the class of its last successful write
            sweep = []
            for loc, i in sorted(last.items(), key=lambda kv: kv[1]):
                op = case["ops"][i]
                got, out = read_op(op["cls"], op["group"], ctxs.get(loc, op.get("ctx", 0)), ["name", "open", "path"][i % 3])
                sweep.append(dict(out, t="r", cls=op["cls"], group=op["group"], ctx=ctxs.get(loc, op.get("ctx", 0))))
            return {"res": res, "sweep": sweep}
        finally:
            shutil.rmtree(d, ignore_errors=True)

    # ------------------------------------------------------------------ model requests
    def requests(self, case, obs):
        return getattr(self, "_req_" + case["kind"])(case, obs)

    def _all_ops(self, case, obs):
        """the executed history: the case's ops followed by the final sweep of reads"""
        ops = []
        for op, r in zip(case["ops"], obs["res"]):
            if op["t"] == "r":
                op = dict(op, ctx=r.get("ctx", op.get("ctx", 0)))
            elif r.get("want") is None:
                continue          # a write whose object could not be obtained (flagged by the judge)
            else:
                op = dict(op, ctx=r.get("ctx", op.get("ctx", 0)))      # the model the live object is really bound to
            ops.append((op, r))
        for s in obs["sweep"]:
            ops.append(({"t": "r", "cls": s["cls"], "group": s["group"], "ctx": s["ctx"]}, s))
        return ops

    def _req_h5(self, case, obs):
        mops = []
        for op, r in self._all_ops(case, obs):
            if op["t"] == "w":
                mops.append({"t": "w", "cls": op["cls"], "group": op["group"], "ow": op["ow"], "obj": r["want"],
                             "ctx": op.get("ctx", 0)})
            else:
                mops.append({"t": "r", "cls": op["cls"], "group": op["group"], "ctx": op.get("ctx", 0)})
        reqs = [{"op": "c16.h5", "ops": mops, "prerepair": MODEL_PREREPAIR}]
        # the theorems' hypothesis `valid` evaluated on the state of every real object written
        for op, r in self._all_ops(case, obs):
            if op["t"] == "w":
                reqs.append({"op": "c16.valid", "cls": op["cls"], "ctx": op.get("ctx", 0), "obj": r["want"]})
        # Spec oracle on the implementation's read-backs
        for (op, r), want in zip(self._all_ops(case, obs), self._expected(case, obs)):
            if op["t"] == "r" and r["got"] is not None and want is not None and not any(
                    has_other(v) for v in r["got"].values()):
                reqs.append({"op": "c16.spec_obj", "cls": op["cls"], "ctx": op.get("ctx", 0),
                             "want": want, "got": r["got"]})
        return reqs

    def _expected(self, case, obs):
        """for every executed op: the object a read must return (None for writes / nothing written yet)"""
        out = []
        last = {}
        for op, r in self._all_ops(case, obs):
            loc = norm_group(op["group"])
            if op["t"] == "w":
                if r["raised"] is None:
                    last[loc] = (op["cls"], r["want"])
                out.append(None)
            else:
                cw = last.get(loc)
                out.append(cw[1] if cw and cw[0] == op["cls"] else None)
        return out

    # ------------------------------------------------------------------ judge
    def judge(self, case, obs, answers):
        for a in answers:
            if "err" in a:
                raise RuntimeError("driver error: " + a["err"])
        return getattr(self, "_judge_" + case["kind"])(case, obs, answers)

    def _judge_h5(self, case, obs, answers):
        model = answers[0]["ok"]
        ops = self._all_ops(case, obs)
        nwrites = sum(1 for op, _ in ops if op["t"] == "w")
        valids = answers[1:1 + nwrites]
        specs = answers[1 + nwrites:]
        expected = self._expected(case, obs)
        corr, spec = True, True
        notes, cnotes = [], []
        for r in obs["res"]:
            # (a write whose source object is missing — the read it builds on failed or was shrunk away — is
            #  skipped on both sides; a failing read is judged where it happens)
            if r["t"] == "w" and r.get("src_diff"):
                spec = False
                notes.append(f"to_hdf5 changed the object it saved at {r['src_diff']}")
        for (op, r), va in zip([x for x in ops if x[0]["t"] == "w"], valids):
            if not va["ok"]["valid"]:
                corr = False     # the model's notion of a valid object disagrees with the real constructor
                cnotes.append(f"a real {op['cls']} object does not satisfy the theorems' hypothesis `valid`")
        si = 0
        occupied = set()
        sites = []
        for idx, ((op, r), m, want) in enumerate(zip(ops, model, expected)):
            loc = norm_group(op["group"])
            if op["t"] == "w":
                m_ok = (m == "ok")
                i_ok = r["raised"] is None
                if m_ok != i_ok:
                    corr = False
                    cnotes.append(f"op{idx} write: model={m} impl_raised={r['raised']}")
                if not i_ok and not (op["ow"] is False and loc in occupied):
                    spec = False        # a valid write was refused
                    notes.append(f"op{idx} to_hdf5 raised on a valid write: {r['raised']}")
                if i_ok:
                    occupied.add(loc)
            else:
                if r["got"] is None:
                    if not (isinstance(m, dict) and "err" in m):
                        corr = False
                        cnotes.append(f"op{idx} read: impl raised {r['raised']} model={json.dumps(m)[:120]}")
                    if want is not None:
                        spec = False
                        notes.append(f"op{idx} from_hdf5 raised: {r['raised']}")
                        sites.append("from_hdf5 raised")
                    continue
                if not (isinstance(m, dict) and "obj" in m and self._same_obj(m["obj"], r["got"])):
                    corr = False
                    cnotes.append(f"op{idx} read: model={json.dumps(m)[:300]} impl={json.dumps(r['got'])[:300]}")
                if want is None:
                    continue
                if any(has_other(v) for v in r["got"].values()):
                    spec = False
                    notes.append(f"op{idx} dtype outside the storable vocabulary: "
                                 f"{[k for k, v in r['got'].items() if has_other(v)]}")
                    continue
                s = specs[si]["ok"]
                si += 1
                if not s["ok"]:
                    spec = False
                    notes.append(f"op{idx} read-back differs from the last object written to "
                                 f"{op['group']!r} in {s['diff']}")
                if r.get("same_type") is False:
                    spec = False
                    notes.append(f"op{idx} from_hdf5 returned an object of another class")
                if r.get("state_diff"):
                    spec = False
                    notes.append(f"op{idx} read-back is not observably equal to the object written at {r['state_diff']}")
        nw = {}
        for op in case["ops"]:
            if op["t"] == "w":
                nw[norm_group(op["group"])] = nw.get(norm_group(op["group"]), 0) + 1
        nontriv = any(v >= 2 for v in nw.values()) or any(
            op["t"] == "w" and sum(1 for v in op["fields"].values() if v is not None) >= 5 for op in case["ops"])
        site = "other" if not spec else None
        return {"corr": corr, "spec": spec, "nontrivial": nontriv, "site": site,
                "detail": "h5 " + "; ".join(notes + cnotes)[:1500]}

    @staticmethod
    def _same_obj(a, b):
        """model object == implementation object (dictionaries as maps)"""
        keys = set(a) | set(b)
        for k in keys:
            x, y = a.get(k), b.get(k)
            if isinstance(x, dict) and "dict" in x and isinstance(y, dict) and "dict" in y:
                if x["dict"] != y["dict"]:
                    return False
            elif x != y:
                return False
        return True

    # ------------------------------------------------------------------ findings, shrinking
    def signature(self, case, obs, verdict):
        sig = {"kind": case.get("kind")}
        if case.get("kind") in ("copy", "frame", "graph", "copyseq"):
            sig["cls"] = case.get("cls")
        if case.get("kind") == "h5":
            sig["site"] = verdict.get("site")
            sig["cond"] = None
        return sig

    def shrink(self, case):
        if case["kind"] == "h5":
            ops = case["ops"]
            used_w = {o.get("reuse") for o in ops if "reuse" in o}
            used_r = {o.get("from_read") for o in ops if "from_read" in o}
            for i in range(len(ops)):
                if len(ops) > 1 and not (ops[i]["t"] == "w" and ops[i].get("id", -1) in used_w) \
                        and not (ops[i]["t"] == "r" and ops[i].get("rid", -1) in used_r):
                    yield {"kind": "h5", "ops": ops[:i] + ops[i + 1:]}
            for i, op in enumerate(ops):
                if op["t"] == "w" and "reuse" not in op and "from_read" not in op:
                    if (op.get("var") or {}).get("prep"):
                        o2 = dict(op, var={k: v for k, v in op["var"].items() if k != "prep"})
                        yield {"kind": "h5", "ops": ops[:i] + [o2] + ops[i + 1:]}
                    for k, v in op["fields"].items():
                        if v is not None and k not in ("mat", "beta", "u_a", "u_d", "location", "scale", "nenv",
                                                       "nrep", "ploidy"):
                            o2 = dict(op)
                            o2["fields"] = {kk: vv for kk, vv in op["fields"].items() if kk != k}
                            o2["var"] = self._prep_for(o2["fields"], op.get("var"))
                            yield {"kind": "h5", "ops": ops[:i] + [o2] + ops[i + 1:]}

        if case["kind"] == "vcf":
            for j in range(len(case["recs"])):
                if len(case["recs"]) > 1:
                    yield dict(case, recs=case["recs"][:j] + case["recs"][j + 1:])
            for i in range(len(case["samples"])):
                if len(case["samples"]) > 1:
                    yield dict(case, samples=case["samples"][:i] + case["samples"][i + 1:],
                               recs=[dict(r, calls=r["calls"][:i] + r["calls"][i + 1:]) for r in case["recs"]])
        if case["kind"] == "copy":
            if (case.get("var") or {}).get("prep"):
                yield dict(case, var={k: v for k, v in case["var"].items() if k != "prep"})
            if case["cls"] in ("sgmap", "egmap"):
                return                                # a map needs all of its arrays
            for k, v in case["fields"].items():
                if v is not None and k not in ("mat", "beta", "u_a", "u_d", "location", "scale", "nenv", "nrep",
                                               "ploidy"):
                    f2 = {kk: vv for kk, vv in case["fields"].items() if kk != k}
                    yield dict(case, fields=f2, var=self._prep_for(f2, case.get("var")))

    PREP_NEEDS = {"sort_taxa": [["taxa"], ["taxa_grp"]], "group_taxa": [["taxa_grp"]],
                  "sort_vrnt": [["vrnt_chrgrp", "vrnt_phypos"]], "group_vrnt": [["vrnt_chrgrp", "vrnt_phypos"]]}

    @classmethod
    def _prep_for(cls, fields, var):
        """the in-place steps of `var` that still make sense for an object reduced to `fields` (a shrunk case must
        stay a VALID input: `sort_taxa` without taxa raises on correct code as well)"""
        if not var or not var.get("prep"):
            return var
        has = lambda k: fields.get(k) is not None
        keep = []
        for e in var["prep"]:
            if e["t"] == "call" and e["k"] in cls.PREP_NEEDS and not any(all(has(k) for k in alt)
                                                                          for alt in cls.PREP_NEEDS[e["k"]]):
                continue
            if e["t"] in ("bump", "set") and e["k"] in ("taxa", "trait", "hyperparams") and not has(e["k"]):
                continue
            keep.append(e)
        return dict(var, prep=keep)

    def mutants(self):
        import sys
        M = _mods()
        h5util = M["h5util"]

        @contextlib.contextmanager
        def patch_name(name, new, home=None):
            """replace a function imported by name, in every pybrops module that holds it"""
            old = getattr(home or h5util, name)
            touched = []
            for mn, mod in list(sys.modules.items()):
                if mn.startswith("pybrops") and mod is not None and getattr(mod, name, None) is old:
                    setattr(mod, name, new)
                    touched.append(mod)
            try:
                yield
            finally:
                for mod in touched:
                    setattr(mod, name, old)

        @contextlib.contextmanager
        def patch_attr(obj, name, new):
            old = obj.__dict__[name] if name in obj.__dict__ else getattr(obj, name)
            had = name in obj.__dict__
            setattr(obj, name, new)
            try:
                yield
            finally:
                if had:
                    setattr(obj, name, old)
                else:
                    delattr(obj, name)

        # --- mechanism 1: write_dict -------------------------------------------------------------
        def write_no_delete(h5file, groupname, in_dict, overwrite=True):
            for key, item in in_dict.items():
                if item is None:
                    continue
                fieldname = groupname + key
                if isinstance(item, h5util.writable_classes):
                    h5file.create_dataset(fieldname, data=item)          # existing dataset not deleted first
                elif isinstance(item, dict):
                    write_no_delete(h5file, fieldname + "/", item)
                else:
                    raise ValueError("cannot save")

        def write_keep_first(h5file, groupname, in_dict, overwrite=True):
            for key, item in in_dict.items():
                if item is None:
                    continue
                fieldname = groupname + key
                if isinstance(item, h5util.writable_classes):
                    if fieldname in h5file:
                        if not overwrite:
                            raise ValueError("name already exists")
                        continue                                          # silently keeps the old dataset
                    h5file.create_dataset(fieldname, data=item)
                elif isinstance(item, dict):
                    write_keep_first(h5file, fieldname + "/", item)
                else:
                    raise ValueError("cannot save")

        def write_in_place(h5file, groupname, in_dict, overwrite=True):
            # an existing dataset of the same shape and dtype kind is overwritten in place: the stored
            # width (float32 / int32) silently narrows the new values
            import h5py
            rest = {}
            for key, item in in_dict.items():
                fieldname = groupname + key
                if (overwrite and isinstance(item, numpy.ndarray) and fieldname in h5file
                        and isinstance(h5file[fieldname], h5py.Dataset) and h5file[fieldname].shape == item.shape
                        and h5file[fieldname].dtype.kind == item.dtype.kind and item.dtype.kind in "fi"):
                    h5file[fieldname][...] = item
                    rest[key] = None if False else "__skip__"
                else:
                    rest[key] = item
            keep = {k: v for k, v in rest.items() if not (isinstance(v, str) and v == "__skip__")}
            return h5util.h5py_File_write_dict(h5file, groupname, keep, overwrite)

        def write_wrong_group(h5file, groupname, in_dict, overwrite=True):
            # every group collapses onto its last component: "a/b/" and "x/b/" share a location
            g = groupname.rstrip("/").split("/")[-1]
            return h5util.h5py_File_write_dict(h5file, (g + "/") if g else "", in_dict, overwrite)

        # --- mechanism 2: typed readers ------------------------------------------------------------
        def utf8_no_decode(h5file, fieldname):
            out = h5file[fieldname][()]
            return numpy.array([s for s in out], dtype=object)

        orig_read = h5util.h5py_File_read_ndarray

        def read_grp_as_float(h5file, fieldname):
            out = orig_read(h5file, fieldname)
            if fieldname.endswith("taxa_grp"):
                out = out.astype(float)
            return out

        def read_int8_plus(h5file, fieldname):
            out = h5file[fieldname][()].astype("int8")
            return numpy.ascontiguousarray(out[..., ::-1])               # variants in reverse order

        orig_int = h5util.h5py_File_read_int

        def read_int_off(h5file, fieldname):
            return orig_int(h5file, fieldname) + 1

        # --- mechanism 3: data-frame layouts ---------------------------------------------------------
        SG, BV, CM = M["sgmap"], M["bvmat"], M["cmat"]
        sg_to_pandas = SG.to_pandas

        def sg_to_pandas_factor(self, *a, **kw):
            df = sg_to_pandas(self, *a, **kw)
            if kw.get("vrnt_genpos_units", "cM") in ("cM", "centiMorgans"):
                df.iloc[:, 2] = df.iloc[:, 2] / 10.0
            return df

        bv_to_pandas = BV.to_pandas

        def bv_to_pandas_scaled(self, *a, **kw):
            kw["unscale"] = False
            return bv_to_pandas(self, *a, **kw)

        cm_from_pandas = CM.from_pandas.__func__

        def cm_from_pandas_transposed(cls, df, *a, **kw):
            out = cm_from_pandas(cls, df, *a, **kw)
            out.mat = numpy.ascontiguousarray(out.mat.T)
            return out

        # --- mechanism 4: copies -------------------------------------------------------------------
        PG = M["pgmat"]
        pg_deep = PG.__deepcopy__

        def pg_deep_shared(self, memo=None):
            out = pg_deep(self, memo)
            out._mat = self._mat                                         # the same array object
            return out

        AL = M["algmod"]
        al_deep = AL.__deepcopy__

        def al_deep_shallow_params(self, memo=None):
            out = al_deep(self, memo)
            out._params = dict(self._params)                             # nested arrays shared
            return out

        GE = M["ge"]
        ge_deep = GE.__deepcopy__

        def ge_deep_shares_model(self, memo=None):
            out = ge_deep(self, memo)
            out._gpmod = self._gpmod                                     # the bound genomic model is shared
            return out

        def al_deep_no_memo(self, memo=None):
            return al_deep(self, None)                                   # aliasing between attributes is lost

        bv_copy = BV.__copy__

        def bv_copy_drops_trait(self):
            out = bv_copy(self)
            out._trait = None
            return out

        # --- mechanism 5: VCF ------------------------------------------------------------------------
        import cyvcf2

        def from_vcf_shifted(cls, filename, auto_group_vrnt=True):
            vcf = cyvcf2.VCF(filename)
            taxa = numpy.array(vcf.samples, dtype=object)
            mat, chrgrp, phypos, name = [], [], [], []
            for variant in vcf:
                chrgrp.append(int(variant.CHROM))
                phypos.append(variant.POS)
                name.append(str(variant.ID))
                phases = numpy.int8(variant.genotypes)
                mat.append(phases[:, 1:3].copy())                         # allele 1 and the "phased" flag
            mat = numpy.int8(mat).transpose(2, 1, 0)
            out = cls(mat=mat, vrnt_chrgrp=numpy.int64(chrgrp), vrnt_phypos=numpy.int64(phypos),
                      vrnt_name=numpy.array(name, dtype=object), taxa=taxa)
            if auto_group_vrnt:
                out.group_vrnt()
            return out

        pg_from_vcf = PG.from_vcf.__func__

        def from_vcf_labels_unsorted(cls, filename, auto_group_vrnt=True):
            out = pg_from_vcf(cls, filename, auto_group_vrnt=False)
            if auto_group_vrnt:
                names = out.vrnt_name.copy()
                out.group_vrnt()
                out._vrnt_name = names                                   # names keep the file order
            return out

        # --- round 3: mechanisms behind the listed misses and the histories / layouts / magnitudes / sizes --------
        import unicodedata
        import pybrops.core.util.array as arrutil

        sg_deep = SG.__deepcopy__

        def sg_deep_rebuild(self, memo=None):
            out = sg_deep(self, memo)
            if self.has_spline():
                out.build_spline(self.spline_kind, self.spline_fill_value)     # fitted afresh instead of copied
            return out

        def sg_deep_shared_spline(self, memo=None):
            out = sg_deep(self, memo)
            out._spline = self._spline                                           # the same dictionary
            return out

        sg_copy = SG.__copy__

        def sg_copy_default_kind(self):
            out = sg_copy(self)
            out._spline_kind = "linear"                                          # the parameter is not carried over
            return out

        def flattenix_memory_order(arr):
            xi = tuple(numpy.arange(n) for n in arr.shape)
            mesh = numpy.meshgrid(*xi, indexing="ij")
            return arr.ravel(order="K"), tuple(m.flatten("C") for m in mesh)

        def utf8_nfc(h5file, fieldname):
            out = h5file[fieldname][()]
            return numpy.array([unicodedata.normalize("NFC", x.decode("utf-8")) if isinstance(x, bytes) else x
                                for x in out], dtype=object)

        def utf8_strip(h5file, fieldname):
            out = h5file[fieldname][()]
            return numpy.array([x.decode("utf-8").strip() if isinstance(x, bytes) else x for x in out], dtype=object)

        def utf8_lower(h5file, fieldname):
            out = h5file[fieldname][()]
            return numpy.array([x.decode("utf-8").lower() if isinstance(x, bytes) else x for x in out], dtype=object)

        def read_nan_to_num(h5file, fieldname):
            out = orig_read(h5file, fieldname)
            return numpy.nan_to_num(out) if out.dtype.kind == "f" else out

        bv_to_hdf5 = BV.to_hdf5

        def bv_to_hdf5_once(self, filename, groupname=None, overwrite=True):
            done = self.__dict__.setdefault("_saved_to", set())
            if groupname in done:
                return                                                           # "already saved"
            bv_to_hdf5(self, filename, groupname, overwrite)
            done.add(groupname)

        cm_to_csv = CM.to_csv

        def cm_to_csv_10g(self, filename, *a, **kw):
            kw["float_format"] = "%.10g"
            return cm_to_csv(self, filename, *a, **kw)

        VM = M["vmat"]
        vm_to_pandas = VM.to_pandas

        def vm_to_pandas_cached(self, *a, **kw):
            key = "_frame_cache"
            if key not in self.__dict__:
                self.__dict__[key] = vm_to_pandas(self, *a, **kw)
            return self.__dict__[key].copy()

        VM3 = M["vmat3"]
        vm3_to_pandas = VM3.to_pandas

        def vm3_to_pandas_swapped(self, *a, **kw):
            df = vm3_to_pandas(self, *a, **kw)
            fc, mc = kw.get("female_col", "female"), kw.get("male_col", "male")
            f = df[fc].copy()
            df[fc] = df[mc]
            df[mc] = f
            return df

        def write_truncate_large(h5file, groupname, in_dict, overwrite=True):
            d2 = {}
            for k, v in in_dict.items():
                if isinstance(v, numpy.ndarray) and v.size > 4096 and v.dtype.kind in "fi":
                    v = v.copy()
                    v.reshape(-1)[4096:] = 0                                     # a chunk that is never flushed
                d2[k] = v
            return h5util.h5py_File_write_dict(h5file, groupname, d2, overwrite)

        bv_from_csv = BV.from_csv.__func__

        def bv_from_csv_comma(cls, filename, *a, **kw):
            kw.pop("sep", None)                                                   # the separator option is ignored
            return bv_from_csv(cls, filename, *a, **kw)

        def from_vcf_first_255(cls, filename, auto_group_vrnt=True):
            out = pg_from_vcf(cls, filename, auto_group_vrnt=False)
            if out.nvrnt > 255:
                out = out.select_vrnt(numpy.arange(255))                         # an 8-bit record counter
            if auto_group_vrnt:
                out.group_vrnt()
            return out

        # --- round 4: the classes behind D30 and the second batch of independent changes; base classes -----------
        import importlib
        import pathlib
        TP, GM, EG = M["tp"], M["gmat"], M["egmap"]
        mod_of = lambda cls: importlib.import_module(cls.__module__)

        def tp_to_hdf5_no_group(self, filename, groupname=None, overwrite=True):
            # the protocol writes nothing and does not make its group either (D30 before the repair)
            if isinstance(filename, (str, pathlib.Path)):
                M["h5py"].File(filename, "a").close()

        def write_meta_only_when_present(h5file, groupname, in_dict, overwrite=True):
            # the class hands over the group metadata only when there are any: an ungrouped object written over a
            # grouped one no longer deletes the four datasets
            d2 = {k: v for k, v in in_dict.items() if not (v is None and k.startswith("taxa_grp_"))}
            return h5util.h5py_File_write_dict(h5file, groupname, d2, overwrite)

        def write_scale_snapped(h5file, groupname, in_dict, overwrite=True):
            d2 = dict(in_dict)
            if isinstance(d2.get("scale"), numpy.ndarray):
                d2["scale"] = numpy.where(numpy.isclose(d2["scale"], 1.0), 1.0, d2["scale"])
            return h5util.h5py_File_write_dict(h5file, groupname, d2, overwrite)

        gm_from_vcf = GM.from_vcf.__func__

        def from_vcf_primary_id(cls, filename, auto_group_vrnt=True):
            out = gm_from_vcf(cls, filename, auto_group_vrnt=auto_group_vrnt)
            out._vrnt_name = numpy.array([x.split(";")[0] for x in out.vrnt_name], dtype=object)
            return out

        def from_vcf_drop_filtered(cls, filename, auto_group_vrnt=True):
            keep = [i for i, v in enumerate(cyvcf2.VCF(filename)) if v.FILTER is None]
            out = pg_from_vcf(cls, filename, auto_group_vrnt=False)
            if 0 < len(keep) < out.nvrnt:
                out = out.select_vrnt(numpy.array(keep))
            if auto_group_vrnt:
                out.group_vrnt()
            return out

        gm_to_hdf5 = GM.to_hdf5

        def gm_to_hdf5_truncating(self, filename, groupname=None, overwrite=True):
            if isinstance(filename, (str, pathlib.Path)) and os.path.exists(filename):
                os.remove(filename)                                          # file opened with "w" instead of "a"
            return gm_to_hdf5(self, filename, groupname, overwrite)

        orig_read_dict = h5util.h5py_File_read_dict

        def read_dict_floats(h5file, fieldname):
            out = orig_read_dict(h5file, fieldname)
            return {k: (float(v) if isinstance(v, numpy.number) else v) for k, v in out.items()}

        eg_to_pandas = EG.to_pandas

        def eg_to_pandas_stop_is_pos(self, *a, **kw):
            df = eg_to_pandas(self, *a, **kw)
            df[kw.get("vrnt_stop_col", "stop")] = df[kw.get("vrnt_phypos_col", "pos")]
            return df

        TT, VR, SQ4 = M["ttmat"], M["vrmat"], M["sq4"]

        def raw_as_object(h5file, fieldname):
            return numpy.array(h5file[fieldname][()], dtype=object)          # bytes, not str

        vr_deep = VR.__deepcopy__

        def vr_deep_shares_mask(self, memo=None):
            out = vr_deep(self, memo)
            out._vrnt_mask = self._vrnt_mask
            return out

        sq4_copy = SQ4.__copy__

        def sq4_copy_spix_from_stix(self):
            out = sq4_copy(self)
            out._taxa_grp_spix = pycopy.copy(self._taxa_grp_stix)
            return out

        DM = M["dmat"]
        dm_deep = DM.__deepcopy__

        def dm_deep_view(self, memo=None):
            out = dm_deep(self, memo)
            out._mat = self._mat[...]                                        # a view of the source buffer
            return out

        sg_from_pandas = SG.from_pandas.__func__

        def sg_from_pandas_positions_shifted(cls, df, *a, **kw):
            # a column given by POSITION is looked up one place to the left for the genetic positions
            if isinstance(kw.get("vrnt_genpos_col"), int) and kw["vrnt_genpos_col"] > 0:
                kw["vrnt_genpos_col"] -= 1
            return sg_from_pandas(cls, df, *a, **kw)

        # --- round 5 ---------------------------------------------------------------------------
        shared_memo = {}

        def dm_deepcopy_shared_default_memo(self, memo=None):
            # `memo: dict = {}`: ONE dictionary for all calls without a memo argument
            return pycopy.deepcopy(self, shared_memo if memo is None else memo)

        def vm_to_pandas_skips_missing(self, *a, **kw):
            df = vm_to_pandas(self, *a, **kw)
            vc = kw.get("variance_col", "variance")
            return df[~df[vc].isna()].reset_index(drop=True)

        cm_from_pandas0 = CM.from_pandas.__func__

        def cm_from_pandas_dropna(cls, df, *a, **kw):
            return cm_from_pandas0(cls, df.dropna(), *a, **kw)

        round5 = [
            ("base_matrix_deepcopy_method_shared_default_memo", lambda: patch_attr(DM, "deepcopy", dm_deepcopy_shared_default_memo)),
            ("vmat_to_pandas_skips_missing_estimates", lambda: patch_attr(VM, "to_pandas", vm_to_pandas_skips_missing)),
            ("cmat_from_pandas_drops_incomplete_rows", lambda: patch_attr(CM, "from_pandas", classmethod(cm_from_pandas_dropna))),
        ]

        round4 = [
            ("gmap_from_pandas_integer_column_shifted", lambda: patch_attr(SG, "from_pandas", classmethod(sg_from_pandas_positions_shifted))),
            ("tp_to_hdf5_makes_no_group", lambda: patch_attr(TP, "to_hdf5", tp_to_hdf5_no_group)),
            ("taxa_matrix_metadata_only_when_grouped",
             lambda: patch_attr(mod_of(M["tmat"]), "h5py_File_write_dict", write_meta_only_when_present)),
            ("bv_scale_snapped_to_one", lambda: patch_attr(mod_of(BV), "h5py_File_write_dict", write_scale_snapped)),
            ("vcf_unphased_primary_identifier_only", lambda: patch_attr(GM, "from_vcf", classmethod(from_vcf_primary_id))),
            ("vcf_filtered_records_dropped", lambda: patch_attr(PG, "from_vcf", classmethod(from_vcf_drop_filtered))),
            ("to_hdf5_truncates_the_file", lambda: patch_attr(GM, "to_hdf5", gm_to_hdf5_truncating)),
            ("read_dict_numbers_as_float", lambda: patch_name("h5py_File_read_dict", read_dict_floats)),
            ("egmap_stop_column_from_positions", lambda: patch_attr(EG, "to_pandas", eg_to_pandas_stop_is_pos)),
            ("base_taxa_trait_reader_bytes",
             lambda: patch_attr(mod_of(TT), "h5py_File_read_ndarray_utf8", raw_as_object)),
            ("base_variant_deepcopy_shares_mask", lambda: patch_attr(VR, "__deepcopy__", vr_deep_shares_mask)),
            ("base_sq4_copy_spix_from_stix", lambda: patch_attr(SQ4, "__copy__", sq4_copy_spix_from_stix)),
            ("base_matrix_deepcopy_returns_view", lambda: patch_attr(DM, "__deepcopy__", dm_deep_view)),
        ]

        return round5 + round4 + [
            ("write_dict_skip_delete_existing", lambda: patch_name("h5py_File_write_dict", write_no_delete)),
            ("write_dict_keep_first_dataset", lambda: patch_name("h5py_File_write_dict", write_keep_first)),
            ("write_dict_group_collapsed", lambda: patch_name("h5py_File_write_dict", write_wrong_group)),
            ("write_dict_in_place_narrowing", lambda: patch_name("h5py_File_write_dict", write_in_place)),
            ("reader_utf8_no_decode", lambda: patch_name("h5py_File_read_ndarray_utf8", utf8_no_decode)),
            ("reader_taxa_grp_as_float", lambda: patch_name("h5py_File_read_ndarray", read_grp_as_float)),
            ("reader_int8_reversed", lambda: patch_name("h5py_File_read_ndarray_int8", read_int8_plus)),
            ("reader_int_off_by_one", lambda: patch_name("h5py_File_read_int", read_int_off)),
            ("frame_gmap_cM_factor", lambda: patch_attr(SG, "to_pandas", sg_to_pandas_factor)),
            ("frame_bv_ignores_unscale", lambda: patch_attr(BV, "to_pandas", bv_to_pandas_scaled)),
            ("frame_cmat_transposed", lambda: patch_attr(CM, "from_pandas", classmethod(cm_from_pandas_transposed))),
            ("deepcopy_same_array", lambda: patch_attr(PG, "__deepcopy__", pg_deep_shared)),
            ("deepcopy_shallow_hyperparams", lambda: patch_attr(AL, "__deepcopy__", al_deep_shallow_params)),
            ("copy_drops_trait", lambda: patch_attr(BV, "__copy__", bv_copy_drops_trait)),
            ("deepcopy_shares_bound_model", lambda: patch_attr(GE, "__deepcopy__", ge_deep_shares_model)),
            ("deepcopy_drops_memo", lambda: patch_attr(AL, "__deepcopy__", al_deep_no_memo)),
            ("vcf_genotypes_1_3", lambda: patch_attr(PG, "from_vcf", classmethod(from_vcf_shifted))),
            ("vcf_names_not_reordered", lambda: patch_attr(PG, "from_vcf", classmethod(from_vcf_labels_unsorted))),
            # round 3
            ("gmap_deepcopy_rebuilds_spline", lambda: patch_attr(SG, "__deepcopy__", sg_deep_rebuild)),
            ("gmap_deepcopy_shares_spline_dict", lambda: patch_attr(SG, "__deepcopy__", sg_deep_shared_spline)),
            ("gmap_copy_drops_spline_kind", lambda: patch_attr(SG, "__copy__", sg_copy_default_kind)),
            ("flattenix_memory_order", lambda: patch_name("flattenix", flattenix_memory_order, arrutil)),
            ("reader_utf8_nfc_normalised", lambda: patch_name("h5py_File_read_ndarray_utf8", utf8_nfc)),
            ("reader_utf8_stripped", lambda: patch_name("h5py_File_read_ndarray_utf8", utf8_strip)),
            ("reader_utf8_lowercased", lambda: patch_name("h5py_File_read_ndarray_utf8", utf8_lower)),
            ("reader_nan_to_num", lambda: patch_name("h5py_File_read_ndarray", read_nan_to_num)),
            ("to_hdf5_saved_once_per_object", lambda: patch_attr(BV, "to_hdf5", bv_to_hdf5_once)),
            ("to_csv_ten_significant_digits", lambda: patch_attr(CM, "to_csv", cm_to_csv_10g)),
            ("to_pandas_cached_on_object", lambda: patch_attr(VM, "to_pandas", vm_to_pandas_cached)),
            ("three_way_female_male_swapped", lambda: patch_attr(VM3, "to_pandas", vm3_to_pandas_swapped)),
            ("write_dict_truncates_past_4096", lambda: patch_name("h5py_File_write_dict", write_truncate_large)),
            ("from_csv_ignores_sep", lambda: patch_attr(BV, "from_csv", classmethod(bv_from_csv_comma))),
            ("vcf_first_255_records", lambda: patch_attr(PG, "from_vcf", classmethod(from_vcf_first_255))),
        ]


PROP = C16()
