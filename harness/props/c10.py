"""C10 — selection limits bound every attainable value and only ever tighten.

Implementation under test: DenseAdditiveLinearGenomicModel.usl/lsl/usl_numpy/lsl_numpy/gebv/gebv_numpy,
the afreq() they call, select_taxa, and the seven mating protocols driven by real numpy generators.
Model: Model/SelLimit.lean (`c10.limits` - also for a model object with a history of in-place edits -, `c10.mate`); Spec: `c10.spec` evaluated on the implementation's
whole trajectory (raw genotypes of every generation + reported limits and breeding values).
"""
import contextlib
from fractions import Fraction

import numpy

from .. import canon, compat
from ..core import Prop

compat.install()

BOUNDARY_N = [49, 98, 103, 107, 161, 187, 196, 197]
PROTOCOLS = {"SelfCross": 1, "TwoWayCross": 2, "TwoWayDHCross": 2, "ThreeWayCross": 3,
             "ThreeWayDHCross": 3, "FourWayCross": 4, "FourWayDHCross": 4}
TOL = Fraction(1, 10 ** 9)
MAX_DRAWS_FUNCTIONAL = 900      # mating is compared functionally (scripted draws) up to this many uniforms
IDX_DTYPES = ["int64", "int32", "int16", "int8", "uint8", "uint16", "uint32"]
# read-only statistics interleaved with the limit evaluations (a cache primed or corrupted by one of them must not
# change what usl/lsl/afreq report afterwards)
TOUCH = [["afreq", None], ["afreq", "float32"], ["maf", None], ["maf", "float32"], ["meh", None], ["apoly", None],
         ["afixed", None], ["acount", None], ["tafreq", None], ["gtcount", None], ["gtfreq", None], ["tacount", None]]


def _mods():
    compat.import_pybrops()
    import pybrops.model.gmod.DenseAdditiveLinearGenomicModel as gmod
    import pybrops.popgen.gmat.DenseGenotypeMatrix as ug
    import pybrops.popgen.gmat.DensePhasedGenotypeMatrix as pg
    import pybrops.breed.prot.mate.util as mutil
    import pybrops.breed.prot.mate as mate
    import importlib
    prots = {name: getattr(importlib.import_module("pybrops.breed.prot.mate." + name), name) for name in PROTOCOLS}
    return gmod, ug, pg, mutil, prots


def _f(x):
    return float(Fraction(x))


def _layout(a, how):
    """the same int8 values in another memory layout (the constructors accept any int8 ndarray)"""
    a = numpy.ascontiguousarray(a, dtype="int8")
    if how == "F":
        return numpy.asfortranarray(a)
    if how == "strided":
        big = numpy.full(a.shape[:-1] + (2 * a.shape[-1],), 7, dtype="int8")
        v = big[..., ::2]
        v[...] = a
        return v
    if how == "rev":
        return numpy.ascontiguousarray(a[..., ::-1])[..., ::-1]
    return a


class RecordingGenerator(numpy.random.Generator):
    """a genuine numpy Generator (PCG64) that also logs every uniform matrix it hands out"""

    def __init__(self, seed):
        super().__init__(numpy.random.PCG64(seed))
        self.log = []

    def uniform(self, low=0.0, high=1.0, size=None):
        r = super().uniform(low, high, size)
        self.log.append(numpy.array(r, copy=True))
        return r


class RecordingRandomState(numpy.random.RandomState):
    """the legacy generator type the protocols also accept"""

    def __init__(self, seed):
        super().__init__(seed)
        self.log = []

    def uniform(self, low=0.0, high=1.0, size=None):
        r = super().uniform(low, high, size)
        self.log.append(numpy.array(r, copy=True))
        return r


class RecordingMT(numpy.random.Generator):
    def __init__(self, seed):
        super().__init__(numpy.random.MT19937(seed))
        self.log = []

    def uniform(self, low=0.0, high=1.0, size=None):
        r = super().uniform(low, high, size)
        self.log.append(numpy.array(r, copy=True))
        return r


class ScriptedGenerator(numpy.random.Generator):
    """a numpy Generator whose `uniform` hands out boundary values on purpose: exactly 0.0, exactly the
    crossover probability of the marker (tie: `rnd < xoprob` is False), the float just below it (crossover),
    1 - 2^-53, and ordinary values — chosen by a seeded python PRNG; everything it returns is logged"""

    def __init__(self, seed, xo):
        super().__init__(numpy.random.PCG64(seed))
        import random as _random
        self._r = _random.Random(seed)
        self._xo = numpy.asarray(xo, dtype=float)
        self.log = []
        self.nties = 0
        self.nzero = 0

    def uniform(self, low=0.0, high=1.0, size=None):
        out = numpy.empty(size, dtype=float)
        nr, nc = out.shape
        for i in range(nr):
            for j in range(nc):
                c = self._r.random()
                x = self._xo[j]
                if c < 0.2:
                    v = 0.0
                    self.nzero += 1
                elif c < 0.45:
                    v = x if x < 1.0 else 0.5          # tie with the crossover probability
                    self.nties += 1
                elif c < 0.6:
                    v = float(numpy.nextafter(x, 0.0)) if x > 0.0 else 0.0
                elif c < 0.7:
                    v = 1.0 - 2.0 ** -53
                else:
                    v = self._r.random()
                out[i, j] = v
        self.log.append(out.copy())
        return out


RNGS = {"pcg64": RecordingGenerator, "mt19937": RecordingMT, "randomstate": RecordingRandomState}


class C10(Prop):
    PID = "C10"
    MODULE = "PybropsModel.Props.C10"
    N_QUICK = 90
    N_THOROUGH = 2500
    RULE = ("static: one population (phased with 1-4 phases, or unphased dosage with ploidy 1/2/4/6, as object or as "
            "ndarray - with and without the ploidy argument, the ploidy a Python int or a numpy int8 .. int64 scalar) of 1-12 taxa or a boundary size (49, 98, 103, 107, 161, 187, "
            "196, 197), loci from the patterns "
            "fixed-1/fixed-0/one-copy-off/heterozygous/random, a best and a worst genotype added, additive models "
            "with 1-3 traits, effects of both signs and zeros, 1-3 fixed effects, optional metadata (variant mask with False "
            "entries, labels, haplotype annotations) absent or present; fully fixed populations at "
            "every boundary size; populations of 50000 .. 600001 taxa one copy off fixation.  programme: founders -> "
            "[selection -> one of the seven mating protocols with "
            "random cross configuration, counts and selfing depth] x 1-3 generations with a real seeded "
            "generator (Generator/PCG64, Generator/MT19937, RandomState) or a scripted Generator subclass whose uniforms hit "
            "exactly 0.0, exactly xoprob[j] (tie), the float just below it and 1-2^-53, progeny sizes drawn from the boundary "
            "list; features forced in every run: founders whose variants are NOT in (chromosome, position) order; index and "
            "count arrays of narrow integer dtypes on large parent sets (row*nvrnt beyond the dtype range), negative "
            "indices, non-contiguous founder arrays; founders without any homozygous '1' genotype followed by selfing; "
            "selection by IN-PLACE culling (remove_taxa) or delete_taxa with read-only statistics (maf, meh, apoly, "
            "afreq(dtype) ...) interleaved, a doubled-haploid generation culled to ONE line; limits, breeding values and raw "
            "genotypes recorded for founders, every selected parent set and every progeny set, the limits ALSO through the "
            "ndarray form with the default ploidy.  uhist: unphased (ploidy 1/2/4/6) and phased non-diploid (1/3/4 phases) "
            "populations through 1-3 rounds of select_taxa / delete_taxa / remove_taxa.  wide: every protocol with int8 .. "
            "uint64 index arrays on 120 x 7 and 240 x 300 founders.  Model object (every kind, each with probability "
            "0.35): miscellaneous random effects u_misc of 1 .. nv+1 rows in the constructor; a multi-step use of ONE model "
            "object - constructed, optionally asked for limits/values once, then u_a (and beta) edited IN PLACE (a trait's "
            "column multiplied by -1/-2/-1/2/0/2, single effects overwritten, a constant added) through the getter's array, "
            "through the array handed to the constructor, or re-assigned through the setter, optionally copy()/deepcopy()ed "
            "- before the limits and values of the case are requested.  Non-trivial = some "
            "locus polymorphic and some effect non-zero (static) / at least one allele lost along the history "
            "(programme, uhist)")
    TRUSTED = ["numpy generators (their draws are recorded and replayed through the model for small cases)",
               "matrix product Z @ u_a and BreedingValueMatrix scale/unscale round trip (compared with tolerance 1e-9)"]
    ASSUMPTIONS = ["binary alleles, diploid mating, no immigration/mutation (the property's closed-history premise)",
                   "effects and fixed effects are small dyadic rationals, so the limits are exact in binary64",
                   "cross configurations index the selected parent set (valid indices, possibly negative = from the end)",
                   "usl(Z) / lsl(Z) without a ploidy argument are only requested for diploid dosage matrices (the "
                   "documented default is 2)",
                   "the model is edited only BEFORE the first population of a history is evaluated (one additive model per "
                   "history, as the property's quantifier says); edits keep shape and dtype (float64) of u_a / beta",
                   "u_misc: no modelled function takes it (the code's usl/lsl/gebv do not read it) - that it has no influence "
                   "is checked by correspondence and by the Spec on the implementation's outputs only; in Lean only "
                   "C10.marker_block_of_u relates it to u_a",
                   "which Python object aliases which (getter / constructor array / copy) is harness-level: the Lean model of "
                   "the object history (SelLimit.ModelObj, applyEdits) is the sequence of array states"]

    # ------------------------------------------------------------------ generation helpers
    @staticmethod
    def _locus(rng, n, k, pat):
        if pat == "one":
            return [[1] * k for _ in range(n)]
        if pat == "zero":
            return [[0] * k for _ in range(n)]
        if pat == "one_off":
            c = [[1] * k for _ in range(n)]
            c[rng.randrange(n)][rng.randrange(k)] = 0
            return c
        if pat == "zero_off":
            c = [[0] * k for _ in range(n)]
            c[rng.randrange(n)][rng.randrange(k)] = 1
            return c
        if pat == "het":
            out = []
            for _ in range(n):
                c = [1] * (k // 2) + [0] * (k - k // 2)
                rng.shuffle(c)
                out.append(c)
            return out
        pr = rng.choice([0.15, 0.5, 0.85])
        return [[1 if rng.random() < pr else 0 for _ in range(k)] for _ in range(n)]

    @staticmethod
    def _model(rng, nv):
        ntrait = rng.choice([1, 1, 2, 3])
        vals = [-2, -1, Fraction(-1, 2), 0, 0, Fraction(1, 2), 1, 2, 3]
        U = [[rng.choice(vals) for _ in range(ntrait)] for _ in range(nv)]
        q = rng.choice([1, 1, 2, 3])
        beta = [[rng.choice([0, 0, 1, -3, 10, Fraction(5, 2)]) for _ in range(ntrait)] for _ in range(q)]
        extras = {}
        if rng.random() < 0.35:
            # miscellaneous random effects (p_misc x t): part of the model's `u` vector, read by no limit / value
            pm = rng.choice([1, 1, 2, 3, nv, nv + 1])
            extras["u_misc"] = canon.enc([[rng.choice(vals + [5, -4]) for _ in range(ntrait)] for _ in range(pm)])
        if rng.random() < 0.35:
            # a multi-step use of ONE model object: constructed with U0 / beta0, (optionally asked for limits once),
            # then edited IN PLACE through the getter's array / the array handed to the constructor (the model aliases
            # it) / re-assigned through the setter, (optionally copied); U / beta below are the effects AFTER the edits
            eu, eb = [], []
            for _ in range(rng.choice([1, 1, 2, 3])):
                c = rng.random()
                if c < 0.45:        # turn a trait around ('lower is better'): every sign of the column flips
                    eu.append({"op": "scale_col", "t": rng.randrange(ntrait), "c": rng.choice([-1, -1, -1, -2, Fraction(-1, 2), 0, 2])})
                elif c < 0.8:
                    eu.append({"op": "set", "j": rng.randrange(nv), "t": rng.randrange(ntrait), "v": rng.choice(vals)})
                else:
                    eu.append({"op": "add", "v": rng.choice([1, -1, Fraction(1, 2), -2, Fraction(-5, 2)])})
            if rng.random() < 0.4:
                eb.append(rng.choice([{"op": "add", "v": rng.choice([1, -2, Fraction(1, 2)])},
                                      {"op": "scale_col", "t": rng.randrange(ntrait), "c": rng.choice([-1, 2, 0])},
                                      {"op": "set", "j": rng.randrange(q), "t": rng.randrange(ntrait), "v": rng.choice([7, -1, 0])}]))
            extras["model_ops"] = {"U0": canon.enc(U), "beta0": canon.enc(beta), "edits_u": canon.enc(eu), "edits_b": canon.enc(eb),
                                   "via": rng.choice(["getter", "getter", "ctor", "setter"]),
                                   "prime": rng.random() < 0.6, "then": rng.choice([None, None, "copy", "deepcopy"])}
            U, beta = C10._apply_edits(U, eu), C10._apply_edits(beta, eb)
        return ntrait, canon.enc(U), canon.enc(beta), extras

    @staticmethod
    def _apply_edits(M, edits):
        """the matrix after the in-place edits, in exact arithmetic (mirror of SelLimit.applyEdits)"""
        M = [[Fraction(v) for v in r] for r in M]
        for e in edits:
            if e["op"] == "scale_col":
                for r in M:
                    r[e["t"]] = r[e["t"]] * Fraction(e["c"])
            elif e["op"] == "set":
                M[e["j"]][e["t"]] = Fraction(e["v"])
            elif e["op"] == "add":
                M = [[v + Fraction(e["v"]) for v in r] for r in M]
            else:
                raise ValueError(e["op"])
        return M

    @staticmethod
    def _meta(rng, nt, nv):
        """optional metadata of a genotype matrix object (all of it is None by default): labels, a variant mask with
        False entries, haplotype annotations.  None of it may influence limits, frequencies or breeding values."""
        m = {"vrnt_mask": [rng.random() < 0.5 for _ in range(nv)]}
        if nv >= 2:
            m["vrnt_mask"][rng.randrange(nv)] = False
        if rng.random() < 0.6:
            m["taxa"] = [f"t{(7 * i + 3) % (nt + 5)}_{i}" for i in range(nt)]
            m["taxa_grp"] = [rng.choice([5, 2, 9]) for _ in range(nt)]
        if rng.random() < 0.6:
            m["vrnt_name"] = [f"m{(5 * j + 2) % (nv + 3)}_{j}" for j in range(nv)]
            m["vrnt_genpos"] = [rng.choice([0.0, 0.25, 0.5, 1.5]) for _ in range(nv)]
            m["vrnt_hapgrp"] = [rng.choice([1, 2, 3]) for _ in range(nv)]
            m["vrnt_hapalt"] = [rng.choice("ACGT") for _ in range(nv)]
            m["vrnt_hapref"] = [rng.choice("ACGT") for _ in range(nv)]
        return m

    @staticmethod
    def _meta_kw(meta):
        if not meta:
            return {}
        dt = {"taxa": object, "taxa_grp": "int64", "vrnt_name": object, "vrnt_genpos": "float64", "vrnt_hapgrp": "int64",
              "vrnt_hapalt": object, "vrnt_hapref": object, "vrnt_mask": bool, "vrnt_chrgrp": "int64", "vrnt_phypos": "int64"}
        return {k: numpy.array(v, dtype=dt[k]) for k, v in meta.items()}

    def _static(self, rng, n, fixed_only=False):
        kind = rng.choice(["phased", "phased", "unphased", "ndarray"])
        k = rng.choice([1, 2, 2, 2, 3, 4]) if kind == "phased" else rng.choice([1, 2, 2, 4, 6])
        nv = rng.choice([1, 2, 3, 4, 5])
        pats = [rng.choice(["one", "zero"] if fixed_only else
                           ["one", "zero", "one_off", "zero_off", "het", "rand", "rand"]) for _ in range(nv)]
        loci = [self._locus(rng, n, k, p) for p in pats]
        ntrait, U, beta, extras = self._model(rng, nv)
        rows = [[loci[j][i] for j in range(nv)] for i in range(n)]        # [taxon][locus][copy]
        if not fixed_only and n >= 3:
            # a best and a worst genotype for trait 0 among the alleles present (makes the bracket tight)
            u0 = [Fraction(r[0]) for r in canon.dec(U)]
            for i, sign in ((0, 1), (1, -1)):
                for j in range(nv):
                    present = {a for r in rows for a in r[j]}
                    want = 1 if sign * u0[j] > 0 else 0
                    if want in present:
                        rows[i][j] = [want] * k
        if kind == "phased":
            pop = {"nt": n, "G": [[[rows[i][j][c] for j in range(nv)] for i in range(n)] for c in range(k)]}
        else:
            pop = {"nt": n, "ploidy": k, "Z": [[sum(rows[i][j]) for j in range(nv)] for i in range(n)]}
        c = {"kind": "static", "path": kind, "nv": nv, "ntrait": ntrait, "U": U, "beta": beta, "pop": pop}
        c.update(extras)
        if kind == "ndarray" and k == 2 and rng.random() < 0.5:
            c["noploidy"] = True            # usl(Z) / lsl(Z): the documented default ploidy is 2
        elif kind == "ndarray" and rng.random() < 0.6:
            # the ploidy handed over as a numpy integer scalar (an Integral; e.g. Z.max()): ploidy * n leaves the range of
            # int8 from 64 diploid taxa on
            c["ploidy_np"] = rng.choice(["int8", "int8", "uint8", "int16", "int32", "int64"])
        if kind != "ndarray" and rng.random() < 0.4:
            c["meta"] = self._meta(rng, n, nv)
        return c

    FEATURES = ("unsorted", "narrow", "testcross", "inplace")

    def _programme(self, rng, tier, feat=()):
        """a closed breeding programme.  Optional features (each forced at least once per run, see `generate`):
        unsorted  - founders whose variants are NOT stored in (chromosome, position) order (chromosome 3 before 1) and
                    5-7 loci of which at least two are fixed at 1 and two at 0 (a permuted variant axis then shows)
        narrow    - selection / cross-configuration / count arrays in a narrow integer dtype (int8, uint8, int16 ...)
                    with a large selected parent set, crosses among its LAST rows (row * nvrnt exceeds the dtype range)
        testcross - founders that carry no homozygous '1' genotype anywhere (hybrids against a '0' tester), then a
                    protocol with selfing: homozygotes appear in the progeny
        inplace   - selection by IN-PLACE culling (remove_taxa on the same object) or delete_taxa, read-only statistics
                    (maf, meh, apoly, afreq(dtype) ...) interleaved with the limit evaluations, and a doubled-haploid
                    generation culled down to ONE line (a fully fixed population)"""
        feat = set(feat)
        wide = bool(feat & {"unsorted", "narrow"})
        nv = rng.choice([5, 6, 7]) if wide else rng.choice([2, 3, 4, 5])
        if "narrow" in feat:
            n0 = rng.choice([49, 98, 103, 107])
        else:
            n0 = rng.choice([3, 4, 6, 8, 12, rng.choice(BOUNDARY_N)])
        pats = [rng.choice(["one", "zero", "one_off", "zero_off", "het", "rand", "rand", "rand"]) for _ in range(nv)]
        if wide:
            pats = ["one", "zero", "one", "zero"] + [rng.choice(["rand", "het", "one_off", "rand"]) for _ in range(nv - 4)]
            rng.shuffle(pats)
        loci = [self._locus(rng, n0, 2, p) for p in pats]
        G = [[[loci[j][i][c] for j in range(nv)] for i in range(n0)] for c in range(2)]
        if "testcross" in feat:             # phase 1 = the tester (allele 0 everywhere): no dosage 2 anywhere
            G[1] = [[0] * nv for _ in range(n0)]
            if not any(any(r) for r in G[0]):
                G[0][0] = [1] * nv
        ntrait, U, beta, extras = self._model(rng, nv)
        xo = [rng.choice([0.5, 0.5, 0.25, 0.1, 0.0, 0.375]) for _ in range(nv)]
        xo[0] = 0.5
        gens = []
        n = maxn = n0
        ngen = rng.choice([1, 2, 2, 3])
        if "inplace" in feat:
            ngen = max(ngen, 2)
        for gi in range(ngen):
            nsel = rng.choice([1, 2, 2, 3, 4, min(n, 6)])
            nsel = max(1, min(nsel, n))
            if "inplace" in feat and gi > 0 and gens[-1]["protocol"].endswith("DHCross") and rng.random() < 0.7:
                nsel = 1                                # one doubled-haploid line: fixed at every locus
            if "narrow" in feat and gi == 0:
                select = list(range(n))                 # everybody is a candidate parent
                if rng.random() < 0.3:
                    rng.shuffle(select)
                nsel = n
            elif rng.random() < 0.7 or "inplace" in feat:
                select = sorted(rng.sample(range(n), nsel))
            else:
                select = [rng.randrange(n) for _ in range(nsel)]          # with repeats, unsorted
            prot = rng.choice(sorted(PROTOCOLS))
            if "inplace" in feat and gi == 0:
                prot = rng.choice(["TwoWayDHCross", "ThreeWayDHCross", "FourWayDHCross"])
            if "testcross" in feat and gi == 0:
                prot = rng.choice(["SelfCross", "TwoWayCross"])
            npar = PROTOCOLS[prot]
            target = rng.choice([1, 2, 3, 5, 8, rng.choice(BOUNDARY_N)])
            if target in (49, 98, 196) and rng.random() < 0.5:
                ncross, nm, npg = 7, 1, target // 7
            elif target > 12:
                ncross, nm, npg = target, 1, 1
            else:
                ncross = rng.choice([1, 2, 3])
                nm, npg = rng.choice([1, 1, 2]), max(1, target // ncross)
            lo = (nsel - max(1, nsel // 8)) if ("narrow" in feat and gi == 0) else 0      # the LAST rows of the parent set
            xconfig = [[rng.randrange(lo, nsel) for _ in range(npar)] for _ in range(ncross)]
            if rng.random() < 0.3 and ncross <= 3:
                nm_c = [rng.choice([1, 2]) for _ in range(ncross)]
                np_c = [rng.choice([1, 2, 3]) for _ in range(ncross)]
            else:
                nm_c, np_c = nm, npg
            nself = rng.choice([0, 0, 1, 2, 3])
            if "testcross" in feat and gi == 0:
                nself = rng.choice([1, 2])
            g = {"select": select, "protocol": prot, "xconfig": xconfig, "nmating": nm_c,
                 "nprogeny": np_c, "nself": nself}
            if "inplace" in feat:
                sorted_unique = select == sorted(set(select))
                g["cull"] = rng.choice(["remove", "remove", "delete"]) if sorted_unique else "select"
                g["touch"] = [rng.choice(TOUCH) for _ in range(rng.choice([2, 3, 5]))]
            gens.append(g)
            nm_l = nm_c if isinstance(nm_c, list) else [nm_c] * ncross
            np_l = np_c if isinstance(np_c, list) else [np_c] * ncross
            n = sum(a * b for a, b in zip(nm_l, np_l))
            maxn = max(maxn, n)
        case = {"kind": "programme", "nv": nv, "ntrait": ntrait, "U": U, "beta": beta, "xo": canon.enc(xo),
                "founders": G, "n0": n0, "seed": rng.randrange(2 ** 31), "gens": gens,
                "rng": rng.choice(["pcg64", "scripted", "scripted", "mt19937", "randomstate"])}
        case.update(extras)
        if feat:
            case["features"] = sorted(feat)
        if "unsorted" in feat:
            chrgrp = [rng.choice([3, 1, 2]) for _ in range(nv)]
            if chrgrp == sorted(chrgrp):
                chrgrp[0], chrgrp[-1] = 3, 1
            case["chrgrp"] = chrgrp
            case["phypos"] = rng.sample(range(1, 1000), nv)
        if "narrow" in feat:
            big = maxn                  # every index (also the complement handed to remove_taxa) is below this
            case["idx_dtype"] = rng.choice([d for d, cap in (("int8", 128), ("uint8", 256), ("int16", 1 << 15)) if big <= cap])
            case["cnt_dtype"] = rng.choice(["int64", "int16", "uint8"])
        elif rng.random() < 0.3:
            case["idx_dtype"] = rng.choice(["int32", "int16", "uint32"])
        if "inplace" in feat:
            case["touch0"] = [rng.choice(TOUCH) for _ in range(3)]
        if rng.random() < 0.4:
            case["meta"] = self._meta(rng, n0, nv)
        if rng.random() < 0.35:
            case["layout"] = rng.choice(["F", "strided", "rev"])       # founders handed over as a non-contiguous array
        if case.get("idx_dtype", "int64") in ("int64", "int32", "int16") and rng.random() < 0.25:
            case["neg_idx"] = True          # selection and cross configuration written with negative (from-the-end) indices
        return case

    def _uhist(self, rng):
        """an UNPHASED population (ploidy 1, 2, 4 or 6; genotype codes 0..ploidy) taken through 1-3 rounds of
        selection - select_taxa (new object), delete_taxa (new object) or remove_taxa (in place) - with the limits
        evaluated after every round; the last round may keep a single fully homozygous individual"""
        phased = rng.random() < 0.4                     # a PHASED population with 1, 3 or 4 phases (no mating: selection only)
        k = rng.choice([1, 3, 4, 4]) if phased else rng.choice([1, 2, 4, 4, 6])
        nv = rng.choice([2, 3, 4, 5])
        n0 = rng.choice([3, 4, 6, 8, 12, rng.choice(BOUNDARY_N)])
        pats = [rng.choice(["one", "zero", "one_off", "zero_off", "het", "rand", "rand", "rand"]) for _ in range(nv)]
        loci = [self._locus(rng, n0, k, p) for p in pats]
        inbred = rng.randrange(n0)                      # one fully homozygous member (mixed 0 / ploidy)
        for j, p in enumerate(pats):
            if p not in ("one", "zero"):
                loci[j][inbred] = [rng.choice([0, 1])] * k
        Z = [[sum(loci[j][i]) for j in range(nv)] for i in range(n0)]
        G = [[[loci[j][i][c] for j in range(nv)] for i in range(n0)] for c in range(k)]
        ntrait, U, beta, extras = self._model(rng, nv)
        steps, n = [], n0
        members = list(range(n0))
        for si in range(rng.choice([1, 2, 3])):
            nsel = max(1, min(n, rng.choice([1, 2, 3, 4, 6, n // 2 + 1])))
            how = rng.choice(["select", "select", "remove", "delete"])
            pos = sorted(rng.sample(range(n), nsel))
            if inbred in members and rng.random() < 0.6:          # keep the homozygous member (it may end up alone)
                ip = members.index(inbred)
                if ip not in pos:
                    pos[rng.randrange(len(pos))] = ip
                    pos = sorted(set(pos))
            if how == "select" and rng.random() < 0.3:
                pos = [rng.choice(pos) for _ in range(len(pos))]   # with repeats, unsorted
            steps.append({"how": how, "idx": pos})
            members = [members[i] for i in pos]
            n = len(pos)
        c = {"kind": "uhist", "nv": nv, "ntrait": ntrait, "U": U, "beta": beta, "ploidy": k, "steps": steps,
             "touch": [rng.choice(TOUCH) for _ in range(rng.choice([0, 2, 4]))],
             "idx_dtype": rng.choice(["int64", "int64", "int32", "int16", "uint8"] if n0 <= 255 else ["int64", "int32"])}
        c.update(extras)
        if phased:
            c["G"] = G
        else:
            c["Z"] = Z
        if rng.random() < 0.4:
            c["meta"] = self._meta(rng, n0, nv)
        if rng.random() < 0.35:
            c["layout"] = rng.choice(["F", "strided", "rev"])
        if c["idx_dtype"] in ("int64", "int32", "int16") and rng.random() < 0.25:
            c["neg_idx"] = True
        return c

    def corpus(self):
        out = []
        # D1 regression: fully fixed populations at the boundary sizes: usl = lsl = common gebv = 2*(3-1) + ...
        for n in BOUNDARY_N[:4]:
            out.append({"kind": "static", "path": "phased", "nv": 3, "ntrait": 1,
                        "U": [[3], [-1], [2]], "beta": [[0]],
                        "pop": {"nt": n, "G": [[[1, 1, 0] for _ in range(n)] for _ in range(2)]}})
        out.append({"kind": "static", "path": "ndarray", "nv": 2, "ntrait": 2, "U": [[1, -1], [-2, "1/2"]],
                    "beta": [[1, 2], [4, 6]], "pop": {"nt": 49, "ploidy": 2, "Z": [[2, 0] for _ in range(49)]}})
        out.append({"kind": "static", "path": "unphased", "nv": 2, "ntrait": 1, "U": [[1], [-1]],
                    "beta": [[0]], "pop": {"nt": 49, "ploidy": 4, "Z": [[4, 4] for _ in range(49)]}})
        # one copy off in 1200: a comparison loosened to `p > 0.999` would call this locus fixed
        big = [[2] for _ in range(600)]
        big[17] = [1]
        out.append({"kind": "static", "path": "unphased", "nv": 1, "ntrait": 1, "U": [[-1]], "beta": [[0]],
                    "pop": {"nt": 600, "ploidy": 2, "Z": big}})
        # single individual; zero effects only
        out.append({"kind": "static", "path": "phased", "nv": 2, "ntrait": 2, "U": [[0, 1], [0, -1]],
                    "beta": [[5, 5], [1, 1], [1, 1]], "pop": {"nt": 1, "G": [[[1, 0]], [[0, 0]]]}})
        # a programme that reaches fixation at n = 49: one selected parent, doubled haploids, then selfing
        out.append({"kind": "programme", "nv": 3, "ntrait": 1, "U": [[1], [-1], [2]], "beta": [[0]],
                    "xo": canon.enc([0.5, 0.25, 0.5]), "n0": 4, "seed": 11,
                    "founders": [[[1, 0, 1], [0, 1, 1], [1, 1, 0], [0, 0, 1]], [[0, 0, 1], [1, 1, 1], [1, 0, 0], [0, 1, 1]]],
                    "gens": [{"select": [0, 1], "protocol": "TwoWayDHCross", "xconfig": [[0, 1]], "nmating": 1,
                              "nprogeny": 5, "nself": 0},
                             {"select": [2], "protocol": "SelfCross", "xconfig": [[0]] * 7, "nmating": 1,
                              "nprogeny": 7, "nself": 1}]})
        # very large populations one copy off fixation (and the all-fixed twin): a fixation test loosened to a
        # tolerance (numpy.isclose: 1e-5) only shows when 1/(ploidy*n) <= 1e-5
        big = {"kind": "big", "nv": 3, "ntrait": 2, "U": [[2, -1], [-3, 1], [1, 1]], "beta": [[1, -2], [4, 6]]}
        for i, (n, k) in enumerate([(50000, 2), (65536, 2), (100000, 2), (200001, 2), (100001, 1), (25000, 4), (30001, 4)]):
            objpath = "phased" if k == 2 else "unphased"
            for path in (objpath, "ndarray"):       # one copy of allele 0 left at locus 0, everything else fixed
                out.append(dict(big, n=n, ploidy=k, path=path, off="one0"))
            out.append(dict(big, n=n, ploidy=k, path=(objpath, "ndarray")[i % 2], off=None))     # the all-fixed twin
            if i in (0, 3, 4):                      # one copy of allele 1 at locus 1, everything else fixed
                for path in (objpath, "ndarray"):
                    out.append(dict(big, n=n, ploidy=k, path=path, off="one1"))
        # 1.2 million chromosome copies: one copy off is 8.3e-7 away from fixation (a tolerance of 1e-6 swallows it)
        out.append(dict(big, n=600001, ploidy=2, path="ndarray", off="one0"))
        out.append(dict(big, n=600001, ploidy=2, path="phased", off="one1"))
        # collapse clause for EVERY size 1..300 (quick); `exhaustive` extends it to 2000 (thorough)
        out.append({"kind": "sweep", "nmax": 300})
        # founders whose variants are stored chromosome 3 before chromosome 1: a mating that re-sorts the variant axis
        # of the progeny moves alleles to other loci (fixed-1 / fixed-0 loci alternate, effects differ per locus)
        F = [[1, 0, 1, 0, 1, 0], [1, 0, 0, 0, 1, 1], [1, 0, 1, 0, 0, 1], [1, 0, 0, 0, 1, 0]]
        M = [[1, 0, 0, 0, 1, 1], [1, 0, 1, 0, 0, 0], [1, 0, 1, 0, 1, 1], [1, 0, 0, 0, 0, 1]]
        for prot, xc in (("TwoWayCross", [[0, 1], [2, 3]]), ("ThreeWayCross", [[0, 1, 2]]), ("FourWayDHCross", [[0, 1, 2, 3]]),
                         ("SelfCross", [[1], [2]])):
            out.append({"kind": "programme", "nv": 6, "ntrait": 1, "U": [[3], [-2], [1], [-1], [2], ["1/2"]], "beta": [[0]],
                        "xo": canon.enc([0.5, 0.25, 0.5, 0.125, 0.5, 0.25]), "n0": 4, "seed": 23, "founders": [F, M],
                        "chrgrp": [3, 3, 1, 1, 2, 2], "phypos": [40, 10, 70, 20, 5, 60], "features": ["unsorted"],
                        "gens": [{"select": [0, 1, 2, 3], "protocol": prot, "xconfig": xc, "nmating": 1, "nprogeny": 4,
                                  "nself": 0}]})
        # one doubled-haploid line left after IN-PLACE culling, read-only statistics in between: the limits must
        # collapse onto its breeding value (a frequency memo that survives remove_taxa / is handed out to maf() shows)
        out.append({"kind": "programme", "nv": 4, "ntrait": 1, "U": [[2], [-1], [1], [-3]], "beta": [[1]],
                    "xo": canon.enc([0.5, 0.5, 0.5, 0.5]), "n0": 4, "seed": 5, "features": ["inplace"],
                    "founders": [[[1, 0, 1, 0], [0, 1, 1, 1], [1, 1, 0, 0], [0, 0, 1, 1]],
                                 [[0, 0, 1, 1], [1, 1, 1, 0], [1, 0, 0, 1], [0, 1, 1, 0]]],
                    "touch0": [["afreq", None], ["maf", None]],
                    "gens": [{"select": [0, 1, 2], "cull": "remove", "touch": [["afreq", None], ["meh", None], ["apoly", None]],
                              "protocol": "TwoWayDHCross", "xconfig": [[0, 1], [1, 2]], "nmating": 1, "nprogeny": 3, "nself": 0},
                             {"select": [4], "cull": "remove", "touch": [["maf", None], ["afreq", "float32"], ["maf", "float32"]],
                              "protocol": "SelfCross", "xconfig": [[0]], "nmating": 1, "nprogeny": 3, "nself": 1}]})
        # testcross hybrids (no homozygous '1' genotype anywhere), then selfing: the limits requested through the
        # ndarray form without a ploidy argument must already contain the homozygous descendants
        out.append({"kind": "programme", "nv": 3, "ntrait": 1, "U": [[2], [1], [-1]], "beta": [[0]],
                    "xo": canon.enc([0.5, 0.5, 0.5]), "n0": 3, "seed": 9, "features": ["testcross"],
                    "founders": [[[1, 1, 0], [1, 0, 1], [0, 1, 1]], [[0, 0, 0], [0, 0, 0], [0, 0, 0]]],
                    "gens": [{"select": [0, 1, 2], "protocol": "SelfCross", "xconfig": [[0], [1], [2]], "nmating": 1,
                              "nprogeny": 6, "nself": 2}]})
        # optional metadata present: a variant mask with False entries at markers that carry effects, labels, haplotype
        # annotations - none of it may change limits or values (static phased tetraploid, and along a programme)
        out.append({"kind": "static", "path": "phased", "nv": 3, "ntrait": 1, "U": [[2], [-1], [3]], "beta": [[0]],
                    "meta": {"vrnt_mask": [False, True, False], "taxa": ["b", "a", "c"], "taxa_grp": [2, 1, 2]},
                    "pop": {"nt": 3, "G": [[[1, 0, 1], [1, 1, 0], [0, 0, 1]], [[1, 0, 0], [1, 0, 0], [1, 1, 1]],
                                           [[0, 0, 1], [1, 1, 0], [1, 0, 1]], [[1, 1, 0], [1, 0, 0], [0, 0, 1]]]}})
        out.append({"kind": "static", "path": "unphased", "nv": 2, "ntrait": 1, "U": [[1], [-1]], "beta": [[2]],
                    "meta": {"vrnt_mask": [False, False]}, "pop": {"nt": 3, "ploidy": 2, "Z": [[2, 1], [1, 1], [2, 0]]}})
        out.append({"kind": "programme", "nv": 3, "ntrait": 1, "U": [[2], [1], [-1]], "beta": [[0]],
                    "xo": canon.enc([0.5, 0.5, 0.5]), "n0": 3, "seed": 4, "meta": {"vrnt_mask": [False, True, False]},
                    "founders": [[[1, 1, 0], [1, 0, 1], [0, 1, 1]], [[0, 1, 0], [1, 0, 0], [0, 0, 1]]],
                    "gens": [{"select": [0, 1, 2], "protocol": "TwoWayCross", "xconfig": [[0, 1], [1, 2]], "nmating": 1,
                              "nprogeny": 3, "nself": 1}]})
        # a phased population with 4 phases through selection rounds (select_taxa / in-place culling)
        out.append({"kind": "uhist", "nv": 3, "ntrait": 1, "U": [[1], [-2], [3]], "beta": [[0]], "ploidy": 4,
                    "G": [[[1, 0, 1], [1, 1, 0], [0, 0, 1], [1, 0, 1]], [[1, 0, 0], [1, 1, 0], [1, 0, 1], [1, 0, 1]],
                          [[1, 0, 1], [1, 1, 0], [0, 1, 1], [1, 0, 1]], [[1, 1, 0], [1, 1, 0], [0, 0, 1], [1, 0, 1]]],
                    "idx_dtype": "int64", "touch": [["maf", None]],
                    "steps": [{"how": "select", "idx": [0, 1, 3]}, {"how": "remove", "idx": [1, 2]}, {"how": "select", "idx": [1]}]})
        # unphased tetraploid / hexaploid populations through selection rounds (new object, in place, delete)
        out.append({"kind": "uhist", "nv": 3, "ntrait": 1, "U": [[1], [-2], [3]], "beta": [[0]], "ploidy": 4,
                    "Z": [[4, 0, 3], [4, 4, 0], [3, 1, 2], [4, 0, 4], [0, 2, 4]], "idx_dtype": "int64", "touch": [],
                    "steps": [{"how": "select", "idx": [0, 1, 3]}, {"how": "remove", "idx": [0, 2]},
                              {"how": "select", "idx": [1, 1]}]})
        out.append({"kind": "uhist", "nv": 2, "ntrait": 2, "U": [[1, -1], [-2, 2]], "beta": [[3, 0]], "ploidy": 6,
                    "Z": [[6, 0], [5, 1], [6, 6], [0, 3]], "idx_dtype": "uint8", "touch": [["maf", None], ["afreq", None]],
                    "steps": [{"how": "delete", "idx": [0, 2]}, {"how": "select", "idx": [1]}]})
        # index arrays of every integer dtype on parent sets where row * nvrnt leaves the range of the narrow ones
        out.append({"kind": "wide", "n": 240, "nv": 300, "seed": 5, "ncross": 6, "nself": 0,
                    "runs": [["TwoWayCross", "int16"], ["TwoWayCross", "uint16"], ["TwoWayCross", "uint8"],
                             ["SelfCross", "int16"], ["TwoWayDHCross", "int16"], ["ThreeWayCross", "uint16"],
                             ["ThreeWayDHCross", "int16"], ["FourWayCross", "int16"], ["FourWayDHCross", "uint16"],
                             ["TwoWayCross", "int32"], ["TwoWayCross", "int64"], ["TwoWayCross", "uint64"]]})
        out.append({"kind": "wide", "n": 120, "nv": 7, "seed": 6, "ncross": 5, "nself": 1,
                    "runs": [["TwoWayCross", "int8"], ["SelfCross", "int8"], ["FourWayDHCross", "int8"],
                             ["ThreeWayCross", "uint8"]]})
        # D62 regression: `ploidy` handed to usl(Z, ploidy) / lsl(Z, ploidy) as a numpy int8 scalar (e.g. Z.max()): before the
        # repair ploidy * shape[0] wrapped for 64 <= n <= 127 diploid taxa and the fixed population at n = 98 got limits
        # 0 / 0 around the common value 4; a polymorphic one at n = 107, a tetraploid one at n = 49 (4 * 49 = 196), int16
        out.append({"kind": "static", "path": "ndarray", "nv": 2, "ntrait": 1, "U": [[3], [-1]], "beta": [[0]], "ploidy_np": "int8",
                    "pop": {"nt": 98, "ploidy": 2, "Z": [[2, 2] for _ in range(98)]}})
        out.append({"kind": "static", "path": "ndarray", "nv": 2, "ntrait": 2, "U": [[3, -1], [-1, 2]], "beta": [[1, 2]], "ploidy_np": "int8",
                    "pop": {"nt": 107, "ploidy": 2, "Z": [[2, 0], [0, 2], [1, 1]] + [[2, 1] for _ in range(104)]}})
        out.append({"kind": "static", "path": "ndarray", "nv": 2, "ntrait": 1, "U": [[1], [-2]], "beta": [[0]], "ploidy_np": "int8",
                    "pop": {"nt": 49, "ploidy": 4, "Z": [[4, 0] for _ in range(49)]}})
        out.append({"kind": "static", "path": "ndarray", "nv": 1, "ntrait": 1, "U": [[-1]], "beta": [[0]], "ploidy_np": "int16",
                    "pop": {"nt": 20000, "ploidy": 2, "Z": [[2] for _ in range(20000)]}})
        # ... and where the product does not wrap the numpy scalar is as good as the Python int
        out.append({"kind": "static", "path": "ndarray", "nv": 2, "ntrait": 1, "U": [[3], [-1]], "beta": [[0]], "ploidy_np": "int8",
                    "pop": {"nt": 49, "ploidy": 2, "Z": [[2, 2] for _ in range(48)] + [[1, 2]]}})
        out.append({"kind": "static", "path": "ndarray", "nv": 2, "ntrait": 1, "U": [[3], [-1]], "beta": [[0]], "ploidy_np": "int64",
                    "pop": {"nt": 98, "ploidy": 2, "Z": [[2, 2] for _ in range(97)] + [[2, 1]]}})
        # -- classes found by independent breaking changes (round 5)
        # miscellaneous random effects in the model (u = [u_misc; u_a]): limits and values read the marker effects only.
        # A fixed population (the limits must collapse onto its value), a polymorphic one with the best and the worst
        # genotype present, p_misc < / = / > the number of markers, and a programme that ends in one doubled-haploid line
        fixedG = [[[1, 1, 0] for _ in range(3)] for _ in range(2)]
        for um in ([[1], [-2]], [[-4], [5], [1]], [[2], [2], [-3], [7]]):
            out.append({"kind": "static", "path": "phased", "nv": 3, "ntrait": 1, "U": [[3], [-1], [2]], "beta": [[0]],
                        "u_misc": um, "pop": {"nt": 3, "G": fixedG}})
        out.append({"kind": "static", "path": "unphased", "nv": 3, "ntrait": 2, "U": [[3, -1], [-1, 2], [2, "1/2"]],
                    "beta": [[1, 0], [2, 4]], "u_misc": [[-5, 5]],
                    "pop": {"nt": 4, "ploidy": 2, "Z": [[2, 0, 2], [0, 2, 0], [1, 1, 2], [2, 1, 1]]}})
        out.append({"kind": "static", "path": "ndarray", "nv": 2, "ntrait": 1, "U": [[1], [-2]], "beta": [[0]],
                    "u_misc": [[-3]], "noploidy": True, "pop": {"nt": 3, "ploidy": 2, "Z": [[2, 0], [0, 2], [1, 1]]}})
        out.append({"kind": "programme", "nv": 3, "ntrait": 1, "U": [[1], [-1], [2]], "beta": [[0]], "u_misc": [[-2], [3]],
                    "xo": canon.enc([0.5, 0.25, 0.5]), "n0": 4, "seed": 11,
                    "founders": [[[1, 0, 1], [0, 1, 1], [1, 1, 0], [0, 0, 1]], [[0, 0, 1], [1, 1, 1], [1, 0, 0], [0, 1, 1]]],
                    "gens": [{"select": [0, 1], "protocol": "TwoWayDHCross", "xconfig": [[0, 1]], "nmating": 1,
                              "nprogeny": 5, "nself": 0},
                             {"select": [2], "protocol": "SelfCross", "xconfig": [[0]] * 3, "nmating": 1,
                              "nprogeny": 3, "nself": 1}]})
        # one model object used in several steps: constructed, (asked once), marker effects edited IN PLACE - a trait turned
        # around through the getter's array, single effects overwritten through the array handed to the constructor, a
        # constant subtracted - or re-assigned through the setter, (copied), then asked for limits and values
        polyG = [[[1, 0, 1], [0, 1, 0], [1, 1, 0], [0, 0, 1]], [[1, 0, 1], [0, 1, 0], [0, 1, 1], [1, 0, 0]]]
        hist = [("getter", True, None, [{"op": "scale_col", "t": 0, "c": -1}], [[-3], [1], [-2]]),
                ("ctor", False, None, [{"op": "set", "j": 0, "t": 0, "v": -2}, {"op": "set", "j": 1, "t": 0, "v": 0}], [[-2], [0], [2]]),
                ("getter", True, "deepcopy", [{"op": "add", "v": -2}], [[1], [-3], [0]]),
                ("setter", True, None, [{"op": "scale_col", "t": 0, "c": -2}], [[-6], [2], [-4]]),
                ("ctor", True, "copy", [{"op": "scale_col", "t": 0, "c": -1}, {"op": "set", "j": 2, "t": 0, "v": 1}], [[-3], [1], [1]])]
        for via, prime, then, eu, U in hist:
            for G in (polyG, fixedG):
                out.append({"kind": "static", "path": "phased", "nv": 3, "ntrait": 1, "U": U, "beta": [[1]],
                            "model_ops": {"U0": [[3], [-1], [2]], "beta0": [[1]], "edits_u": eu, "edits_b": [], "via": via,
                                          "prime": prime, "then": then},
                            "pop": {"nt": len(G[0]), "G": G}})
        # the fixed effects edited in place as well (the location of unscale=True and of gebv().unscale())
        out.append({"kind": "static", "path": "unphased", "nv": 2, "ntrait": 2, "U": [[1, 2], [-1, "1/2"]], "beta": [[3, -4], [4, -1]],
                    "u_misc": [[9, 9]],
                    "model_ops": {"U0": [[1, -2], [-1, "-1/2"]], "beta0": [[1, 2], [2, -1]], "via": "getter", "prime": True,
                                  "then": None, "edits_u": [{"op": "scale_col", "t": 1, "c": -1}],
                                  "edits_b": [{"op": "add", "v": 2}, {"op": "scale_col", "t": 1, "c": -1}]},
                    "pop": {"nt": 3, "ploidy": 4, "Z": [[4, 0], [0, 4], [3, 1]]}})
        # ... and along a programme (the edited model is the model of the whole history)
        out.append({"kind": "programme", "nv": 3, "ntrait": 1, "U": [[-1], [1], [2]], "beta": [[0]],
                    "model_ops": {"U0": [[1], [-1], [-2]], "beta0": [[0]], "via": "getter", "prime": True, "then": None,
                                  "edits_u": [{"op": "scale_col", "t": 0, "c": -1}], "edits_b": []},
                    "xo": canon.enc([0.5, 0.25, 0.5]), "n0": 4, "seed": 3,
                    "founders": [[[1, 0, 1], [0, 1, 1], [1, 1, 0], [0, 0, 1]], [[0, 0, 1], [1, 1, 1], [1, 0, 0], [0, 1, 1]]],
                    "gens": [{"select": [0, 1, 2], "protocol": "TwoWayCross", "xconfig": [[0, 1], [1, 2]], "nmating": 1,
                              "nprogeny": 3, "nself": 1}]})
        return out

    def exhaustive(self, tier):
        if tier != "thorough":
            return None
        return [{"kind": "sweep", "nmax": 2000}]

    def generate(self, rng, n, tier):
        out = []
        nprog = 0
        for i in range(n):
            if i < len(BOUNDARY_N):
                out.append(self._static(rng, BOUNDARY_N[i], fixed_only=(i % 2 == 0)))
                continue
            if i in (len(BOUNDARY_N), len(BOUNDARY_N) + 1):     # two large populations of a random size per run
                k = rng.choice([1, 2, 2, 4])
                nbig = rng.randint(100000 // k + 1, 240000 // k)
                out.append({"kind": "big", "nv": 3, "ntrait": 2, "U": [[2, -1], [-3, 1], [1, 1]],
                            "beta": [[1, -2], [4, 6]], "n": nbig, "ploidy": k, "off": "one0",
                            "path": rng.choice(["phased" if k == 2 else "unphased", "ndarray"])})
                continue
            r = rng.random()
            if r < 0.45:
                k = nprog
                nprog += 1
                # every feature (alone, then in pairs) in every run; later programmes draw features at random
                if k < 7:
                    feat = [(), ("unsorted",), ("narrow",), ("testcross",), ("inplace",), ("unsorted", "inplace"),
                            ("narrow", "unsorted")][k]
                else:
                    feat = tuple(f for f in self.FEATURES if rng.random() < 0.2)
                c = self._programme(rng, tier, feat)
                if k < 14:      # every protocol and every generator type in every run
                    c["rng"] = ["scripted", "pcg64", "mt19937", "randomstate"][k % 4]
                    g0 = c["gens"][0]
                    prot = sorted(PROTOCOLS)[k % 7]
                    if "unsorted" in feat and k < 7:
                        prot = "TwoWayCross"
                    if not ({"testcross", "inplace"} & set(feat)):
                        nsel = len(g0["select"])
                        lo = min(r_ for row in g0["xconfig"] for r_ in row)
                        g0["protocol"] = prot
                        g0["xconfig"] = [[rng.randrange(lo, nsel) for _ in range(PROTOCOLS[prot])] for _ in g0["xconfig"]]
                out.append(c)
            elif r < 0.57:
                out.append(self._uhist(rng))
            else:
                q = rng.random()
                nt = rng.choice(BOUNDARY_N) if q < 0.3 else rng.choice([1, 2, 3, 3, 4, 5, 8, 12])
                out.append(self._static(rng, nt, fixed_only=rng.random() < 0.15))
        return out

    # ------------------------------------------------------------------ implementation
    @staticmethod
    def _edit_inplace(arr, e):
        """one in-place edit of an effect matrix (numpy semantics; mirrored by SelLimit.applyEdit)"""
        if e["op"] == "scale_col":
            arr[:, e["t"]] *= _f(e["c"])
        elif e["op"] == "set":
            arr[e["j"], e["t"]] = _f(e["v"])
        elif e["op"] == "add":
            arr += _f(e["v"])
        else:
            raise ValueError(e["op"])

    def _gm(self, case):
        """the model object of the case.  Plain: constructed from U / beta (and u_misc).  With `model_ops`: constructed
        from U0 / beta0, optionally asked for limits and values once (`prime`), then edited - IN PLACE through the array
        the getter hands out (`getter`), through the array that was handed to the constructor (`ctor`: the model aliases
        it; if it does not, through the getter), or by re-assignment through the setter (`setter`) - and optionally
        copied (`then`); the effects after the edits are U / beta."""
        gmod = _mods()[0]
        nv, nt = case["nv"], case["ntrait"]
        arr = lambda M, rows: numpy.array([[_f(v) for v in r] for r in M], dtype=float).reshape(rows, nt)
        mo = case.get("model_ops")
        U = arr(mo["U0"] if mo else case["U"], nv)
        beta = arr(mo["beta0"] if mo else case["beta"], -1)
        um = arr(case["u_misc"], -1) if case.get("u_misc") is not None else None
        gm = gmod.DenseAdditiveLinearGenomicModel(beta=beta, u_misc=um, u_a=U,
                                                  trait=numpy.array([f"t{i}" for i in range(nt)], dtype=object))
        if not mo:
            return gm
        if mo.get("prime"):
            Z0 = numpy.array([[2] * nv, [0] * nv, [1] * nv], dtype="int8")
            gm.usl(Z0), gm.lsl(Z0), gm.usl(Z0, unscale=True), gm.lsl(Z0, unscale=True), gm.gebv_numpy(Z0)
            gm.gebv(Z0).unscale()
            gm.usl_numpy(numpy.full(nv, 0.5), 2), gm.lsl_numpy(numpy.full(nv, 1.0), 2, True)
        via = mo.get("via", "getter")
        for name, given, edits in (("u_a", U, mo.get("edits_u") or []), ("beta", beta, mo.get("edits_b") or [])):
            for e in edits:
                if via == "setter":
                    new = numpy.array(getattr(gm, name), copy=True)
                    self._edit_inplace(new, e)
                    setattr(gm, name, new)
                elif via == "ctor" and getattr(gm, name) is given:
                    self._edit_inplace(given, e)
                else:
                    self._edit_inplace(getattr(gm, name), e)
        if mo.get("then") == "copy":
            import copy
            gm = copy.copy(gm)
        elif mo.get("then") == "deepcopy":
            import copy
            gm = copy.deepcopy(gm)
        return gm

    @staticmethod
    def _touch(obj, touch):
        """call read-only statistics on the population object (results discarded)"""
        for name, dt in touch or []:
            f = getattr(obj, name)
            f(dt) if dt is not None else f()

    @staticmethod
    def _observe(gm, obj, Z, ploidy, as_array=False, touch=None, noploidy=False, ploidy_np=None):
        """limits, breeding values and frequencies of one population as the implementation reports them.
        `touch`: read-only statistics called on the object first, between the limit evaluations and before the
        frequencies are read.  For diploid populations the limits are ALSO requested through the documented ndarray
        form without a ploidy argument (`usl(Z)`: the default is 2) — keys `*_nd`."""
        touch = list(touch or [])
        if as_array:
            pl = numpy.dtype(ploidy_np).type(ploidy) if ploidy_np else ploidy     # a numpy integer scalar is an Integral
            kw = {} if noploidy else {"ploidy": pl}
            with numpy.errstate(over="ignore"):
                o = {"usl": gm.usl(Z, **kw), "lsl": gm.lsl(Z, **kw),
                     "usl_un": gm.usl(Z, unscale=True, **kw), "lsl_un": gm.lsl(Z, unscale=True, **kw),
                     "gebv_un": gm.gebv(Z).unscale(), "afreq": Z.sum(0) / (ploidy * Z.shape[0])}
        else:
            C10._touch(obj, touch[0::3])
            o = {"usl": gm.usl(obj)}
            C10._touch(obj, touch[1::3])
            o["lsl"] = gm.lsl(obj)
            o["usl_un"] = gm.usl(obj, unscale=True)
            C10._touch(obj, touch[2::3])
            o["lsl_un"] = gm.lsl(obj, unscale=True)
            o["gebv_un"] = gm.gebv(obj).unscale()
            o["afreq"] = obj.afreq()
        if ploidy == 2:
            Zi = numpy.asarray(Z)
            o["usl_nd"], o["lsl_nd"] = gm.usl(Zi), gm.lsl(Zi)
            o["usl_nd_un"], o["lsl_nd_un"] = gm.usl(Zi, unscale=True), gm.lsl(Zi, unscale=True)
        o["gebv_raw"] = gm.gebv_numpy(Z)
        return {k: canon.enc(numpy.asarray(v)) for k, v in o.items()}

    def _sweep(self, case):
        """fully fixed diploid populations of every size: limits must equal the common value 3*2 - 1*2 = 4
        (and 4 - 3 with the location); a population with one copy off must keep the limits apart"""
        gmod, ug, pg, mutil, prots = _mods()
        gm = gmod.DenseAdditiveLinearGenomicModel(beta=numpy.array([[-3.0]]), u_misc=None,
                                                  u_a=numpy.array([[3.0], [-1.0], [2.0]]),
                                                  trait=numpy.array(["t0"], dtype=object))
        bad = []
        for n in range(1, case["nmax"] + 1):
            G = numpy.zeros((2, n, 3), dtype="int8")
            G[:, :, 0] = 1
            G[:, :, 1] = 1
            P = pg.DensePhasedGenotypeMatrix(G)
            Z = P.mat_asformat("{0,1,2}")
            vals = [gm.usl(P)[0], gm.lsl(P)[0], gm.usl(Z, ploidy=2)[0], gm.lsl(Z, ploidy=2)[0]]
            un = [gm.usl(P, unscale=True)[0], gm.lsl(P, unscale=True)[0]]
            gv = gm.gebv_numpy(Z)
            ok = all(v == 4.0 for v in vals) and all(v == 1.0 for v in un) and bool((gv == 4.0).all())
            if n >= 2:
                G2 = G.copy()
                G2[0, n // 2, 1] = 0            # allele 0 present once at the locus with the negative effect
                P2 = pg.DensePhasedGenotypeMatrix(G2)
                ok = ok and gm.usl(P2)[0] == 6.0 and gm.lsl(P2)[0] == 4.0
            if not ok:
                bad.append([n, canon.enc(vals)])
        return {"bad": bad[:20], "nbad": len(bad)}

    def _big(self, case):
        """(n,3) population: locus 0 fixed at 1, locus 1 fixed at 0, locus 2 fixed at 1; with `off` = "one0" / "one1" a single
        copy of the other allele survives at locus 0 / locus 1 and everything else is fixed, so the carrier's value
        IS one of the limits and any loosening of the fixation test puts it outside.  The n rows of breeding values are
        run-length compressed (distinct (dosage, gebv) rows + multiplicities) before they go to the Spec."""
        gmod, ug, pg, mutil, prots = _mods()
        gm = self._gm(case)
        n, k = case["n"], case["ploidy"]
        Z = numpy.zeros((n, 3), dtype="int8")
        Z[:, 0] = k
        Z[:, 2] = k
        if case["off"] == "one0":
            Z[n // 3, 0] = k - 1
        elif case["off"] == "one1":
            Z[(2 * n) // 3, 1] = 1
        if case["path"] == "phased":
            G = numpy.zeros((2, n, 3), dtype="int8")
            G[:, :, 0] = 1
            G[:, :, 2] = 1
            if case["off"] == "one0":
                G[1, n // 3, 0] = 0
            elif case["off"] == "one1":
                G[0, (2 * n) // 3, 1] = 1
            obj = pg.DensePhasedGenotypeMatrix(G)
            Zi = obj.mat_asformat("{0,1,2}")
        elif case["path"] == "unphased":
            obj = ug.DenseGenotypeMatrix(Z, ploidy=k)
            Zi = Z
        else:
            obj, Zi = None, Z
        if obj is None:
            o = {"usl": gm.usl(Zi, ploidy=k), "lsl": gm.lsl(Zi, ploidy=k),
                 "usl_un": gm.usl(Zi, ploidy=k, unscale=True), "lsl_un": gm.lsl(Zi, ploidy=k, unscale=True),
                 "afreq": Zi.sum(0) / (k * n)}
            gun = gm.gebv(Zi).unscale()
        else:
            o = {"usl": gm.usl(obj), "lsl": gm.lsl(obj), "usl_un": gm.usl(obj, unscale=True),
                 "lsl_un": gm.lsl(obj, unscale=True), "afreq": obj.afreq()}
            gun = gm.gebv(obj).unscale()
        graw = numpy.asarray(gm.gebv_numpy(Zi), dtype=float)
        gun = numpy.asarray(gun, dtype=float)
        nt_ = case["ntrait"]
        # run-length compression in linear time: group the taxa by dosage row; when the reported values are constant
        # within every group one representative per group is exact, otherwise fall back to the distinct full rows
        Zi = numpy.asarray(Zi)
        key = (Zi.astype("int64") * numpy.array([(k + 1) ** 2, k + 1, 1])).sum(1)
        ukey, first, inv, counts = numpy.unique(key, return_index=True, return_inverse=True, return_counts=True)
        if bool((graw == graw[first][inv]).all()) and bool((gun == gun[first][inv]).all()):
            rows, gr, gu = Zi[first], graw[first], gun[first]
        else:
            comb = numpy.hstack([Zi.astype(float), graw, gun])
            uniq, counts = numpy.unique(comb, axis=0, return_counts=True)
            rows, gr, gu = uniq[:, :3], uniq[:, 3:3 + nt_], uniq[:, 3 + nt_:]
        obs = {k_: canon.enc(numpy.asarray(v)) for k_, v in o.items()}
        obs["gebv_raw"] = canon.enc(gr)
        obs["gebv_un"] = canon.enc(gu)
        pop = {"nt": n, "ploidy": k, "rows": [[int(v) for v in r[:3]] for r in rows], "mult": [int(c) for c in counts]}
        return {"gens": [obs], "pop": pop, "ndistinct": int(len(rows))}

    def run_impl(self, case):
        if case["kind"] == "sweep":
            return self._sweep(case)
        if case["kind"] == "big":
            return self._big(case)
        if case["kind"] == "wide":
            return self._wide(case)
        gmod, ug, pg, mutil, prots = _mods()
        gm = self._gm(case)
        nv = case["nv"]
        if case["kind"] == "static":
            pop = case["pop"]
            mkw = self._meta_kw(case.get("meta"))
            if "G" in pop:
                k = len(pop["G"])
                obj = pg.DensePhasedGenotypeMatrix(numpy.array(pop["G"], dtype="int8").reshape(k, pop["nt"], nv), **mkw)
                return {"gens": [self._observe(gm, obj, obj.mat_asformat("{0,1,2}"), k)]}
            Z = numpy.array(pop["Z"], dtype="int8").reshape(pop["nt"], nv)
            if case["path"] == "ndarray":
                return {"gens": [self._observe(gm, None, Z, pop["ploidy"], as_array=True,
                                               noploidy=bool(case.get("noploidy")), ploidy_np=case.get("ploidy_np"))]}
            obj = ug.DenseGenotypeMatrix(Z, ploidy=pop["ploidy"], **mkw)
            return {"gens": [self._observe(gm, obj, Z, pop["ploidy"])]}
        idt = case.get("idx_dtype", "int64")
        if case["kind"] == "uhist":
            k = case["ploidy"]
            mkw = self._meta_kw(case.get("meta"))
            lay = case.get("layout", "C")
            neg = bool(case.get("neg_idx"))
            if "G" in case:
                obj = pg.DensePhasedGenotypeMatrix(_layout(numpy.array(case["G"], dtype="int8").reshape(k, -1, nv), lay), **mkw)
                snap = lambda o: {"nt": int(o.ntaxa), "G": canon.enc(o.mat)}
                dose = lambda o: o.mat_asformat("{0,1,2}")
            else:
                obj = ug.DenseGenotypeMatrix(_layout(numpy.array(case["Z"], dtype="int8").reshape(-1, nv), lay), ploidy=k, **mkw)
                snap = lambda o: {"nt": int(o.ntaxa), "ploidy": k, "Z": canon.enc(o.mat)}
                dose = lambda o: o.mat
            pops = [snap(obj)]
            obs = [self._observe(gm, obj, dose(obj), k, touch=case.get("touch"))]
            ploidies = [int(obj.ploidy)]
            for st in case["steps"]:
                obj = self._cull(obj, st["how"], st["idx"], idt, neg)
                pops.append(snap(obj))
                ploidies.append(int(obj.ploidy))
                obs.append(self._observe(gm, obj, dose(obj), k, touch=case.get("touch")))
            return {"gens": obs, "pops": pops, "ploidies": ploidies}
        # programme
        xo = numpy.array([_f(v) for v in case["xo"]])
        cdt = case.get("cnt_dtype", "int64")
        neg = bool(case.get("neg_idx"))
        cur = pg.DensePhasedGenotypeMatrix(_layout(numpy.array(case["founders"], dtype="int8").reshape(2, case["n0"], nv),
                                                   case.get("layout", "C")),
                                           vrnt_xoprob=xo,
                                           vrnt_chrgrp=numpy.array(case.get("chrgrp") or [1] * nv, dtype="int64"),
                                           vrnt_phypos=numpy.array(case.get("phypos") or list(range(nv)), dtype="int64"),
                                           **dict({"vrnt_name": numpy.array([f"m{j}" for j in range(nv)], dtype=object)},
                                                  **self._meta_kw(case.get("meta"))))
        if case.get("rng") == "scripted":
            rng = ScriptedGenerator(case["seed"], xo)
        else:
            rng = RNGS[case.get("rng", "pcg64")](case["seed"])
        pops = [{"nt": int(cur.ntaxa), "G": canon.enc(cur.mat)}]
        obs = [self._observe(gm, cur, cur.mat_asformat("{0,1,2}"), 2, touch=case.get("touch0"))]
        matings = []
        for g in case["gens"]:
            sel = self._cull(cur, g.get("cull", "select"), g["select"], idt, neg)
            pops.append({"nt": int(sel.ntaxa), "G": canon.enc(sel.mat)})
            obs.append(self._observe(gm, sel, sel.mat_asformat("{0,1,2}"), 2, touch=g.get("touch")))
            prot = prots[g["protocol"]](rng=rng)
            nm = numpy.array(g["nmating"], dtype=cdt) if isinstance(g["nmating"], list) else int(g["nmating"])
            npg = numpy.array(g["nprogeny"], dtype=cdt) if isinstance(g["nprogeny"], list) else int(g["nprogeny"])
            before = len(rng.log)
            sel_before = sel.mat.copy()
            xc = numpy.array(g["xconfig"], dtype=idt)
            if neg:
                xc = xc - int(sel.ntaxa)        # numpy's index rule: -ntaxa <= s < 0 names taxon s + ntaxa
            cur = prot.mate(sel, xc, nm, npg, nself=int(g["nself"]))
            draws = rng.log[before:]
            pops.append({"nt": int(cur.ntaxa), "G": canon.enc(cur.mat)})
            obs.append(self._observe(gm, cur, cur.mat_asformat("{0,1,2}"), 2, touch=g.get("touch")))
            ndraw = sum(d.size for d in draws)
            meta_ok = all(self._same(getattr(cur, a), getattr(sel, a))
                          for a in ("vrnt_chrgrp", "vrnt_phypos", "vrnt_xoprob", "vrnt_name", "vrnt_mask", "vrnt_genpos",
                                    "vrnt_hapgrp", "vrnt_hapalt", "vrnt_hapref"))
            matings.append({"ndraws": ndraw, "parents_untouched": bool((sel_before == sel.mat).all()),
                            "meta_ok": bool(meta_ok),
                            "draws": canon.enc(draws) if ndraw <= (4 * MAX_DRAWS_FUNCTIONAL if case.get("rng") == "scripted"
                                                                   else MAX_DRAWS_FUNCTIONAL) else None})
        return {"gens": obs, "pops": pops, "matings": matings,
                "ties": getattr(rng, "nties", 0), "zeros": getattr(rng, "nzero", 0)}

    @staticmethod
    def _same(a, b):
        if a is None or b is None:
            return a is None and b is None
        return len(a) == len(b) and all(x == y for x, y in zip(a, b))

    @staticmethod
    def _complement(n, idx):
        keep = set(idx)
        return [i for i in range(n) if i not in keep]

    @staticmethod
    def _cull(obj, how, idx, idt, neg=False):
        """selection of the taxa `idx` from the population object: `select` = select_taxa (a new object; repeats and
        any order allowed), `delete` = delete_taxa of the others (a new object), `remove` = remove_taxa of the others
        IN PLACE on the same object (idx sorted, no repeats for the last two)"""
        n = int(obj.ntaxa)
        if how == "select":
            a = numpy.array(idx, dtype=idt)
            return obj.select_taxa(a - n if neg else a)
        comp = numpy.array(C10._complement(n, idx), dtype=idt)
        if neg:
            comp = comp - n
        if how == "delete":
            return obj.delete_taxa(comp)
        obj.remove_taxa(comp)
        return obj

    def _wide(self, case):
        """mating with index arrays of EVERY integer dtype on a founder population large enough that
        row * nvrnt leaves the range of the narrow ones (int8: 127, uint8: 255, int16: 32767, uint16: 65535), markers
        alternating fixed-1 / fixed-0 / segregating and a marker count that does not divide 65536.  Judged here (numpy):
        every progeny allele at locus j must be carried by a parent at locus j, the limits must not widen and every
        progeny value must lie inside the parents' limits."""
        gmod, ug, pg, mutil, prots = _mods()
        n, nv = case["n"], case["nv"]
        r = numpy.random.default_rng(case["seed"])
        G = r.integers(0, 2, size=(2, n, nv)).astype("int8")
        G[:, :, 0::3] = 1
        G[:, :, 1::3] = 0
        u = numpy.where(numpy.arange(nv) % 2 == 0, 1.0, -1.0)[:, None] * (1 + (numpy.arange(nv) % 5))[:, None]
        gm = gmod.DenseAdditiveLinearGenomicModel(beta=numpy.array([[0.0]]), u_misc=None, u_a=u,
                                                  trait=numpy.array(["t0"], dtype=object))
        xo = numpy.full(nv, 0.05)
        xo[0] = 0.5
        P = pg.DensePhasedGenotypeMatrix(G, vrnt_xoprob=xo, vrnt_chrgrp=numpy.ones(nv, dtype="int64"),
                                         vrnt_phypos=numpy.arange(nv, dtype="int64"))
        pu, pl = gm.usl(P), gm.lsl(P)
        present = [numpy.array([(G[:, :, j] == a).any() for j in range(nv)]) for a in (0, 1)]
        bad = []
        for prot_name, dt in case["runs"]:
            npar = PROTOCOLS[prot_name]
            prot = prots[prot_name](rng=numpy.random.default_rng(case["seed"] + 1))
            rows = [[n - 1 - ((3 * c + p) % max(1, n // 10)) for p in range(npar)] for c in range(case["ncross"])]
            Q = prot.mate(P, numpy.array(rows, dtype=dt), 1, 2, nself=case.get("nself", 0))
            M = Q.mat
            why = []
            for a in (0, 1):
                newly = numpy.array([(M[:, :, j] == a).any() for j in range(nv)]) & ~present[a]
                if newly.any():
                    why.append(f"allele {a} absent in the parents appears at loci {numpy.flatnonzero(newly)[:5].tolist()}")
            qu, ql, gv = gm.usl(Q), gm.lsl(Q), gm.gebv_numpy(Q.mat_asformat("{0,1,2}"))
            if (qu > pu + 1e-9).any():
                why.append("usl increases")
            if (ql < pl - 1e-9).any():
                why.append("lsl decreases")
            if (gv > pu + 1e-9).any() or (gv < pl - 1e-9).any():
                why.append("progeny value outside the parents' limits")
            if why:
                bad.append([prot_name, dt, why])
        return {"bad": bad[:10], "nbad": len(bad)}

    # ------------------------------------------------------------------ model requests
    @staticmethod
    def _counts(v, ncross):
        return list(v) if isinstance(v, list) else [v] * ncross

    def _labelled(self, case, obs):
        """[(label, request)]: the judge finds its answers by label"""
        base = {"nv": case["nv"], "ntrait": case["ntrait"], "U": case["U"], "beta": case["beta"]}
        pops = [case["pop"]] if case["kind"] == "static" else [obs["pop"]] if case["kind"] == "big" else obs["pops"]
        lim = dict(base)
        if case.get("model_ops"):       # the model derives the effects from the arrays at construction + the edits
            mo = case["model_ops"]
            lim.update(U0=mo["U0"], beta0=mo["beta0"], edits_u=mo.get("edits_u") or [], edits_b=mo.get("edits_b") or [])
        if case.get("u_misc") is not None:
            lim["u_misc"] = case["u_misc"]
        out = [(f"limits{i}", dict(lim, op="c10.limits", pop=p)) for i, p in enumerate(pops)]
        keys = ("usl", "lsl", "usl_un", "lsl_un", "gebv_raw", "gebv_un")
        out.append(("spec", dict(base, op="c10.spec", tol=canon.enc(TOL), pops=pops,
                                 obs=[{k: o[k] for k in keys} for o in obs["gens"]])))
        if all("usl_nd" in o for o in obs["gens"]):
            # the same Spec on the limits reported through the ndarray form with the default ploidy
            nd = {"usl": "usl_nd", "lsl": "lsl_nd", "usl_un": "usl_nd_un", "lsl_un": "lsl_nd_un"}
            out.append(("spec_nd", dict(base, op="c10.spec", tol=canon.enc(TOL), pops=pops,
                                        obs=[{k: o[nd.get(k, k)] for k in keys} for o in obs["gens"]])))
        if case["kind"] == "uhist":
            for i, st in enumerate(case["steps"]):
                rem = st["how"] != "select"
                idx = self._complement(pops[i]["nt"], st["idx"]) if rem else st["idx"]
                key = "G" if "G" in pops[i] else "Z"
                out.append((f"select{i}", {"op": "c10.select", key: pops[i][key], "idx": idx, "remove": rem}))
        if case["kind"] == "programme":
            for i, g in enumerate(case["gens"]):
                rem = g.get("cull", "select") != "select"
                idx = self._complement(pops[2 * i]["nt"], g["select"]) if rem else g["select"]
                out.append((f"select{i}", {"op": "c10.select", "G": pops[2 * i]["G"], "idx": idx, "remove": rem}))
            for i, (g, m) in enumerate(zip(case["gens"], obs["matings"])):
                if m["draws"] is not None:
                    nc = len(g["xconfig"])
                    out.append((f"mate{i}", {"op": "c10.mate", "protocol": g["protocol"], "geno": pops[2 * i + 1]["G"],
                                             "xo": case["xo"], "xconfig": g["xconfig"],
                                             "nmating": self._counts(g["nmating"], nc),
                                             "nprogeny": self._counts(g["nprogeny"], nc),
                                             "nself": g["nself"], "draws": m["draws"]}))
        return out

    def requests(self, case, obs):
        if case["kind"] in ("sweep", "wide"):
            return []
        return [r for _, r in self._labelled(case, obs)]

    def judge(self, case, obs, answers):
        if case["kind"] == "sweep":
            ok = obs["nbad"] == 0
            return {"corr": ok, "spec": ok, "nontrivial": True,
                    "detail": f"spec_fail=[{'' if ok else 'fixed population: usl=lsl=gebv at sizes'}] "
                              f"sweep 1..{case['nmax']} failing={obs['bad'][:6]} count={obs['nbad']}"}
        if case["kind"] == "wide":
            ok = obs["nbad"] == 0
            return {"corr": ok, "spec": ok, "nontrivial": True,
                    "detail": f"spec_fail=[{'' if ok else 'closed mating step with index dtype'}] wide n={case['n']} "
                              f"nv={case['nv']} failing={obs['bad'][:4]} count={obs['nbad']}"}
        for a in answers:
            if "err" in a:
                return {"corr": False, "spec": False, "nontrivial": True,
                        "detail": "driver rejected the implementation's output: " + a["err"][:300]}
        ans = {lab: a["ok"] for (lab, _), a in zip(self._labelled(case, obs), answers)}
        ngen = len(obs["gens"])
        lim = [ans[f"limits{i}"] for i in range(ngen)]
        spec = ans["spec"]
        spec_nd = ans.get("spec_nd", {"ok": True, "detail": ""})
        if not all(m["valid"] for m in lim) and case["kind"] in ("static", "big"):
            raise RuntimeError("generator produced an invalid population")
        if case.get("model_ops") and any([[Fraction(v) for v in r] for r in m[k]] != [[Fraction(v) for v in r] for r in case[c]]
                                         for m in lim for k, c in (("U_eff", "U"), ("beta_eff", "beta"))):
            raise RuntimeError("generator: U / beta are not the arrays at construction after the edits")
        bad = []
        for gi, (m, o) in enumerate(zip(lim, obs["gens"])):
            if m["afreq"] != o["afreq"] and not all(
                    (canon.dec(a) in (0, 1) or canon.dec(b) in (0, 1)) and a == b or
                    (canon.dec(a) not in (0, 1) and canon.dec(b) not in (0, 1) and canon.close(canon.dec(a), canon.dec(b), 1e-12, 0))
                    for a, b in zip(m["afreq"], o["afreq"])):
                bad.append(f"gen{gi}.afreq")
            for k in ("usl", "lsl", "usl_un", "lsl_un", "gebv_raw", "gebv_un"):
                if not canon.close_enc(m[k], o[k], rel=1e-9, abs_=1e-9):
                    bad.append(f"gen{gi}.{k}")
            for k in ("usl", "lsl", "usl_un", "lsl_un"):
                kn = k.replace("sl", "sl_nd", 1)
                if kn in o and not canon.close_enc(m[k], o[kn], rel=1e-9, abs_=1e-9):
                    bad.append(f"gen{gi}.{kn}")
        if case["kind"] == "uhist":
            for i in range(len(case["steps"])):
                if ans[f"select{i}"] != obs["pops"][i + 1].get("G", obs["pops"][i + 1].get("Z")):
                    bad.append(f"selection{i}: {case['steps'][i]['how']} != model")
            if any(pl != case["ploidy"] for pl in obs["ploidies"]):
                bad.append(f"ploidy of the selected object: {obs['ploidies']}")
        if case["kind"] == "programme":
            for i in range(len(case["gens"])):
                if ans[f"select{i}"] != obs["pops"][2 * i + 1]["G"]:
                    bad.append(f"selection{i}: {case['gens'][i].get('cull', 'select')} != model")
            for i, mt in enumerate(obs["matings"]):
                if not mt["parents_untouched"]:
                    bad.append(f"mating{i}:parents modified")
                if not mt.get("meta_ok", True):
                    bad.append(f"mating{i}:variant metadata of the progeny differs from the parents'")
                if mt["draws"] is not None:
                    if ans[f"mate{i}"] != obs["pops"][2 * i + 2]["G"]:
                        bad.append(f"mating{i}:{case['gens'][i]['protocol']} progeny != model")
        corr = not bad
        # non-triviality
        if case["kind"] == "big":
            nontriv = bool(case["off"])
        elif case["kind"] == "static":
            fr = [canon.dec(x) for x in obs["gens"][0]["afreq"]]
            nontriv = any(0 < x < 1 for x in fr) and any(Fraction(v) != 0 for r in case["U"] for v in r)
        elif case["kind"] == "uhist":
            f0 = [canon.dec(x) for x in obs["gens"][0]["afreq"]]
            f1 = [canon.dec(x) for x in obs["gens"][-1]["afreq"]]
            nontriv = any(0 < x < 1 and y in (0, 1) for x, y in zip(f0, f1))
        else:
            def alleles(p):
                G = p["G"]
                return [{G[c][i][j] for c in range(2) for i in range(p["nt"])} for j in range(case["nv"])]
            a0, a1 = alleles(obs["pops"][0]), alleles(obs["pops"][-1])
            nontriv = any(len(x) > len(y) for x, y in zip(a0, a1))
        fails = spec["detail"] + ("" if spec_nd["ok"] else " | ndarray form, default ploidy: " + spec_nd["detail"])
        detail = (f"spec_fail=[{fails}] model_vs_impl_diff={bad[:6]} kind={case['kind']} "
                  f"features={case.get('features', [])} "
                  f"sizes={[p['nt'] for p in (obs.get('pops') or [obs.get('pop') or case['pop']])]} "
                  f"usl={obs['gens'][0]['usl']} lsl={obs['gens'][0]['lsl']}")
        return {"corr": corr, "spec": bool(spec["ok"]) and bool(spec_nd["ok"]), "nontrivial": bool(nontriv),
                "detail": detail}

    def signature(self, case, obs, verdict):
        return {"kind": case["kind"], "clauses": (verdict.get("detail", "").split("]")[0])[:200]}

    @staticmethod
    def _retrait(case):
        """the case restricted to its first trait (every per-trait array, also those of the model object's history)"""
        c = dict(case, ntrait=1, U=[r[:1] for r in case["U"]], beta=[r[:1] for r in case["beta"]])
        if case.get("u_misc") is not None:
            c["u_misc"] = [r[:1] for r in case["u_misc"]]
        mo = case.get("model_ops")
        if mo:
            c["model_ops"] = dict(mo, U0=[r[:1] for r in mo["U0"]], beta0=[r[:1] for r in mo["beta0"]],
                                  edits_u=[e for e in mo.get("edits_u") or [] if e.get("t", 0) == 0],
                                  edits_b=[e for e in mo.get("edits_b") or [] if e.get("t", 0) == 0])
        return c

    @staticmethod
    def _unlocus(case, j):
        """U (and the model object's history) without marker j"""
        c = {"U": case["U"][:j] + case["U"][j + 1:]}
        mo = case.get("model_ops")
        if mo:
            eu = [dict(e, j=e["j"] - 1) if e["op"] == "set" and e["j"] > j else e
                  for e in mo.get("edits_u") or [] if not (e["op"] == "set" and e["j"] == j)]
            c["model_ops"] = dict(mo, U0=mo["U0"][:j] + mo["U0"][j + 1:], edits_u=eu)
        return c

    def _shrink_model(self, case):
        """simpler model objects: no miscellaneous effects, fewer of them; no history (constructed from the final
        arrays), no priming call, no copy, edits through the getter, one edit less"""
        if case.get("u_misc") is not None:
            yield {k: v for k, v in case.items() if k != "u_misc"}
            if len(case["u_misc"]) > 1:
                yield dict(case, u_misc=case["u_misc"][:1])
        mo = case.get("model_ops")
        if not mo:
            return
        yield {k: v for k, v in case.items() if k != "model_ops"}
        if mo.get("prime"):
            yield dict(case, model_ops=dict(mo, prime=False))
        if mo.get("then"):
            yield dict(case, model_ops=dict(mo, then=None))
        if mo.get("via", "getter") != "getter":
            yield dict(case, model_ops=dict(mo, via="getter"))
        for key, tgt, src in (("edits_u", "U", "U0"), ("edits_b", "beta", "beta0")):
            es = mo.get(key) or []
            for i in range(len(es)):
                es2 = es[:i] + es[i + 1:]
                yield dict(case, **{tgt: canon.enc(self._apply_edits(mo[src], es2)), "model_ops": dict(mo, **{key: es2})})

    def shrink(self, case):
        if case["kind"] in ("sweep",):
            return
        if case["kind"] == "wide":
            for i in range(len(case["runs"])):
                if len(case["runs"]) > 1:
                    yield dict(case, runs=case["runs"][:i] + case["runs"][i + 1:])
            return
        if case["kind"] == "big":
            yield from self._shrink_model(case)
            if case["n"] > 50000:
                yield dict(case, n=max(50000, case["n"] // 2))
            return
        nv = case["nv"]
        yield from self._shrink_model(case)
        for key in ("layout", "neg_idx"):
            if case.get(key):
                yield {k: v for k, v in case.items() if k != key}
        if case.get("meta"):
            yield {k: v for k, v in case.items() if k != "meta"}
            if len(case["meta"]) > 1:
                yield dict(case, meta={"vrnt_mask": case["meta"]["vrnt_mask"]})
        if case["kind"] == "static":
            case = {k: v for k, v in case.items() if k != "meta"}        # labels would not fit a smaller population
        if case["kind"] == "uhist":
            if len(case["steps"]) > 1:
                yield dict(case, steps=case["steps"][:-1])
            if case.get("touch"):
                yield dict(case, touch=[])
                yield dict(case, touch=case["touch"][:1])
            if case["ntrait"] > 1:
                yield self._retrait(case)
            return
        if case["kind"] == "static":
            pop = case["pop"]
            nt = pop["nt"]
            if nt > 3:
                h = nt // 2
                for lo, hi in ((0, h), (h, nt)):
                    p = dict(pop, nt=hi - lo)
                    if "G" in pop:
                        p["G"] = [ph[lo:hi] for ph in pop["G"]]
                    else:
                        p["Z"] = pop["Z"][lo:hi]
                    yield dict(case, pop=p)
            if nt > 1:
                for i in ([0, nt - 1, nt // 2] if nt > 3 else range(nt)):
                    p = dict(pop, nt=nt - 1)
                    if "G" in pop:
                        p["G"] = [ph[:i] + ph[i + 1:] for ph in pop["G"]]
                    else:
                        p["Z"] = pop["Z"][:i] + pop["Z"][i + 1:]
                    yield dict(case, pop=p)
            if nv > 1:
                for j in range(nv):
                    p = dict(pop)
                    if "G" in pop:
                        p["G"] = [[r[:j] + r[j + 1:] for r in ph] for ph in pop["G"]]
                    else:
                        p["Z"] = [r[:j] + r[j + 1:] for r in pop["Z"]]
                    yield dict(case, nv=nv - 1, pop=p, **self._unlocus(case, j))
            if case["ntrait"] > 1:
                yield self._retrait(case)
        else:
            if len(case["gens"]) > 1:
                yield dict(case, gens=case["gens"][:-1])
            for i, g in enumerate(case["gens"]):
                if g["nself"] > 0:
                    gs = list(case["gens"])
                    gs[i] = dict(g, nself=0)
                    yield dict(case, gens=gs)
                if g.get("touch"):
                    gs = list(case["gens"])
                    gs[i] = dict(g, touch=g["touch"][:len(g["touch"]) // 2])
                    yield dict(case, gens=gs)
            if case.get("touch0"):
                yield dict(case, touch0=[])
            if case["ntrait"] > 1:
                yield self._retrait(case)

    # ------------------------------------------------------------------ self-test mutants
    def mutants(self):
        gmod, ug, pg, mutil, prots = _mods()
        GM = gmod.DenseAdditiveLinearGenomicModel
        UG, PG = ug.DenseGenotypeMatrix, pg.DensePhasedGenotypeMatrix
        import importlib
        prot_mods = [importlib.import_module("pybrops.breed.prot.mate." + n) for n in PROTOCOLS]

        @contextlib.contextmanager
        def patch(*triples):
            missing = object()
            olds = [(o, n, o.__dict__.get(n, missing)) for o, n, _ in triples]
            for o, n, new in triples:
                setattr(o, n, new)
            try:
                yield
            finally:
                for o, n, old in olds:
                    if old is missing:
                        delattr(o, n)
                    else:
                        setattr(o, n, old)

        def loc(self):
            nfixed = self.beta.shape[0]
            X = numpy.empty((1, nfixed), dtype=self.beta.dtype)
            X[0, 0] = 1
            X[0, 1:] = 1 / nfixed
            return (X @ self.beta).ravel()

        def make_limit(pos_test, neg_test, ploidy_factor=True, add_loc=1):
            def f(self, p, ploidy, unscale=False, **kw):
                p = p[:, None]
                geno = numpy.where(self.u_a > 0.0, pos_test(p), neg_test(p))
                out = ((float(ploidy) if ploidy_factor else 1.0) * self.u_a * geno).sum(0)
                if unscale:
                    out = out + add_loc * loc(self)
                return out
            return f

        gt0, ge1 = (lambda p: p > 0.0), (lambda p: p >= 1.0)
        usl_loose = make_limit(gt0, lambda p: p > 0.999)
        usl_swapped = make_limit(ge1, gt0)                       # the two `where` branches swapped
        lsl_noploidy = make_limit(ge1, gt0, ploidy_factor=False)
        lsl_ge0 = make_limit(ge1, lambda p: p >= 0.0)
        usl_loc_twice = make_limit(gt0, ge1, add_loc=2)
        near1 = lambda p: numpy.isclose(p, 1.0)                  # tolerance instead of exact fixation
        not0 = lambda p: ~numpy.isclose(p, 0.0)
        usl_isclose = make_limit(not0, near1)
        lsl_isclose = make_limit(near1, not0)

        def cast(out, dtype):
            if dtype is not None:
                dtype = numpy.dtype(dtype)
                if out.dtype != dtype:
                    out = dtype.type(out)
            return out

        def u_afreq_recip(self, dtype=None):
            return cast((1.0 / (self.ploidy * self.ntaxa)) * self._mat.sum(self.taxa_axis), dtype)

        def p_afreq_recip(self, dtype=None):
            return cast((1.0 / (self.ploidy * self.ntaxa)) * self._mat.sum((self.phase_axis, self.taxa_axis)), dtype)

        def usl_array_recip(self, gtobj, ploidy=None, unscale=False, **kw):
            if isinstance(gtobj, numpy.ndarray):
                ploidy = 2 if ploidy is None else ploidy
                p = (1.0 / (ploidy * gtobj.shape[0])) * gtobj.sum(0)
            else:
                p, ploidy = gtobj.afreq(), gtobj.ploidy
            return self.usl_numpy(p, ploidy, unscale, **kw)

        def meiosis_mutating(geno, sel, xoprob, rng):
            rnd = rng.uniform(0, 1, (len(sel), len(xoprob)))
            gamete = numpy.empty((len(sel), len(xoprob)), dtype=geno.dtype)
            for i, s in enumerate(sel):
                xoix = numpy.flatnonzero(rnd[i] < xoprob)
                phase, stix = 0, 0
                for spix in xoix:
                    gamete[i, stix:spix] = geno[phase, s, stix:spix]
                    stix = spix
                    phase = 1 - phase
                gamete[i, stix:] = 1 - geno[phase, s, stix:]     # last segment complemented = mutation
            return gamete

        def meiosis_last_segment_dropped(geno, sel, xoprob, rng):
            rnd = rng.uniform(0, 1, (len(sel), len(xoprob)))
            gamete = numpy.zeros((len(sel), len(xoprob)), dtype=geno.dtype)
            for i, s in enumerate(sel):
                xoix = numpy.flatnonzero(rnd[i] < xoprob)
                phase, stix = 0, 0
                for spix in xoix:
                    gamete[i, stix:spix] = geno[phase, s, stix:spix]
                    stix = spix
                    phase = 1 - phase
            return gamete

        def meiosis_crossover_on_tie(geno, sel, xoprob, rng):
            rnd = rng.uniform(0, 1, (len(sel), len(xoprob)))
            gamete = numpy.empty((len(sel), len(xoprob)), dtype=geno.dtype)
            for i, s in enumerate(sel):
                xoix = numpy.flatnonzero(rnd[i] <= xoprob)         # `<=`: a tie (and u = 0 at xoprob = 0) crosses over
                phase, stix = 0, 0
                for spix in xoix:
                    gamete[i, stix:spix] = geno[phase, s, stix:spix]
                    stix = spix
                    phase = 1 - phase
                gamete[i, stix:] = geno[phase, s, stix:]
            return gamete

        def mate_with(meio):
            def mat_mate(fgeno, mgeno, fsel, msel, xoprob, rng):
                return numpy.stack([meio(fgeno, fsel, xoprob, rng), meio(mgeno, msel, xoprob, rng)])

            def mat_dh(geno, sel, xoprob, rng):
                g = meio(geno, sel, xoprob, rng)
                return numpy.stack([g, g])
            trip = []
            for m in prot_mods:
                if hasattr(m, "mat_mate"):
                    trip.append((m, "mat_mate", mat_mate))
                if hasattr(m, "mat_dh"):
                    trip.append((m, "mat_dh", mat_dh))
            return trip

        def select_immigrant(self, indices, **kw):
            out = _orig_select(self, indices, **kw)
            m = out.mat.copy()
            m[0, 0, :] = 1 - m[0, 0, :]                           # an immigrant chromosome
            out.mat = m
            return out
        _orig_select = PG.__dict__["select_taxa"]

        # -- classes found by independent breaking changes (round 4)
        TW = prots["TwoWayCross"]
        _orig_tw_mate = TW.__dict__["mate"]

        def twoway_mate_regroups(self, pgmat, xconfig, nmating=1, nprogeny=1, miscout=None, nself=0, **kw):
            progeny = _orig_tw_mate(self, pgmat, xconfig, nmating, nprogeny, miscout, nself, **kw)
            if progeny.vrnt_chrgrp is not None:
                progeny.group_vrnt()                    # lexsorts the variant axis: loci move when the founders are unsorted
            return progeny

        _orig_ug_select = UG.__dict__["select_taxa"]
        DTVM = UG.__mro__[1]

        def u_select_drops_ploidy(self, indices, **kw):
            if type(self) is UG:
                return DTVM.select_taxa(self, indices=indices, **kw)      # constructor default ploidy = 2
            return _orig_ug_select(self, indices, **kw)

        def p_afreq_memo(self, dtype=None):
            memo = self.__dict__.get("_afreq_memo")
            if memo is None or memo[0] is not self.__dict__.get("_mat_set_token"):
                memo = (self.__dict__.get("_mat_set_token"), self._mat.sum((self.phase_axis, self.taxa_axis)) / (self.ploidy * self.ntaxa))
                self.__dict__["_afreq_memo"] = memo
            return cast(memo[1], dtype)                  # the memoised array itself is handed out

        _pg_mat_prop = PG.__dict__["mat"]

        def _pg_mat_set(self, value):
            _pg_mat_prop.fset(self, value)
            self.__dict__["_mat_set_token"] = object()   # the memo is dropped by the setter only

        pg_mat_memo = property(_pg_mat_prop.fget, _pg_mat_set, _pg_mat_prop.fdel, _pg_mat_prop.__doc__)

        def meiosis_flat_take(geno, sel, xoprob, rng):
            rnd = rng.uniform(0, 1, (len(sel), len(xoprob)))
            phase = numpy.cumsum(rnd < xoprob, axis=1) & 1
            ntaxa, nvrnt = geno.shape[1:]
            rowix = numpy.asarray(sel) * nvrnt                        # computed in the dtype of `sel`: wraps for int8/int16
            ix = phase * (ntaxa * nvrnt) + rowix[:, None] + numpy.arange(nvrnt)
            return numpy.take(geno, ix)

        def limit_ploidy_from_max(which):
            def f(self, gtobj, ploidy=None, unscale=False, **kw):
                if isinstance(gtobj, numpy.ndarray):
                    if ploidy is None:
                        ploidy = int(gtobj.max())                     # 'read the ploidy off the matrix'
                    p = gtobj.sum(0) / (ploidy * gtobj.shape[0])
                else:
                    p, ploidy = gtobj.afreq(), gtobj.ploidy
                return getattr(self, which)(p, ploidy, unscale, **kw)
            return f

        def limit_masked_variants_lost(which):
            def f(self, gtobj, ploidy=None, unscale=False, **kw):
                if isinstance(gtobj, numpy.ndarray):
                    ploidy = 2 if ploidy is None else ploidy
                    p = gtobj.sum(0) / (ploidy * gtobj.shape[0])
                else:
                    p, ploidy = gtobj.afreq(), gtobj.ploidy
                    if getattr(gtobj, "vrnt_mask", None) is not None:
                        p = numpy.where(gtobj.vrnt_mask, p, 0.0)    # 'masked variants are not part of the panel'
                return getattr(self, which)(p, ploidy, unscale, **kw)
            return f

        pg_ploidy_default = property(lambda self: self._ploidy)       # the constructor default (2), not the phases

        def p_acount_native(self, dtype=None):
            return self._mat.sum((self.phase_axis, self.taxa_axis), dtype=self._mat.dtype if dtype is None else dtype)

        def p_afreq_via_acount(self, dtype=None):
            return cast(self.acount() / (self.ploidy * self.ntaxa), dtype)

        # -- classes found by independent breaking changes (round 5)
        def make_limit_from(effects):
            """usl_numpy / lsl_numpy with the marker effects (and the sign test) taken from `effects(self, p)`"""
            def mk(pos_test, neg_test):
                def f(self, p, ploidy, unscale=False, **kw):
                    p = p[:, None]
                    u_a, pos = effects(self, p)
                    out = (float(ploidy) * u_a * numpy.where(pos, pos_test(p), neg_test(p))).sum(0)
                    if unscale:
                        out = out + loc(self)
                    return out
                return f
            return mk(gt0, ge1), mk(ge1, gt0)

        def _u_block(self, p):          # 'the marker block of u': right only while u_misc is empty
            u = self.u[:len(p)]
            return u, u > 0.0
        usl_ublock, lsl_ublock = make_limit_from(_u_block)

        def _stale_mask(self, p):       # the sign mask is computed by the setter and never refreshed
            return self.u_a, self._u_a_pos
        usl_stale, lsl_stale = make_limit_from(_stale_mask)
        _ua_prop = GM.__dict__["u_a"]

        def _ua_set_mask(self, value):
            _ua_prop.fset(self, value)
            self._u_a_pos = (value > 0.0)
        ua_with_mask = property(_ua_prop.fget, _ua_set_mask, _ua_prop.fdel, _ua_prop.__doc__)

        def _lazy_product(self, p):     # ploidy-free product memoised at the first limit evaluation (a COPY of u_a)
            memo = self.__dict__.get("_ua_memo")
            if memo is None:
                memo = self.__dict__["_ua_memo"] = numpy.array(self.u_a, copy=True)
            return memo, memo > 0.0
        usl_lazy, lsl_lazy = make_limit_from(_lazy_product)

        def ua_set_drops_memo(self, value):
            _ua_prop.fset(self, value)
            self.__dict__.pop("_ua_memo", None)
        ua_memo_prop = property(_ua_prop.fget, ua_set_drops_memo, _ua_prop.fdel, _ua_prop.__doc__)

        _beta_prop = GM.__dict__["beta"]

        def _beta_set_loc(self, value):
            _beta_prop.fset(self, value)
            nf = value.shape[0]
            X = numpy.full((1, nf), 1 / nf)
            X[0, 0] = 1
            self._loc_memo = (X @ value).ravel()         # location computed once by the setter

        beta_with_loc = property(_beta_prop.fget, _beta_set_loc, _beta_prop.fdel, _beta_prop.__doc__)

        def limit_loc_memo(pos_test, neg_test):
            def f(self, p, ploidy, unscale=False, **kw):
                p = p[:, None]
                out = (float(ploidy) * self.u_a * numpy.where(self.u_a > 0.0, pos_test(p), neg_test(p))).sum(0)
                if unscale:
                    out = out + self._loc_memo
                return out
            return f

        def limit_ploidy_product_in_callers_type(which):      # D62 undone: the denominator formed with the caller's scalar
            def f(self, gtobj, ploidy=None, unscale=False, **kw):
                if isinstance(gtobj, numpy.ndarray):
                    ploidy = 2 if ploidy is None else ploidy
                    with numpy.errstate(over="ignore"):
                        p = gtobj.sum(0) / (ploidy * gtobj.shape[0])
                else:
                    p, ploidy = gtobj.afreq(), gtobj.ploidy
                return getattr(self, which)(p, ploidy, unscale, **kw)
            return f

        return [
            ("usl_lsl_ploidy_product_in_callers_scalar_type_D62", lambda: patch((GM, "usl", limit_ploidy_product_in_callers_type("usl_numpy")),
                                                                                 (GM, "lsl", limit_ploidy_product_in_callers_type("lsl_numpy")))),
            ("limits_read_marker_block_of_u_without_misc_offset", lambda: patch((GM, "usl_numpy", usl_ublock), (GM, "lsl_numpy", lsl_ublock))),
            ("effect_sign_mask_precomputed_by_setter", lambda: patch((GM, "u_a", ua_with_mask), (GM, "usl_numpy", usl_stale),
                                                                      (GM, "lsl_numpy", lsl_stale))),
            ("effects_memoised_at_first_limit_call", lambda: patch((GM, "u_a", ua_memo_prop), (GM, "usl_numpy", usl_lazy),
                                                                    (GM, "lsl_numpy", lsl_lazy))),
            ("location_precomputed_by_beta_setter", lambda: patch((GM, "beta", beta_with_loc), (GM, "usl_numpy", limit_loc_memo(gt0, ge1)),
                                                                   (GM, "lsl_numpy", limit_loc_memo(ge1, gt0)))),
            ("usl_lsl_masked_variants_count_as_lost", lambda: patch((GM, "usl", limit_masked_variants_lost("usl_numpy")),
                                                                     (GM, "lsl", limit_masked_variants_lost("lsl_numpy")))),
            ("phased_ploidy_is_constructor_default", lambda: patch((PG, "ploidy", pg_ploidy_default))),
            ("phased_afreq_from_int8_allele_counts", lambda: patch((PG, "acount", p_acount_native), (PG, "afreq", p_afreq_via_acount))),
            ("twoway_progeny_variants_regrouped", lambda: patch((TW, "mate", twoway_mate_regroups))),
            ("unphased_select_taxa_drops_ploidy", lambda: patch((UG, "select_taxa", u_select_drops_ploidy))),
            ("phased_afreq_memo_dropped_by_setter_only", lambda: patch((PG, "afreq", p_afreq_memo), (PG, "mat", pg_mat_memo))),
            ("meiosis_flat_take_index_in_sel_dtype", lambda: patch(*mate_with(meiosis_flat_take))),
            ("usl_lsl_ndarray_default_ploidy_from_max", lambda: patch((GM, "usl", limit_ploidy_from_max("usl_numpy")),
                                                                       (GM, "lsl", limit_ploidy_from_max("lsl_numpy")))),
            ("usl_fixation_test_loosened", lambda: patch((GM, "usl_numpy", usl_loose))),
            ("usl_where_branches_swapped", lambda: patch((GM, "usl_numpy", usl_swapped))),
            ("lsl_without_ploidy", lambda: patch((GM, "lsl_numpy", lsl_noploidy))),
            ("lsl_presence_test_ge_zero", lambda: patch((GM, "lsl_numpy", lsl_ge0))),
            ("usl_lsl_fixation_test_isclose", lambda: patch((GM, "usl_numpy", usl_isclose), (GM, "lsl_numpy", lsl_isclose))),
            ("usl_fixation_test_isclose", lambda: patch((GM, "usl_numpy", usl_isclose))),
            ("lsl_fixation_test_isclose", lambda: patch((GM, "lsl_numpy", lsl_isclose))),
            ("usl_location_added_twice", lambda: patch((GM, "usl_numpy", usl_loc_twice))),
            ("afreq_reciprocal_form_D1", lambda: patch((UG, "afreq", u_afreq_recip), (PG, "afreq", p_afreq_recip))),
            ("usl_ndarray_path_reciprocal_form", lambda: patch((GM, "usl", usl_array_recip))),
            ("meiosis_crossover_on_tie", lambda: patch(*mate_with(meiosis_crossover_on_tie))),
            ("meiosis_mutates_last_segment", lambda: patch(*mate_with(meiosis_mutating))),
            ("meiosis_last_segment_not_copied", lambda: patch(*mate_with(meiosis_last_segment_dropped))),
            ("selection_lets_an_immigrant_in", lambda: patch((PG, "select_taxa", select_immigrant))),
        ]


PROP = C10()
