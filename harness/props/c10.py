"""C10 — selection limits bound every attainable value and only ever tighten.

Implementation under test: DenseAdditiveLinearGenomicModel.usl/lsl/usl_numpy/lsl_numpy/gebv/gebv_numpy,
the afreq() they call, select_taxa, and the seven mating protocols driven by real numpy generators.
Model: Model/SelLimit.lean (`c10.limits`, `c10.mate`); Spec: `c10.spec` evaluated on the implementation's
whole trajectory (raw genotypes of every generation + reported limits and breeding values).
"""
import contextlib
from fractions import Fraction

import numpy

from .. import canon, compat
from ..core import Prop

compat.install()

BOUNDARY_N = [49, 98, 103, 107, 161, 187, 196, 197]
PROTOCOLS = {"SelfCross": 1, "TwoWayCross": 2, "TwoWayDHCross": 2, "ThreeWayCross": 3,
             "ThreeWayDHCross": 3, "FourWayCross": 4, "FourWayDHCross": 4}
TOL = Fraction(1, 10 ** 9)
MAX_DRAWS_FUNCTIONAL = 900      # mating is compared functionally (scripted draws) up to this many uniforms


def _mods():
    compat.import_pybrops()
    import pybrops.model.gmod.DenseAdditiveLinearGenomicModel as gmod
    import pybrops.popgen.gmat.DenseGenotypeMatrix as ug
    import pybrops.popgen.gmat.DensePhasedGenotypeMatrix as pg
    import pybrops.breed.prot.mate.util as mutil
    import pybrops.breed.prot.mate as mate
    import importlib
    prots = {name: getattr(importlib.import_module("pybrops.breed.prot.mate." + name), name) for name in PROTOCOLS}
    return gmod, ug, pg, mutil, prots


def _f(x):
    return float(Fraction(x))


class RecordingGenerator(numpy.random.Generator):
    """a genuine numpy Generator (PCG64) that also logs every uniform matrix it hands out"""

    def __init__(self, seed):
        super().__init__(numpy.random.PCG64(seed))
        self.log = []

    def uniform(self, low=0.0, high=1.0, size=None):
        r = super().uniform(low, high, size)
        self.log.append(numpy.array(r, copy=True))
        return r


class RecordingRandomState(numpy.random.RandomState):
    """the legacy generator type the protocols also accept"""

    def __init__(self, seed):
        super().__init__(seed)
        self.log = []

    def uniform(self, low=0.0, high=1.0, size=None):
        r = super().uniform(low, high, size)
        self.log.append(numpy.array(r, copy=True))
        return r


class RecordingMT(numpy.random.Generator):
    def __init__(self, seed):
        super().__init__(numpy.random.MT19937(seed))
        self.log = []

    def uniform(self, low=0.0, high=1.0, size=None):
        r = super().uniform(low, high, size)
        self.log.append(numpy.array(r, copy=True))
        return r


class ScriptedGenerator(numpy.random.Generator):
    """a numpy Generator whose `uniform` hands out boundary values on purpose: exactly 0.0, exactly the
    crossover probability of the marker (tie: `rnd < xoprob` is False), the float just below it (crossover),
    1 - 2^-53, and ordinary values — chosen by a seeded python PRNG; everything it returns is logged"""

    def __init__(self, seed, xo):
        super().__init__(numpy.random.PCG64(seed))
        import random as _random
        self._r = _random.Random(seed)
        self._xo = numpy.asarray(xo, dtype=float)
        self.log = []
        self.nties = 0
        self.nzero = 0

    def uniform(self, low=0.0, high=1.0, size=None):
        out = numpy.empty(size, dtype=float)
        nr, nc = out.shape
        for i in range(nr):
            for j in range(nc):
                c = self._r.random()
                x = self._xo[j]
                if c < 0.2:
                    v = 0.0
                    self.nzero += 1
                elif c < 0.45:
                    v = x if x < 1.0 else 0.5          # tie with the crossover probability
                    self.nties += 1
                elif c < 0.6:
                    v = float(numpy.nextafter(x, 0.0)) if x > 0.0 else 0.0
                elif c < 0.7:
                    v = 1.0 - 2.0 ** -53
                else:
                    v = self._r.random()
                out[i, j] = v
        self.log.append(out.copy())
        return out


RNGS = {"pcg64": RecordingGenerator, "mt19937": RecordingMT, "randomstate": RecordingRandomState}


class C10(Prop):
    PID = "C10"
    MODULE = "PybropsModel.Props.C10"
    N_QUICK = 70
    N_THOROUGH = 2500
    RULE = ("static: one population (phased diploid, or unphased dosage with ploidy 1/2/4, as object or as "
            "ndarray) of 1-12 taxa or a boundary size (49, 98, 103, 107, 161, 187, 196, 197), loci from the patterns "
            "fixed-1/fixed-0/one-copy-off/heterozygous/random, a best and a worst genotype added, additive models "
            "with 1-3 traits, effects of both signs and zeros, 1-3 fixed effects; fully fixed populations at "
            "every boundary size.  programme: founders -> [select_taxa -> one of the seven mating protocols with "
            "random cross configuration, counts and selfing depth] x 1-3 generations with a real seeded "
            "generator (Generator/PCG64, Generator/MT19937, RandomState) or a scripted Generator subclass whose uniforms hit "
            "exactly 0.0, exactly xoprob[j] (tie), the float just below it and 1-2^-53, progeny sizes drawn from the boundary list; limits, breeding values and raw genotypes "
            "recorded for founders, every selected parent set and every progeny set.  Non-trivial = some "
            "locus polymorphic and some effect non-zero (static) / at least one allele lost along the history "
            "(programme)")
    TRUSTED = ["numpy generators (their draws are recorded and replayed through the model for small cases)",
               "matrix product Z @ u_a and BreedingValueMatrix scale/unscale round trip (compared with tolerance 1e-9)"]
    ASSUMPTIONS = ["binary alleles, diploid mating, no immigration/mutation (the property's closed-history premise)",
                   "effects and fixed effects are small dyadic rationals, so the limits are exact in binary64",
                   "cross configurations index the selected parent set (valid indices)"]

    # ------------------------------------------------------------------ generation helpers
    @staticmethod
    def _locus(rng, n, k, pat):
        if pat == "one":
            return [[1] * k for _ in range(n)]
        if pat == "zero":
            return [[0] * k for _ in range(n)]
        if pat == "one_off":
            c = [[1] * k for _ in range(n)]
            c[rng.randrange(n)][rng.randrange(k)] = 0
            return c
        if pat == "zero_off":
            c = [[0] * k for _ in range(n)]
            c[rng.randrange(n)][rng.randrange(k)] = 1
            return c
        if pat == "het":
            out = []
            for _ in range(n):
                c = [1] * (k // 2) + [0] * (k - k // 2)
                rng.shuffle(c)
                out.append(c)
            return out
        pr = rng.choice([0.15, 0.5, 0.85])
        return [[1 if rng.random() < pr else 0 for _ in range(k)] for _ in range(n)]

    @staticmethod
    def _model(rng, nv):
        ntrait = rng.choice([1, 1, 2, 3])
        vals = [-2, -1, Fraction(-1, 2), 0, 0, Fraction(1, 2), 1, 2, 3]
        U = [[rng.choice(vals) for _ in range(ntrait)] for _ in range(nv)]
        q = rng.choice([1, 1, 2, 3])
        beta = [[rng.choice([0, 0, 1, -3, 10, Fraction(5, 2)]) for _ in range(ntrait)] for _ in range(q)]
        return ntrait, canon.enc(U), canon.enc(beta)

    def _static(self, rng, n, fixed_only=False):
        kind = rng.choice(["phased", "phased", "unphased", "ndarray"])
        k = 2 if kind == "phased" else rng.choice([1, 2, 2, 4])
        nv = rng.choice([1, 2, 3, 4, 5])
        pats = [rng.choice(["one", "zero"] if fixed_only else
                           ["one", "zero", "one_off", "zero_off", "het", "rand", "rand"]) for _ in range(nv)]
        loci = [self._locus(rng, n, k, p) for p in pats]
        ntrait, U, beta = self._model(rng, nv)
        rows = [[loci[j][i] for j in range(nv)] for i in range(n)]        # [taxon][locus][copy]
        if not fixed_only and n >= 3:
            # a best and a worst genotype for trait 0 among the alleles present (makes the bracket tight)
            u0 = [Fraction(r[0]) for r in canon.dec(U)]
            for i, sign in ((0, 1), (1, -1)):
                for j in range(nv):
                    present = {a for r in rows for a in r[j]}
                    want = 1 if sign * u0[j] > 0 else 0
                    if want in present:
                        rows[i][j] = [want] * k
        if kind == "phased":
            pop = {"nt": n, "G": [[[rows[i][j][c] for j in range(nv)] for i in range(n)] for c in range(k)]}
        else:
            pop = {"nt": n, "ploidy": k, "Z": [[sum(rows[i][j]) for j in range(nv)] for i in range(n)]}
        return {"kind": "static", "path": kind, "nv": nv, "ntrait": ntrait, "U": U, "beta": beta, "pop": pop}

    def _programme(self, rng, tier):
        nv = rng.choice([2, 3, 4, 5])
        n0 = rng.choice([3, 4, 6, 8, 12, rng.choice(BOUNDARY_N)])
        pats = [rng.choice(["one", "zero", "one_off", "zero_off", "het", "rand", "rand", "rand"]) for _ in range(nv)]
        loci = [self._locus(rng, n0, 2, p) for p in pats]
        G = [[[loci[j][i][c] for j in range(nv)] for i in range(n0)] for c in range(2)]
        ntrait, U, beta = self._model(rng, nv)
        xo = [rng.choice([0.5, 0.5, 0.25, 0.1, 0.0, 0.375]) for _ in range(nv)]
        xo[0] = 0.5
        gens = []
        n = n0
        for _ in range(rng.choice([1, 2, 2, 3])):
            nsel = rng.choice([1, 2, 2, 3, 4, min(n, 6)])
            nsel = max(1, min(nsel, n))
            if rng.random() < 0.7:
                select = sorted(rng.sample(range(n), nsel))
            else:
                select = [rng.randrange(n) for _ in range(nsel)]          # with repeats, unsorted
            prot = rng.choice(sorted(PROTOCOLS))
            npar = PROTOCOLS[prot]
            target = rng.choice([1, 2, 3, 5, 8, rng.choice(BOUNDARY_N)])
            if target in (49, 98, 196) and rng.random() < 0.5:
                ncross, nm, npg = 7, 1, target // 7
            elif target > 12:
                ncross, nm, npg = target, 1, 1
            else:
                ncross = rng.choice([1, 2, 3])
                nm, npg = rng.choice([1, 1, 2]), max(1, target // ncross)
            xconfig = [[rng.randrange(nsel) for _ in range(npar)] for _ in range(ncross)]
            if rng.random() < 0.3 and ncross <= 3:
                nm_c = [rng.choice([1, 2]) for _ in range(ncross)]
                np_c = [rng.choice([1, 2, 3]) for _ in range(ncross)]
            else:
                nm_c, np_c = nm, npg
            nself = rng.choice([0, 0, 1, 2, 3])
            gens.append({"select": select, "protocol": prot, "xconfig": xconfig, "nmating": nm_c,
                         "nprogeny": np_c, "nself": nself})
            nm_l = nm_c if isinstance(nm_c, list) else [nm_c] * ncross
            np_l = np_c if isinstance(np_c, list) else [np_c] * ncross
            n = sum(a * b for a, b in zip(nm_l, np_l))
        return {"kind": "programme", "nv": nv, "ntrait": ntrait, "U": U, "beta": beta, "xo": canon.enc(xo),
                "founders": G, "n0": n0, "seed": rng.randrange(2 ** 31), "gens": gens,
                "rng": rng.choice(["pcg64", "scripted", "scripted", "mt19937", "randomstate"])}

    def corpus(self):
        out = []
        # D1 regression: fully fixed populations at the boundary sizes: usl = lsl = common gebv = 2*(3-1) + ...
        for n in BOUNDARY_N[:4]:
            out.append({"kind": "static", "path": "phased", "nv": 3, "ntrait": 1,
                        "U": [[3], [-1], [2]], "beta": [[0]],
                        "pop": {"nt": n, "G": [[[1, 1, 0] for _ in range(n)] for _ in range(2)]}})
        out.append({"kind": "static", "path": "ndarray", "nv": 2, "ntrait": 2, "U": [[1, -1], [-2, "1/2"]],
                    "beta": [[1, 2], [4, 6]], "pop": {"nt": 49, "ploidy": 2, "Z": [[2, 0] for _ in range(49)]}})
        out.append({"kind": "static", "path": "unphased", "nv": 2, "ntrait": 1, "U": [[1], [-1]],
                    "beta": [[0]], "pop": {"nt": 49, "ploidy": 4, "Z": [[4, 4] for _ in range(49)]}})
        # one copy off in 1200: a comparison loosened to `p > 0.999` would call this locus fixed
        big = [[2] for _ in range(600)]
        big[17] = [1]
        out.append({"kind": "static", "path": "unphased", "nv": 1, "ntrait": 1, "U": [[-1]], "beta": [[0]],
                    "pop": {"nt": 600, "ploidy": 2, "Z": big}})
        # single individual; zero effects only
        out.append({"kind": "static", "path": "phased", "nv": 2, "ntrait": 2, "U": [[0, 1], [0, -1]],
                    "beta": [[5, 5], [1, 1], [1, 1]], "pop": {"nt": 1, "G": [[[1, 0]], [[0, 0]]]}})
        # a programme that reaches fixation at n = 49: one selected parent, doubled haploids, then selfing
        out.append({"kind": "programme", "nv": 3, "ntrait": 1, "U": [[1], [-1], [2]], "beta": [[0]],
                    "xo": canon.enc([0.5, 0.25, 0.5]), "n0": 4, "seed": 11,
                    "founders": [[[1, 0, 1], [0, 1, 1], [1, 1, 0], [0, 0, 1]], [[0, 0, 1], [1, 1, 1], [1, 0, 0], [0, 1, 1]]],
                    "gens": [{"select": [0, 1], "protocol": "TwoWayDHCross", "xconfig": [[0, 1]], "nmating": 1,
                              "nprogeny": 5, "nself": 0},
                             {"select": [2], "protocol": "SelfCross", "xconfig": [[0]] * 7, "nmating": 1,
                              "nprogeny": 7, "nself": 1}]})
        # very large populations one copy off fixation (and the all-fixed twin): a fixation test loosened to a
        # tolerance (numpy.isclose: 1e-5) only shows when 1/(ploidy*n) <= 1e-5
        big = {"kind": "big", "nv": 3, "ntrait": 2, "U": [[2, -1], [-3, 1], [1, 1]], "beta": [[1, -2], [4, 6]]}
        for i, (n, k) in enumerate([(50000, 2), (65536, 2), (100000, 2), (200001, 2), (100001, 1), (25000, 4), (30001, 4)]):
            objpath = "phased" if k == 2 else "unphased"
            for path in (objpath, "ndarray"):       # one copy of allele 0 left at locus 0, everything else fixed
                out.append(dict(big, n=n, ploidy=k, path=path, off="one0"))
            out.append(dict(big, n=n, ploidy=k, path=(objpath, "ndarray")[i % 2], off=None))     # the all-fixed twin
            if i in (0, 3, 4):                      # one copy of allele 1 at locus 1, everything else fixed
                for path in (objpath, "ndarray"):
                    out.append(dict(big, n=n, ploidy=k, path=path, off="one1"))
        # collapse clause for EVERY size 1..300 (quick); `exhaustive` extends it to 2000 (thorough)
        out.append({"kind": "sweep", "nmax": 300})
        return out

    def exhaustive(self, tier):
        if tier != "thorough":
            return None
        return [{"kind": "sweep", "nmax": 2000}]

    def generate(self, rng, n, tier):
        out = []
        for i in range(n):
            if i < len(BOUNDARY_N):
                out.append(self._static(rng, BOUNDARY_N[i], fixed_only=(i % 2 == 0)))
                continue
            if i in (len(BOUNDARY_N), len(BOUNDARY_N) + 1):     # two large populations of a random size per run
                k = rng.choice([1, 2, 2, 4])
                n = rng.randint(100000 // k + 1, 240000 // k)
                out.append({"kind": "big", "nv": 3, "ntrait": 2, "U": [[2, -1], [-3, 1], [1, 1]],
                            "beta": [[1, -2], [4, 6]], "n": n, "ploidy": k, "off": "one0",
                            "path": rng.choice(["phased" if k == 2 else "unphased", "ndarray"])})
                continue
            r = rng.random()
            if r < 0.45:
                c = self._programme(rng, tier)
                k = sum(1 for x in out if x["kind"] == "programme")
                if k < 7:       # every protocol and every generator type in every run
                    c["rng"] = ["scripted", "pcg64", "mt19937", "randomstate"][k % 4]
                    g0 = c["gens"][0]
                    prot = sorted(PROTOCOLS)[k]
                    nsel = len(g0["select"])
                    g0["protocol"] = prot
                    g0["xconfig"] = [[rng.randrange(nsel) for _ in range(PROTOCOLS[prot])] for _ in g0["xconfig"]]
                out.append(c)
            else:
                q = rng.random()
                nt = rng.choice(BOUNDARY_N) if q < 0.3 else rng.choice([1, 2, 3, 3, 4, 5, 8, 12])
                out.append(self._static(rng, nt, fixed_only=rng.random() < 0.15))
        return out

    # ------------------------------------------------------------------ implementation
    def _gm(self, case):
        gmod = _mods()[0]
        U = numpy.array([[_f(v) for v in r] for r in case["U"]], dtype=float).reshape(case["nv"], case["ntrait"])
        beta = numpy.array([[_f(v) for v in r] for r in case["beta"]], dtype=float).reshape(-1, case["ntrait"])
        return gmod.DenseAdditiveLinearGenomicModel(beta=beta, u_misc=None, u_a=U,
                                                    trait=numpy.array([f"t{i}" for i in range(case["ntrait"])], dtype=object))

    @staticmethod
    def _observe(gm, obj, Z, ploidy, as_array=False):
        if as_array:
            o = {"usl": gm.usl(Z, ploidy=ploidy), "lsl": gm.lsl(Z, ploidy=ploidy),
                 "usl_un": gm.usl(Z, ploidy=ploidy, unscale=True), "lsl_un": gm.lsl(Z, ploidy=ploidy, unscale=True),
                 "gebv_un": gm.gebv(Z).unscale(), "afreq": Z.sum(0) / (ploidy * Z.shape[0])}
        else:
            o = {"usl": gm.usl(obj), "lsl": gm.lsl(obj), "usl_un": gm.usl(obj, unscale=True),
                 "lsl_un": gm.lsl(obj, unscale=True), "gebv_un": gm.gebv(obj).unscale(), "afreq": obj.afreq()}
        o["gebv_raw"] = gm.gebv_numpy(Z)
        return {k: canon.enc(numpy.asarray(v)) for k, v in o.items()}

    def _sweep(self, case):
        """fully fixed diploid populations of every size: limits must equal the common value 3*2 - 1*2 = 4
        (and 4 - 3 with the location); a population with one copy off must keep the limits apart"""
        gmod, ug, pg, mutil, prots = _mods()
        gm = gmod.DenseAdditiveLinearGenomicModel(beta=numpy.array([[-3.0]]), u_misc=None,
                                                  u_a=numpy.array([[3.0], [-1.0], [2.0]]),
                                                  trait=numpy.array(["t0"], dtype=object))
        bad = []
        for n in range(1, case["nmax"] + 1):
            G = numpy.zeros((2, n, 3), dtype="int8")
            G[:, :, 0] = 1
            G[:, :, 1] = 1
            P = pg.DensePhasedGenotypeMatrix(G)
            Z = P.mat_asformat("{0,1,2}")
            vals = [gm.usl(P)[0], gm.lsl(P)[0], gm.usl(Z, ploidy=2)[0], gm.lsl(Z, ploidy=2)[0]]
            un = [gm.usl(P, unscale=True)[0], gm.lsl(P, unscale=True)[0]]
            gv = gm.gebv_numpy(Z)
            ok = all(v == 4.0 for v in vals) and all(v == 1.0 for v in un) and bool((gv == 4.0).all())
            if n >= 2:
                G2 = G.copy()
                G2[0, n // 2, 1] = 0            # allele 0 present once at the locus with the negative effect
                P2 = pg.DensePhasedGenotypeMatrix(G2)
                ok = ok and gm.usl(P2)[0] == 6.0 and gm.lsl(P2)[0] == 4.0
            if not ok:
                bad.append([n, canon.enc(vals)])
        return {"bad": bad[:20], "nbad": len(bad)}

    def _big(self, case):
        """(n,3) population: locus 0 fixed at 1, locus 1 fixed at 0, locus 2 fixed at 1; with `off` = "one0" / "one1" a single
        copy of the other allele survives at locus 0 / locus 1 and everything else is fixed, so the carrier's value
        IS one of the limits and any loosening of the fixation test puts it outside.  The n rows of breeding values are
        run-length compressed (distinct (dosage, gebv) rows + multiplicities) before they go to the Spec."""
        gmod, ug, pg, mutil, prots = _mods()
        gm = self._gm(case)
        n, k = case["n"], case["ploidy"]
        Z = numpy.zeros((n, 3), dtype="int8")
        Z[:, 0] = k
        Z[:, 2] = k
        if case["off"] == "one0":
            Z[n // 3, 0] = k - 1
        elif case["off"] == "one1":
            Z[(2 * n) // 3, 1] = 1
        if case["path"] == "phased":
            G = numpy.zeros((2, n, 3), dtype="int8")
            G[:, :, 0] = 1
            G[:, :, 2] = 1
            if case["off"] == "one0":
                G[1, n // 3, 0] = 0
            elif case["off"] == "one1":
                G[0, (2 * n) // 3, 1] = 1
            obj = pg.DensePhasedGenotypeMatrix(G)
            Zi = obj.mat_asformat("{0,1,2}")
        elif case["path"] == "unphased":
            obj = ug.DenseGenotypeMatrix(Z, ploidy=k)
            Zi = Z
        else:
            obj, Zi = None, Z
        if obj is None:
            o = {"usl": gm.usl(Zi, ploidy=k), "lsl": gm.lsl(Zi, ploidy=k),
                 "usl_un": gm.usl(Zi, ploidy=k, unscale=True), "lsl_un": gm.lsl(Zi, ploidy=k, unscale=True),
                 "afreq": Zi.sum(0) / (k * n)}
            gun = gm.gebv(Zi).unscale()
        else:
            o = {"usl": gm.usl(obj), "lsl": gm.lsl(obj), "usl_un": gm.usl(obj, unscale=True),
                 "lsl_un": gm.lsl(obj, unscale=True), "afreq": obj.afreq()}
            gun = gm.gebv(obj).unscale()
        graw = gm.gebv_numpy(Zi)
        nt_ = case["ntrait"]
        comb = numpy.hstack([numpy.asarray(Zi, dtype=float), numpy.asarray(graw, dtype=float), numpy.asarray(gun, dtype=float)])
        uniq, counts = numpy.unique(comb, axis=0, return_counts=True)
        obs = {k_: canon.enc(numpy.asarray(v)) for k_, v in o.items()}
        obs["gebv_raw"] = canon.enc(uniq[:, 3:3 + nt_])
        obs["gebv_un"] = canon.enc(uniq[:, 3 + nt_:])
        pop = {"nt": n, "ploidy": k, "rows": [[int(v) for v in r[:3]] for r in uniq], "mult": [int(c) for c in counts]}
        return {"gens": [obs], "pop": pop, "ndistinct": int(len(uniq))}

    def run_impl(self, case):
        if case["kind"] == "sweep":
            return self._sweep(case)
        if case["kind"] == "big":
            return self._big(case)
        gmod, ug, pg, mutil, prots = _mods()
        gm = self._gm(case)
        nv = case["nv"]
        if case["kind"] == "static":
            pop = case["pop"]
            if "G" in pop:
                obj = pg.DensePhasedGenotypeMatrix(numpy.array(pop["G"], dtype="int8").reshape(2, pop["nt"], nv))
                return {"gens": [self._observe(gm, obj, obj.mat_asformat("{0,1,2}"), 2)]}
            Z = numpy.array(pop["Z"], dtype="int8").reshape(pop["nt"], nv)
            if case["path"] == "ndarray":
                return {"gens": [self._observe(gm, None, Z, pop["ploidy"], as_array=True)]}
            obj = ug.DenseGenotypeMatrix(Z, ploidy=pop["ploidy"])
            return {"gens": [self._observe(gm, obj, Z, pop["ploidy"])]}
        # programme
        xo = numpy.array([_f(v) for v in case["xo"]])
        cur = pg.DensePhasedGenotypeMatrix(numpy.array(case["founders"], dtype="int8").reshape(2, case["n0"], nv),
                                           vrnt_xoprob=xo, vrnt_chrgrp=numpy.ones(nv, dtype="int64"),
                                           vrnt_phypos=numpy.arange(nv, dtype="int64"))
        if case.get("rng") == "scripted":
            rng = ScriptedGenerator(case["seed"], xo)
        else:
            rng = RNGS[case.get("rng", "pcg64")](case["seed"])
        pops = [{"nt": int(cur.ntaxa), "G": canon.enc(cur.mat)}]
        obs = [self._observe(gm, cur, cur.mat_asformat("{0,1,2}"), 2)]
        matings = []
        for g in case["gens"]:
            sel = cur.select_taxa(numpy.array(g["select"], dtype="int64"))
            pops.append({"nt": int(sel.ntaxa), "G": canon.enc(sel.mat)})
            obs.append(self._observe(gm, sel, sel.mat_asformat("{0,1,2}"), 2))
            prot = prots[g["protocol"]](rng=rng)
            nm = numpy.array(g["nmating"], dtype="int64") if isinstance(g["nmating"], list) else int(g["nmating"])
            npg = numpy.array(g["nprogeny"], dtype="int64") if isinstance(g["nprogeny"], list) else int(g["nprogeny"])
            before = len(rng.log)
            sel_before = sel.mat.copy()
            cur = prot.mate(sel, numpy.array(g["xconfig"], dtype="int64"), nm, npg, nself=int(g["nself"]))
            draws = rng.log[before:]
            pops.append({"nt": int(cur.ntaxa), "G": canon.enc(cur.mat)})
            obs.append(self._observe(gm, cur, cur.mat_asformat("{0,1,2}"), 2))
            ndraw = sum(d.size for d in draws)
            matings.append({"ndraws": ndraw, "parents_untouched": bool((sel_before == sel.mat).all()),
                            "draws": canon.enc(draws) if ndraw <= (4 * MAX_DRAWS_FUNCTIONAL if case.get("rng") == "scripted"
                                                                   else MAX_DRAWS_FUNCTIONAL) else None})
        return {"gens": obs, "pops": pops, "matings": matings,
                "ties": getattr(rng, "nties", 0), "zeros": getattr(rng, "nzero", 0)}

    # ------------------------------------------------------------------ model requests
    @staticmethod
    def _counts(v, ncross):
        return list(v) if isinstance(v, list) else [v] * ncross

    def requests(self, case, obs):
        if case["kind"] == "sweep":
            return []
        base = {"nv": case["nv"], "ntrait": case["ntrait"], "U": case["U"], "beta": case["beta"]}
        pops = [case["pop"]] if case["kind"] == "static" else [obs["pop"]] if case["kind"] == "big" else obs["pops"]
        reqs = [dict(base, op="c10.limits", pop=p) for p in pops]
        keys = ("usl", "lsl", "usl_un", "lsl_un", "gebv_raw", "gebv_un")
        reqs.append(dict(base, op="c10.spec", tol=canon.enc(TOL), pops=pops,
                         obs=[{k: o[k] for k in keys} for o in obs["gens"]]))
        if case["kind"] == "programme":
            for i, g in enumerate(case["gens"]):
                reqs.append({"op": "c10.select", "G": pops[2 * i]["G"], "idx": g["select"]})
            for i, (g, m) in enumerate(zip(case["gens"], obs["matings"])):
                if m["draws"] is not None:
                    nc = len(g["xconfig"])
                    reqs.append({"op": "c10.mate", "protocol": g["protocol"], "geno": pops[2 * i + 1]["G"],
                                 "xo": case["xo"], "xconfig": g["xconfig"],
                                 "nmating": self._counts(g["nmating"], nc), "nprogeny": self._counts(g["nprogeny"], nc),
                                 "nself": g["nself"], "draws": m["draws"]})
        return reqs

    def judge(self, case, obs, answers):
        if case["kind"] == "sweep":
            ok = obs["nbad"] == 0
            return {"corr": ok, "spec": ok, "nontrivial": True,
                    "detail": f"spec_fail=[{'' if ok else 'fixed population: usl=lsl=gebv at sizes'}] "
                              f"sweep 1..{case['nmax']} failing={obs['bad'][:6]} count={obs['nbad']}"}
        for a in answers:
            if "err" in a:
                return {"corr": False, "spec": False, "nontrivial": True,
                        "detail": "driver rejected the implementation's output: " + a["err"][:300]}
        ngen = len(obs["gens"])
        lim = [a["ok"] for a in answers[:ngen]]
        spec = answers[ngen]["ok"]
        nsel = len(case["gens"]) if case["kind"] == "programme" else 0
        sel_ans = [a["ok"] for a in answers[ngen + 1:ngen + 1 + nsel]]
        mate_ans = [a["ok"] for a in answers[ngen + 1 + nsel:]]
        if not all(m["valid"] for m in lim) and case["kind"] in ("static", "big"):
            raise RuntimeError("generator produced an invalid population")
        bad = []
        for gi, (m, o) in enumerate(zip(lim, obs["gens"])):
            if m["afreq"] != o["afreq"] and not all(
                    (canon.dec(a) in (0, 1) or canon.dec(b) in (0, 1)) and a == b or
                    (canon.dec(a) not in (0, 1) and canon.dec(b) not in (0, 1) and canon.close(canon.dec(a), canon.dec(b), 1e-12, 0))
                    for a, b in zip(m["afreq"], o["afreq"])):
                bad.append(f"gen{gi}.afreq")
            for k in ("usl", "lsl", "usl_un", "lsl_un", "gebv_raw", "gebv_un"):
                if not canon.close_enc(m[k], o[k], rel=1e-9, abs_=1e-9):
                    bad.append(f"gen{gi}.{k}")
        if case["kind"] == "programme":
            for i, sa in enumerate(sel_ans):
                if sa != obs["pops"][2 * i + 1]["G"]:
                    bad.append(f"selection{i}: select_taxa != model")
            k = 0
            for i, mt in enumerate(obs["matings"]):
                if not mt["parents_untouched"]:
                    bad.append(f"mating{i}:parents modified")
                if mt["draws"] is not None:
                    if mate_ans[k] != obs["pops"][2 * i + 2]["G"]:
                        bad.append(f"mating{i}:{case['gens'][i]['protocol']} progeny != model")
                    k += 1
        corr = not bad
        # non-triviality
        if case["kind"] == "big":
            nontriv = bool(case["off"])
        elif case["kind"] == "static":
            fr = [canon.dec(x) for x in obs["gens"][0]["afreq"]]
            nontriv = any(0 < x < 1 for x in fr) and any(Fraction(v) != 0 for r in case["U"] for v in r)
        else:
            def alleles(p):
                G = p["G"]
                return [{G[c][i][j] for c in range(2) for i in range(p["nt"])} for j in range(case["nv"])]
            a0, a1 = alleles(obs["pops"][0]), alleles(obs["pops"][-1])
            nontriv = any(len(x) > len(y) for x, y in zip(a0, a1))
        detail = (f"spec_fail=[{spec['detail']}] model_vs_impl_diff={bad[:6]} kind={case['kind']} "
                  f"sizes={[p['nt'] for p in (obs.get('pops') or [obs.get('pop') or case['pop']])]} "
                  f"usl={obs['gens'][0]['usl']} lsl={obs['gens'][0]['lsl']}")
        return {"corr": corr, "spec": bool(spec["ok"]), "nontrivial": bool(nontriv), "detail": detail}

    def signature(self, case, obs, verdict):
        return {"kind": case["kind"], "clauses": (verdict.get("detail", "").split("]")[0])[:200]}

    def shrink(self, case):
        if case["kind"] == "sweep":
            return
        if case["kind"] == "big":
            if case["n"] > 50000:
                yield dict(case, n=max(50000, case["n"] // 2))
            return
        nv = case["nv"]
        if case["kind"] == "static":
            pop = case["pop"]
            nt = pop["nt"]
            if nt > 3:
                h = nt // 2
                for lo, hi in ((0, h), (h, nt)):
                    p = dict(pop, nt=hi - lo)
                    if "G" in pop:
                        p["G"] = [ph[lo:hi] for ph in pop["G"]]
                    else:
                        p["Z"] = pop["Z"][lo:hi]
                    yield dict(case, pop=p)
            if nt > 1:
                for i in ([0, nt - 1, nt // 2] if nt > 3 else range(nt)):
                    p = dict(pop, nt=nt - 1)
                    if "G" in pop:
                        p["G"] = [ph[:i] + ph[i + 1:] for ph in pop["G"]]
                    else:
                        p["Z"] = pop["Z"][:i] + pop["Z"][i + 1:]
                    yield dict(case, pop=p)
            if nv > 1:
                for j in range(nv):
                    p = dict(pop)
                    if "G" in pop:
                        p["G"] = [[r[:j] + r[j + 1:] for r in ph] for ph in pop["G"]]
                    else:
                        p["Z"] = [r[:j] + r[j + 1:] for r in pop["Z"]]
                    yield dict(case, nv=nv - 1, pop=p, U=case["U"][:j] + case["U"][j + 1:])
            if case["ntrait"] > 1:
                yield dict(case, ntrait=1, U=[r[:1] for r in case["U"]], beta=[r[:1] for r in case["beta"]])
        else:
            if len(case["gens"]) > 1:
                yield dict(case, gens=case["gens"][:-1])
            for i, g in enumerate(case["gens"]):
                if g["nself"] > 0:
                    gs = list(case["gens"])
                    gs[i] = dict(g, nself=0)
                    yield dict(case, gens=gs)
            if case["ntrait"] > 1:
                yield dict(case, ntrait=1, U=[r[:1] for r in case["U"]], beta=[r[:1] for r in case["beta"]])

    # ------------------------------------------------------------------ self-test mutants
    def mutants(self):
        gmod, ug, pg, mutil, prots = _mods()
        GM = gmod.DenseAdditiveLinearGenomicModel
        UG, PG = ug.DenseGenotypeMatrix, pg.DensePhasedGenotypeMatrix
        import importlib
        prot_mods = [importlib.import_module("pybrops.breed.prot.mate." + n) for n in PROTOCOLS]

        @contextlib.contextmanager
        def patch(*triples):
            missing = object()
            olds = [(o, n, o.__dict__.get(n, missing)) for o, n, _ in triples]
            for o, n, new in triples:
                setattr(o, n, new)
            try:
                yield
            finally:
                for o, n, old in olds:
                    if old is missing:
                        delattr(o, n)
                    else:
                        setattr(o, n, old)

        def loc(self):
            nfixed = self.beta.shape[0]
            X = numpy.empty((1, nfixed), dtype=self.beta.dtype)
            X[0, 0] = 1
            X[0, 1:] = 1 / nfixed
            return (X @ self.beta).ravel()

        def make_limit(pos_test, neg_test, ploidy_factor=True, add_loc=1):
            def f(self, p, ploidy, unscale=False, **kw):
                p = p[:, None]
                geno = numpy.where(self.u_a > 0.0, pos_test(p), neg_test(p))
                out = ((float(ploidy) if ploidy_factor else 1.0) * self.u_a * geno).sum(0)
                if unscale:
                    out = out + add_loc * loc(self)
                return out
            return f

        gt0, ge1 = (lambda p: p > 0.0), (lambda p: p >= 1.0)
        usl_loose = make_limit(gt0, lambda p: p > 0.999)
        usl_swapped = make_limit(ge1, gt0)                       # the two `where` branches swapped
        lsl_noploidy = make_limit(ge1, gt0, ploidy_factor=False)
        lsl_ge0 = make_limit(ge1, lambda p: p >= 0.0)
        usl_loc_twice = make_limit(gt0, ge1, add_loc=2)
        near1 = lambda p: numpy.isclose(p, 1.0)                  # tolerance instead of exact fixation
        not0 = lambda p: ~numpy.isclose(p, 0.0)
        usl_isclose = make_limit(not0, near1)
        lsl_isclose = make_limit(near1, not0)

        def cast(out, dtype):
            if dtype is not None:
                dtype = numpy.dtype(dtype)
                if out.dtype != dtype:
                    out = dtype.type(out)
            return out

        def u_afreq_recip(self, dtype=None):
            return cast((1.0 / (self.ploidy * self.ntaxa)) * self._mat.sum(self.taxa_axis), dtype)

        def p_afreq_recip(self, dtype=None):
            return cast((1.0 / (self.ploidy * self.ntaxa)) * self._mat.sum((self.phase_axis, self.taxa_axis)), dtype)

        def usl_array_recip(self, gtobj, ploidy=None, unscale=False, **kw):
            if isinstance(gtobj, numpy.ndarray):
                ploidy = 2 if ploidy is None else ploidy
                p = (1.0 / (ploidy * gtobj.shape[0])) * gtobj.sum(0)
            else:
                p, ploidy = gtobj.afreq(), gtobj.ploidy
            return self.usl_numpy(p, ploidy, unscale, **kw)

        def meiosis_mutating(geno, sel, xoprob, rng):
            rnd = rng.uniform(0, 1, (len(sel), len(xoprob)))
            gamete = numpy.empty((len(sel), len(xoprob)), dtype=geno.dtype)
            for i, s in enumerate(sel):
                xoix = numpy.flatnonzero(rnd[i] < xoprob)
                phase, stix = 0, 0
                for spix in xoix:
                    gamete[i, stix:spix] = geno[phase, s, stix:spix]
                    stix = spix
                    phase = 1 - phase
                gamete[i, stix:] = 1 - geno[phase, s, stix:]     # last segment complemented = mutation
            return gamete

        def meiosis_last_segment_dropped(geno, sel, xoprob, rng):
            rnd = rng.uniform(0, 1, (len(sel), len(xoprob)))
            gamete = numpy.zeros((len(sel), len(xoprob)), dtype=geno.dtype)
            for i, s in enumerate(sel):
                xoix = numpy.flatnonzero(rnd[i] < xoprob)
                phase, stix = 0, 0
                for spix in xoix:
                    gamete[i, stix:spix] = geno[phase, s, stix:spix]
                    stix = spix
                    phase = 1 - phase
            return gamete

        def meiosis_crossover_on_tie(geno, sel, xoprob, rng):
            rnd = rng.uniform(0, 1, (len(sel), len(xoprob)))
            gamete = numpy.empty((len(sel), len(xoprob)), dtype=geno.dtype)
            for i, s in enumerate(sel):
                xoix = numpy.flatnonzero(rnd[i] <= xoprob)         # `<=`: a tie (and u = 0 at xoprob = 0) crosses over
                phase, stix = 0, 0
                for spix in xoix:
                    gamete[i, stix:spix] = geno[phase, s, stix:spix]
                    stix = spix
                    phase = 1 - phase
                gamete[i, stix:] = geno[phase, s, stix:]
            return gamete

        def mate_with(meio):
            def mat_mate(fgeno, mgeno, fsel, msel, xoprob, rng):
                return numpy.stack([meio(fgeno, fsel, xoprob, rng), meio(mgeno, msel, xoprob, rng)])

            def mat_dh(geno, sel, xoprob, rng):
                g = meio(geno, sel, xoprob, rng)
                return numpy.stack([g, g])
            trip = []
            for m in prot_mods:
                if hasattr(m, "mat_mate"):
                    trip.append((m, "mat_mate", mat_mate))
                if hasattr(m, "mat_dh"):
                    trip.append((m, "mat_dh", mat_dh))
            return trip

        def select_immigrant(self, indices, **kw):
            out = _orig_select(self, indices, **kw)
            m = out.mat.copy()
            m[0, 0, :] = 1 - m[0, 0, :]                           # an immigrant chromosome
            out.mat = m
            return out
        _orig_select = PG.__dict__["select_taxa"]

        return [
            ("usl_fixation_test_loosened", lambda: patch((GM, "usl_numpy", usl_loose))),
            ("usl_where_branches_swapped", lambda: patch((GM, "usl_numpy", usl_swapped))),
            ("lsl_without_ploidy", lambda: patch((GM, "lsl_numpy", lsl_noploidy))),
            ("lsl_presence_test_ge_zero", lambda: patch((GM, "lsl_numpy", lsl_ge0))),
            ("usl_lsl_fixation_test_isclose", lambda: patch((GM, "usl_numpy", usl_isclose), (GM, "lsl_numpy", lsl_isclose))),
            ("usl_fixation_test_isclose", lambda: patch((GM, "usl_numpy", usl_isclose))),
            ("lsl_fixation_test_isclose", lambda: patch((GM, "lsl_numpy", lsl_isclose))),
            ("usl_location_added_twice", lambda: patch((GM, "usl_numpy", usl_loc_twice))),
            ("afreq_reciprocal_form_D1", lambda: patch((UG, "afreq", u_afreq_recip), (PG, "afreq", p_afreq_recip))),
            ("usl_ndarray_path_reciprocal_form", lambda: patch((GM, "usl", usl_array_recip))),
            ("meiosis_crossover_on_tie", lambda: patch(*mate_with(meiosis_crossover_on_tie))),
            ("meiosis_mutates_last_segment", lambda: patch(*mate_with(meiosis_mutating))),
            ("meiosis_last_segment_not_copied", lambda: patch(*mate_with(meiosis_last_segment_dropped))),
            ("selection_lets_an_immigrant_in", lambda: patch((PG, "select_taxa", select_immigrant))),
        ]


PROP = C10()
